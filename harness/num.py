"""Exact export of Python numbers to the Dy representation of spec/Dy.tla.

A Dy value is [s, e, [limb, ...]] = s * (sum limb_i * B**i) * B**e with B = 2**15,
normalised (no zero limb at either end; zero is [0, 0, []]).  Every finite IEEE-754
double is exactly representable.  Non-finite floats are exported with the sign codes
2 (nan), 3 (+inf), -3 (-inf) and no limbs; DyMat!IsFin tests for them and every clause of the
specification guards on it.  This module does no judging; it only converts.
"""
from fractions import Fraction
import math

B_BITS = 15
B = 1 << B_BITS


def _from_int_exp2(n, k):
  """n * 2**k  (n int, k int) -> Dy"""
  if n == 0:
    return [0, 0, []]
  s = 1 if n > 0 else -1
  n = abs(n)
  e = k // B_BITS           # floor
  n <<= (k - e * B_BITS)    # 0 <= shift < 15
  # strip low zero limbs
  tz = (n & -n).bit_length() - 1
  z = tz // B_BITS
  n >>= z * B_BITS
  e += z
  limbs = []
  while n:
    limbs.append(n & (B - 1))
    n >>= B_BITS
  return [s, e, limbs]


def dy(x):
  """float / int / numpy scalar / Fraction with power-of-two denominator -> Dy"""
  if isinstance(x, bool):
    x = int(x)
  if isinstance(x, int):
    return _from_int_exp2(x, 0)
  if isinstance(x, Fraction):
    d = x.denominator
    assert d & (d - 1) == 0, "not dyadic"
    return _from_int_exp2(x.numerator, -(d.bit_length() - 1))
  if hasattr(x, 'dtype') and x.dtype.kind in 'iub':
    return _from_int_exp2(int(x), 0)
  if isinstance(x, complex) or (hasattr(x, 'dtype') and x.dtype.kind == 'c'):
    # a complex number is exported as its real part when the imaginary part is exactly zero
    # (whether the dtype is real is a separate, explicitly logged observation) and as NaN otherwise
    x = complex(x)
    if x.imag != 0:
      return [2, 0, []]
    x = x.real
  x = float(x)
  if math.isnan(x):
    return [2, 0, []]
  if math.isinf(x):
    return [3, 0, []] if x > 0 else [-3, 0, []]
  n, d = x.as_integer_ratio()
  return _from_int_exp2(n, -(d.bit_length() - 1))


def dyv(v):
  return [dy(x) for x in v]


def dym(m):
  return [[dy(x) for x in row] for row in m]


def dyt(t):
  """arbitrary nesting"""
  if hasattr(t, 'tolist') and getattr(t, 'ndim', 0) > 0:
    return [dyt(x) for x in t]
  if isinstance(t, (list, tuple)):
    return [dyt(x) for x in t]
  return dy(t)


def to_fraction(d):
  s, e, limbs = d
  n = 0
  for i, l in enumerate(limbs):
    n += l << (B_BITS * i)
  return Fraction(s * n) * (Fraction(B) ** e)


def to_float(d):
  if d[0] == 2:
    return float('nan')
  if abs(d[0]) == 3:
    return float('inf') * (1 if d[0] > 0 else -1)
  return float(to_fraction(d))


def all_finite(t):
  if isinstance(t, list) and len(t) == 3 and isinstance(t[0], int) and isinstance(t[2], list) \
     and all(isinstance(z, int) for z in t[2]):
    return abs(t[0]) <= 1
  return all(all_finite(x) for x in t)


if __name__ == '__main__':
  import random
  for _ in range(10000):
    x = random.choice([random.uniform(-1, 1) * 10 ** random.randint(-300, 300),
                       float(random.randint(-10**6, 10**6)), 0.0, -0.0, 5e-324, 1.7e308])
    assert to_fraction(dy(x)) == Fraction(x), x
    d = dy(x)
    assert d[2] == [] or (d[2][0] != 0 and d[2][-1] != 0)
  print("ok")
