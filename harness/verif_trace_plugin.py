"""pytest plugin: records public calls made by the REPOSITORY'S OWN TESTS on metric-learn estimators.

Loaded with `-p verif_trace_plugin` (PYTHONPATH has /verif/harness); nothing in /repo is modified: the public
methods of MahalanobisMixin and of the pairs-classifier mixin are wrapped at import time of the plugin, the
wrappers call the original and append one JSON line per OUTERMOST call (nested calls are skipped through a
depth counter) to $VERIF_TRACE_OUT.<pid>.  Only calls whose argument is already-formed float data are recorded
(points: 2-D, pairs: 3-D with tuple size 2); rows are sub-sampled.  The recorded behaviours are then validated
by TLC against TR_MetricLearn (events CallPairs / CallTransform / CallPredictPairs), i.e. the test suite's
executions are checked against the specification at every call, not only where a test asserts something.
"""
import json
import os
import threading
import weakref
import zlib

import numpy as np

_OUT = os.environ.get('VERIF_TRACE_OUT')
_MAXROWS = 6
_MAXCALLS = int(os.environ.get('VERIF_TRACE_MAXCALLS', '4000'))
_state = threading.local()
_count = [0]


def _depth():
  return getattr(_state, 'd', 0)


def _emit(rec):
  if _OUT is None or _count[0] >= _MAXCALLS:
    return
  _count[0] += 1
  rec['test'] = os.environ.get('PYTEST_CURRENT_TEST', '').rsplit(' (', 1)[0]
  with open('%s.%d' % (_OUT, os.getpid()), 'a') as f:
    f.write(json.dumps(rec) + '\n')


def _arr(a):
  return np.asarray(a, dtype=float).tolist()


_LC_MAX = int(os.environ.get('VERIF_TRACE_MAXLIFE', '8000'))
_lc_count = [0]
_objs = weakref.WeakKeyDictionary()
_objseq = [0]
_QUERIES = ('predict', 'decision_function', 'score', 'transform', 'pair_distance', 'pair_score', 'score_pairs',
            'get_metric', 'get_mahalanobis_matrix')


_NOT_A_QUERY = ('score', 'fit', 'calibrate_threshold', 'set_threshold')


def _crc(b):
  return zlib.crc32(b) & 0x3fffffff


def _token(v):
  if v is None or isinstance(v, (bool, int, float, str)):
    return repr(v)
  if isinstance(v, np.ndarray):
    return ('arr', id(v), _crc(np.ascontiguousarray(v).tobytes()), v.shape, str(v.dtype))
  if isinstance(v, (list, tuple)):
    return ('seq', id(v), repr(v)[:2000])
  return ('obj', id(v), type(v).__name__)


def _snapshot(self):
  """cheap projection of the object's abstract state: fitted?, model digest, threshold_, n_features_in_, parameters digest"""
  L = self.__dict__.get('components_')
  fitted = L is not None
  dig = 0
  if fitted:
    try:
      A = np.ascontiguousarray(np.asarray(L))
      dig = 1 + _crc(A.tobytes() + repr(A.shape).encode())
    except Exception:
      dig = 1
  thr = self.__dict__.get('threshold_')
  try:
    thr = None if thr is None else float(thr)
  except Exception:
    thr = None
  nf = self.__dict__.get('n_features_in_')
  try:
    par = _crc(repr(sorted((k, _token(v)) for k, v in self.get_params(deep=False).items())).encode())
  except Exception:
    par = -1
  return {'fitted': bool(fitted), 'dig': int(dig), 'thr': thr, 'nfeat': int(nf) if isinstance(nf, (int, np.integer)) else -1,
          'par': int(par)}


def _fit_dim(self, args):
  """number of features of the points handed to fit (formed data, or indices into an array preprocessor); -1 = unknown"""
  from metric_learn import base_metric as bm
  try:
    a = np.asarray(args[0])
    tup = isinstance(self, (bm._PairsClassifierMixin, bm._TripletsClassifierMixin, bm._QuadrupletsClassifierMixin))
    formed = 3 if tup else 2
    if a.ndim == formed and a.dtype.kind in 'fiu':
      return int(a.shape[-1])
    if a.ndim == formed - 1 and self.preprocessor is not None and not callable(self.preprocessor):
      P = np.asarray(self.preprocessor)
      if P.ndim == 2:
        return int(P.shape[1])
  except Exception:
    pass
  return -1


def _emit_life(self, name, args, before, after, exc, out):
  if _OUT is None or _lc_count[0] >= _LC_MAX:
    return
  if not type(self).__module__.startswith('metric_learn'):
    return
  _lc_count[0] += 1
  if self not in _objs:
    _objseq[0] += 1
    _objs[self] = _objseq[0]
  from metric_learn import base_metric as bm
  rec = {'ev': 'Life', 'obj': '%d.%d' % (os.getpid(), _objs[self]), 'cls': type(self).__name__, 'act': name,
         'pairs_classifier': isinstance(self, bm._PairsClassifierMixin),
         'exc': exc, 'before': before, 'after': after,
         'test': os.environ.get('PYTEST_CURRENT_TEST', '').rsplit(' (', 1)[0]}
  if name == 'fit':
    rec['d'] = _fit_dim(self, args)
    rec['ret_self'] = out is self
  if name == 'set_threshold':
    v = args[0] if args else None
    rec['arg'] = float(v) if isinstance(v, (int, float, np.integer, np.floating)) and not isinstance(v, bool) else None
  with open('%s.life.%d' % (_OUT, os.getpid()), 'a') as f:
    f.write(json.dumps(rec) + '\n')


def _wrap(cls, name, recorder):
  """one wrapper per public method.  Life-cycle events are emitted for OUTERMOST calls (counter `d`); the call recorders
  fire for query calls not nested in another query (counter `c`; fit, calibrate_threshold and score may enclose them)."""
  orig = cls.__dict__[name] if name in cls.__dict__ else getattr(cls, name)

  def wrapper(self, *args, **kwargs):
    outer = _depth() == 0
    before = _snapshot(self) if outer else None
    _state.d = _depth() + 1
    if name not in _NOT_A_QUERY:
      _state.c = getattr(_state, 'c', 0) + 1
    out = None
    exc = ''
    try:
      out = orig(self, *args, **kwargs)
      return out
    except BaseException as e:
      exc = type(e).__name__
      raise
    finally:
      _state.d -= 1
      if name not in _NOT_A_QUERY:
        _state.c -= 1
      try:
        if outer:
          _emit_life(self, name, args, before, _snapshot(self), exc, out)
        if recorder is not None and exc == '' and getattr(_state, 'c', 0) == 0:
          _state.kwargs = kwargs
          recorder(self, name, args, out)
      except Exception:
        pass          # recording must never disturb a test
  wrapper.__name__ = name
  wrapper.__doc__ = orig.__doc__
  wrapper.__wrapped__ = orig
  setattr(cls, name, wrapper)


def _rec_pairs(self, name, args, out):
  if not type(self).__module__.startswith('metric_learn'):
    return            # test doubles are not the library
  P = np.asarray(args[0])
  if P.dtype.kind not in 'fi' or P.ndim != 3 or P.shape[1] != 2 or P.shape[0] == 0 or not np.isfinite(P.astype(float)).all():
    return
  idx = np.linspace(0, len(P) - 1, min(_MAXROWS, len(P))).astype(int)
  L = np.asarray(self.components_)
  if L.dtype.kind != 'f' or not np.isfinite(L).all():
    return
  rec = {'ev': 'CallPairs', 'method': name, 'cls': type(self).__name__, 'L': _arr(L), 'pairs': _arr(P[idx]),
         'out': _arr(np.asarray(out)[idx])}
  if name == 'predict':
    rec['ev'] = 'CallPredictPairs'
    rec['thr'] = float(self.threshold_)
    rec['out'] = [int(v) for v in np.asarray(out)[idx]]
  _emit(rec)


def _rec_transform(self, name, args, out):
  if not type(self).__module__.startswith('metric_learn'):
    return
  X = np.asarray(args[0])
  if X.dtype.kind not in 'fi' or X.ndim != 2 or X.shape[0] == 0 or not np.isfinite(X.astype(float)).all():
    return
  L = np.asarray(self.components_)
  if L.dtype.kind != 'f' or not np.isfinite(L).all() or X.shape[1] != L.shape[1]:
    return
  idx = np.linspace(0, len(X) - 1, min(_MAXROWS, len(X))).astype(int)
  _emit({'ev': 'CallTransform', 'method': name, 'cls': type(self).__name__, 'L': _arr(L), 'X': _arr(X[idx]),
         'out': _arr(np.asarray(out)[idx])})


def _rec_tuples(self, name, args, out):
  if not type(self).__module__.startswith('metric_learn'):
    return
  T = np.asarray(args[0])
  if T.dtype.kind not in 'fi' or T.ndim != 3 or T.shape[1] not in (3, 4) or T.shape[0] == 0 or not np.isfinite(T.astype(float)).all():
    return
  L = np.asarray(self.components_)
  if L.dtype.kind != 'f' or not np.isfinite(L).all() or T.shape[2] != L.shape[1]:
    return
  idx = np.linspace(0, len(T) - 1, min(_MAXROWS, len(T))).astype(int)
  o = np.asarray(out)[idx]
  _emit({'ev': 'CallTuples', 'method': name, 'cls': type(self).__name__, 'L': _arr(L), 'tuples': _arr(T[idx]),
         'out': [int(v) for v in o] if name == 'predict' else _arr(o)})


def _rec_matrix(self, name, args, out):
  if not type(self).__module__.startswith('metric_learn'):
    return
  L = np.asarray(self.components_)
  M = np.asarray(out)
  if L.dtype.kind != 'f' or L.ndim != 2 or not np.isfinite(L).all() or L.shape[1] > 12:
    return
  _emit({'ev': 'CallMatrix', 'method': name, 'cls': type(self).__name__, 'L': _arr(L), 'M': _arr(M)})


def _rec_calibrate(self, name, args, out):
  """calibrate_threshold(pairs_valid, y_valid, strategy, min_rate, beta): the validation distances are read back
  with pair_distance (recording suspended), the stored threshold_ afterwards"""
  if not type(self).__module__.startswith('metric_learn'):
    return
  kw = dict(getattr(_state, 'kwargs', {}) or {})
  names = ['pairs_valid', 'y_valid', 'strategy', 'min_rate', 'beta']
  for n, a in zip(names, args):
    kw[n] = a
  strategy = kw.get('strategy', 'accuracy')
  y = np.asarray(kw['y_valid'])
  if y.ndim != 1 or len(y) == 0 or len(y) > 400 or not set(np.unique(y).tolist()) <= {-1, 1}:
    return
  _state.c = getattr(_state, 'c', 0) + 1          # (suspends the call recorders)
  _state.d = _depth() + 1                         # (and the life-cycle events)
  try:
    d = np.asarray(self.pair_distance(kw['pairs_valid']), dtype=float)
  finally:
    _state.c -= 1
    _state.d -= 1
  beta = kw.get('beta', 1.)
  mr = kw.get('min_rate', None)
  _emit({'ev': 'CallCalibrate', 'method': name, 'cls': type(self).__name__, 'strategy': str(strategy),
         'beta': float(beta) if beta is not None else 1.0, 'min_rate': float(mr) if mr is not None else 0.0,
         'y': [int(v) for v in y], 'd': d.tolist(), 'thr': float(self.threshold_)})


def _rec_fit_closed(self, name, args, out):
  """fits of the closed-form learners: Covariance.fit(X) and RCA.fit(X, chunks) (also when reached from RCA_Supervised)"""
  if not type(self).__module__.startswith('metric_learn') or not hasattr(self, 'components_'):
    return
  cls = type(self).__name__
  X = np.asarray(args[0]) if args else None
  if X is None or X.ndim != 2 or X.dtype.kind not in 'fiu' or X.shape[0] > 200 or X.shape[1] > 6 or not np.isfinite(X.astype(float)).all():
    return
  L = np.asarray(self.components_)
  if L.dtype.kind != 'f' or L.ndim != 2:
    return
  if cls == 'Covariance':
    _emit({'ev': 'CallFitCov', 'method': 'fit', 'cls': cls, 'X': _arr(X), 'L': _arr(L)})
  elif cls in ('RCA', 'RCA_Supervised') and len(args) >= 2:
    ch = np.asarray(args[1])
    if ch.ndim == 1 and len(ch) == len(X) and ch.dtype.kind in 'iu':
      _emit({'ev': 'CallFitRca', 'method': 'fit', 'cls': cls, 'X': _arr(X), 'chunks': [int(v) for v in ch], 'L': _arr(L)})


def _wrap_constraints():
  """Constraints.positive_negative_pairs / chunks as used by the tests and by every *_Supervised fit"""
  from metric_learn.constraints import Constraints

  def wrap(name, rec):
    orig = Constraints.__dict__[name]

    def wrapper(self, *args, **kwargs):
      exc, out = '', None
      try:
        out = orig(self, *args, **kwargs)
        return out
      except BaseException as e:
        exc = type(e).__name__
        raise
      finally:
        try:
          rec(self, args, kwargs, out, exc)
        except Exception:
          pass
    wrapper.__name__ = name
    wrapper.__doc__ = orig.__doc__
    setattr(Constraints, name, wrapper)

  def rec_pairs(self, args, kwargs, out, exc):
    kw = dict(kwargs)
    for n, a in zip(['n_constraints', 'same_length', 'random_state', 'num_constraints'], args):
      kw[n] = a
    n = kw.get('n_constraints')
    if kw.get('num_constraints', 'deprecated') != 'deprecated' or not isinstance(n, (int, np.integer)) or exc:
      return
    y = np.asarray(self.partial_labels)
    if y.ndim != 1 or len(y) > 400 or n > 400 or y.dtype.kind not in 'iu':
      return
    a, b, c, d = (np.asarray(v) for v in out)
    _emit({'ev': 'CallConsPairs', 'method': 'positive_negative_pairs', 'cls': 'Constraints', 'y': [int(v) for v in y],
           'n': int(n), 'same_length': bool(kw.get('same_length', False)),
           'A': [int(v) + 1 for v in a], 'B': [int(v) + 1 for v in b], 'C': [int(v) + 1 for v in c], 'D': [int(v) + 1 for v in d]})

  def rec_chunks(self, args, kwargs, out, exc):
    kw = dict(kwargs)
    for n, a in zip(['n_chunks', 'chunk_size', 'random_state', 'num_chunks'], args):
      kw[n] = a
    if kw.get('num_chunks', 'deprecated') != 'deprecated':
      return
    n, size = kw.get('n_chunks', 100), kw.get('chunk_size', 2)
    y = np.asarray(self.partial_labels)
    if y.ndim != 1 or len(y) > 400 or y.dtype.kind not in 'iu' or not isinstance(n, (int, np.integer)) \
       or not isinstance(size, (int, np.integer)) or n < 1 or size < 1:
      return
    _emit({'ev': 'CallConsChunks', 'method': 'chunks', 'cls': 'Constraints', 'y': [int(v) for v in y], 'n': int(n),
           'size': int(size), 'exc': exc, 'ch': [int(v) for v in np.asarray(out)] if out is not None else []})
  wrap('positive_negative_pairs', rec_pairs)
  wrap('chunks', rec_chunks)


def _install():
  _wrap_constraints()
  import metric_learn
  from metric_learn import base_metric as bm
  for m in ('pair_distance', 'pair_score', 'score_pairs'):
    _wrap(bm.MahalanobisMixin, m, _rec_pairs)
  _wrap(bm.MahalanobisMixin, 'transform', _rec_transform)
  _wrap(bm.MahalanobisMixin, 'get_mahalanobis_matrix', _rec_matrix)
  _wrap(bm.MahalanobisMixin, 'get_metric', None)
  _wrap(bm._PairsClassifierMixin, 'decision_function', _rec_pairs)
  _wrap(bm._PairsClassifierMixin, 'predict', _rec_pairs)
  for m in ('score', 'set_threshold'):
    _wrap(bm._PairsClassifierMixin, m, None)
  _wrap(bm._PairsClassifierMixin, 'calibrate_threshold', _rec_calibrate)
  for c in (bm._TripletsClassifierMixin, bm._QuadrupletsClassifierMixin):
    _wrap(c, 'decision_function', _rec_tuples)
    _wrap(c, 'predict', _rec_tuples)
    _wrap(c, 'score', None)
  # every concrete estimator's own fit
  seen = set()
  for nm in metric_learn.__all__:
    cls = getattr(metric_learn, nm, None)
    if isinstance(cls, type):
      for k in cls.__mro__:
        if k.__module__.startswith('metric_learn') and 'fit' in k.__dict__ and k not in seen:
          seen.add(k)
          _wrap(k, 'fit', _rec_fit_closed if k.__name__ in ('Covariance', 'RCA') else None)


if _OUT is not None:
  _install()
