"""pytest plugin: records public calls made by the REPOSITORY'S OWN TESTS on metric-learn estimators.

Loaded with `-p verif_trace_plugin` (PYTHONPATH has /verif/harness); nothing in /repo is modified: the public
methods of MahalanobisMixin and of the pairs-classifier mixin are wrapped at import time of the plugin, the
wrappers call the original and append one JSON line per OUTERMOST call (nested calls are skipped through a
depth counter) to $VERIF_TRACE_OUT.<pid>.  Only calls whose argument is already-formed float data are recorded
(points: 2-D, pairs: 3-D with tuple size 2); rows are sub-sampled.  The recorded behaviours are then validated
by TLC against TR_MetricLearn (events CallPairs / CallTransform / CallPredictPairs), i.e. the test suite's
executions are checked against the specification at every call, not only where a test asserts something.
"""
import json
import os
import threading

import numpy as np

_OUT = os.environ.get('VERIF_TRACE_OUT')
_MAXROWS = 6
_MAXCALLS = int(os.environ.get('VERIF_TRACE_MAXCALLS', '4000'))
_state = threading.local()
_count = [0]


def _depth():
  return getattr(_state, 'd', 0)


def _emit(rec):
  if _OUT is None or _count[0] >= _MAXCALLS:
    return
  _count[0] += 1
  rec['test'] = os.environ.get('PYTEST_CURRENT_TEST', '').rsplit(' (', 1)[0]
  with open('%s.%d' % (_OUT, os.getpid()), 'a') as f:
    f.write(json.dumps(rec) + '\n')


def _arr(a):
  return np.asarray(a, dtype=float).tolist()


def _wrap(cls, name, recorder):
  orig = getattr(cls, name)

  def wrapper(self, *args, **kwargs):
    _state.d = _depth() + 1
    try:
      out = orig(self, *args, **kwargs)
    finally:
      _state.d -= 1
    if _depth() == 0:
      try:
        recorder(self, name, args, out)
      except Exception:
        pass          # recording must never disturb a test
    return out
  wrapper.__name__ = name
  wrapper.__doc__ = orig.__doc__
  setattr(cls, name, wrapper)


def _rec_pairs(self, name, args, out):
  if not type(self).__module__.startswith('metric_learn'):
    return            # test doubles are not the library
  P = np.asarray(args[0])
  if P.dtype.kind not in 'fi' or P.ndim != 3 or P.shape[1] != 2 or P.shape[0] == 0 or not np.isfinite(P.astype(float)).all():
    return
  idx = np.linspace(0, len(P) - 1, min(_MAXROWS, len(P))).astype(int)
  L = np.asarray(self.components_)
  if L.dtype.kind != 'f' or not np.isfinite(L).all():
    return
  rec = {'ev': 'CallPairs', 'method': name, 'cls': type(self).__name__, 'L': _arr(L), 'pairs': _arr(P[idx]),
         'out': _arr(np.asarray(out)[idx])}
  if name == 'predict':
    rec['ev'] = 'CallPredictPairs'
    rec['thr'] = float(self.threshold_)
    rec['out'] = [int(v) for v in np.asarray(out)[idx]]
  _emit(rec)


def _rec_transform(self, name, args, out):
  if not type(self).__module__.startswith('metric_learn'):
    return
  X = np.asarray(args[0])
  if X.dtype.kind not in 'fi' or X.ndim != 2 or X.shape[0] == 0 or not np.isfinite(X.astype(float)).all():
    return
  L = np.asarray(self.components_)
  if L.dtype.kind != 'f' or not np.isfinite(L).all() or X.shape[1] != L.shape[1]:
    return
  idx = np.linspace(0, len(X) - 1, min(_MAXROWS, len(X))).astype(int)
  _emit({'ev': 'CallTransform', 'method': name, 'cls': type(self).__name__, 'L': _arr(L), 'X': _arr(X[idx]),
         'out': _arr(np.asarray(out)[idx])})


def _rec_tuples(self, name, args, out):
  if not type(self).__module__.startswith('metric_learn'):
    return
  T = np.asarray(args[0])
  if T.dtype.kind not in 'fi' or T.ndim != 3 or T.shape[1] not in (3, 4) or T.shape[0] == 0 or not np.isfinite(T.astype(float)).all():
    return
  L = np.asarray(self.components_)
  if L.dtype.kind != 'f' or not np.isfinite(L).all() or T.shape[2] != L.shape[1]:
    return
  idx = np.linspace(0, len(T) - 1, min(_MAXROWS, len(T))).astype(int)
  o = np.asarray(out)[idx]
  _emit({'ev': 'CallTuples', 'method': name, 'cls': type(self).__name__, 'L': _arr(L), 'tuples': _arr(T[idx]),
         'out': [int(v) for v in o] if name == 'predict' else _arr(o)})


def _rec_matrix(self, name, args, out):
  if not type(self).__module__.startswith('metric_learn'):
    return
  L = np.asarray(self.components_)
  M = np.asarray(out)
  if L.dtype.kind != 'f' or L.ndim != 2 or not np.isfinite(L).all() or L.shape[1] > 12:
    return
  _emit({'ev': 'CallMatrix', 'method': name, 'cls': type(self).__name__, 'L': _arr(L), 'M': _arr(M)})


def _install():
  from metric_learn import base_metric as bm
  for m in ('pair_distance', 'pair_score', 'score_pairs'):
    _wrap(bm.MahalanobisMixin, m, _rec_pairs)
  _wrap(bm.MahalanobisMixin, 'transform', _rec_transform)
  _wrap(bm._PairsClassifierMixin, 'decision_function', _rec_pairs)
  _wrap(bm._PairsClassifierMixin, 'predict', _rec_pairs)
  _wrap(bm.MahalanobisMixin, 'get_mahalanobis_matrix', _rec_matrix)
  for c in (bm._TripletsClassifierMixin, bm._QuadrupletsClassifierMixin):
    _wrap(c, 'decision_function', _rec_tuples)
    _wrap(c, 'predict', _rec_tuples)


if _OUT is not None:
  _install()
