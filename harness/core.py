"""Shared machinery: TLC runner, verdict parsing, evidence, known findings, replays.

Everything here is orchestration; the judging is done by TLC on the TLA+ modules in
/verif/spec.  Exit codes of bin/check: 0 held, 1 violation (VIOLATION line printed),
2 machinery failure.
"""
import hashlib
import json
import os
import re
import shutil
import subprocess
import sys
import time

VERIF = os.path.dirname(os.path.dirname(os.path.abspath(__file__)))
REPO = os.environ.get('VERIF_REPO', '/repo')
SPEC = os.path.join(VERIF, 'spec')
TLA_CP = '/opt/veriftools/tla/tla2tools.jar:/opt/veriftools/tla/CommunityModules-deps.jar'
NCPU = min(16, os.cpu_count() or 4)
# experiments against a scratch copy of the repository (seeded changes) write everything under OUT, not /verif
OUT = os.environ.get('VERIF_OUT', VERIF)
SANDBOX = os.environ.get('VERIF_OUT') is not None


class MachineryError(Exception):
  pass


# ----------------------------------------------------------------------------
# TLC
# ----------------------------------------------------------------------------
class TlcResult:
  def __init__(self, out, rc, wall, cmd):
    self.out, self.rc, self.wall, self.cmd = out, rc, wall, cmd
    m = re.search(r'(\d+) states generated, (\d+) distinct states found', out)
    self.generated = int(m.group(1)) if m else 0
    self.distinct = int(m.group(2)) if m else 0
    m = re.search(r'depth of the complete state graph search is (\d+)', out)
    self.depth = int(m.group(1)) if m else 0
    self.completed = ('Model checking completed. No error has been found.' in out)
    self.sim_ok = False
    self.invariant_violated = re.findall(r'Error: Invariant (\S+) is violated', out)
    self.action_violated = re.findall(r'Error: Action property (\S+) is violated', out)
    self.errors = [l for l in out.splitlines() if l.startswith('Error:')]

  def verdicts(self):
    """lines printed by PrintT(<<"VERDICT", tid, fails, exercised>>)"""
    res = {}
    for m in re.finditer(r'<<\s*"VERDICT",\s*(-?\d+),\s*(\{.*?\}),\s*(\{.*?\})\s*>>', self.out, re.S):
      res[int(m.group(1))] = (set(re.findall(r'"([^"]*)"', m.group(2))),
                              set(re.findall(r'"([^"]*)"', m.group(3))))
    return res

  def printed(self, tag):
    """all PrintT(<<"tag", ...>>) payloads as raw strings"""
    return [m.group(1) for m in re.finditer(r'^<<"%s", (.*)>>\s*$' % re.escape(tag), self.out, re.M)]

  def coverage_actions(self):
    cov = {}
    for m in re.finditer(r'^<(\w+) line \d+, col \d+ to line \d+, col \d+ of module (\w+)>: (\d+):(\d+)', self.out, re.M):
      cov[m.group(1)] = (int(m.group(3)), int(m.group(4)))
    return cov


def run_tlc(module, cfg, workdir, env=None, workers=1, timeout=1800, xmx='3g',
            simulate=None, extra=(), coverage=False, deque=False, tag=None):
  """Run TLC on spec/<module>.tla with config file `cfg` (absolute or relative to spec/)."""
  os.makedirs(workdir, exist_ok=True)
  tag = tag or module
  meta = os.path.join(workdir, 'meta_' + tag)
  shutil.rmtree(meta, ignore_errors=True)
  if not os.path.isabs(cfg):
    cfg = os.path.join(SPEC, cfg)
  cmd = ['java', '-XX:+UseParallelGC', '-XX:ParallelGCThreads=%d' % max(2, min(8, workers)), '-XX:CICompilerCount=2',
         '-Xmx' + xmx, '-Xss64m']
  if deque:
    cmd.append('-Dtlc2.tool.queue.IStateQueue=StateDeque')
  cmd += ['-cp', SPEC + ':' + TLA_CP, 'tlc2.TLC', '-workers', str(workers), '-metadir', meta,
          '-noGenerateSpecTE', '-config', cfg]
  if coverage:
    cmd += ['-coverage', '1']
  if simulate:
    cmd += ['-simulate', simulate]
  cmd += list(extra)
  cmd.append(os.path.join(SPEC, module + '.tla'))
  e = dict(os.environ)
  e.pop('JAVA_TOOL_OPTIONS', None)
  if env:
    e.update({k: str(v) for k, v in env.items()})
  t0 = time.time()
  try:
    p = subprocess.run(cmd, cwd=SPEC, env=e, stdout=subprocess.PIPE, stderr=subprocess.STDOUT,
                       text=True, timeout=timeout)
    out, rc = p.stdout, p.returncode
  except subprocess.TimeoutExpired as ex:
    out = (ex.stdout.decode() if isinstance(ex.stdout, bytes) else (ex.stdout or '')) + '\nTIMEOUT'
    rc = 124
  res = TlcResult(out, rc, time.time() - t0, ' '.join(cmd[:3] + ['...'] + cmd[-6:]))
  with open(os.path.join(workdir, tag + '.tlc.log'), 'w') as f:
    f.write(out)
  shutil.rmtree(meta, ignore_errors=True)
  return res


def run_tlc_many(jobs, parallel=NCPU):
  """jobs: list of dict(kwargs for run_tlc); run concurrently; returns results in order."""
  from concurrent.futures import ThreadPoolExecutor
  with ThreadPoolExecutor(max_workers=max(1, parallel)) as ex:
    futs = [ex.submit(run_tlc, **j) for j in jobs]
    return [f.result() for f in futs]


def require_model_ok(res, what):
  if not res.completed:
    raise MachineryError('%s: TLC did not complete cleanly (rc=%s)\n%s' % (what, res.rc, res.out[-3000:]))


# ----------------------------------------------------------------------------
# trace batches
# ----------------------------------------------------------------------------
def write_json(path, obj):
  with open(path, 'w') as f:
    try:
      json.dump(obj, f, separators=(',', ':'), allow_nan=False)
    except ValueError as e:
      # (a raw NaN / infinity in an event is a slip of the generator - numbers travel as dyadics - and TLC's JSON
      #  reader would only report a malformed file)
      raise MachineryError('a trace holds a raw non-finite float (%s): %s' % (e, path))


def shard(traces, k):
  k = max(1, min(k, len(traces)))
  return [traces[i::k] for i in range(k)]


def validate_traces(module, cfg, traces, workdir, meta=None, shards=NCPU, timeout=3600, xmx='2g',
                    tag=None):
  """Validate `traces` (list of dicts with unique integer 'tid') against trace spec `module`.
  Returns (verdicts: tid -> (fails, exercised), stats)."""
  tag = tag or module
  os.makedirs(workdir, exist_ok=True)
  if not traces:
    return {}, dict(generated=0, distinct=0, wall=0.0, cmds=[])
  tids = [t['tid'] for t in traces]
  assert len(set(tids)) == len(tids), 'duplicate tid'
  jobs = []
  for i, sh in enumerate(shard(traces, shards)):
    path = os.path.join(workdir, '%s.batch%d.json' % (tag, i))
    write_json(path, {'meta': meta or {}, 'traces': sh})
    jobs.append(dict(module=module, cfg=cfg, workdir=workdir, env={'TRACE_FILE': path}, workers=1,
                     timeout=timeout, xmx=xmx, tag='%s_%d' % (tag, i)))
  results = run_tlc_many(jobs)
  verdicts = {}
  gen = dist = 0
  for r in results:
    if not r.completed:
      raise MachineryError('%s: TLC failed on a trace batch (rc=%s)\n%s' % (module, r.rc, r.out[-4000:]))
    verdicts.update(r.verdicts())
    gen += r.generated
    dist += r.distinct
  missing = [t for t in tids if t not in verdicts]
  if missing:
    raise MachineryError('%s: no VERDICT line for traces %s' % (module, missing[:10]))
  stats = dict(generated=gen, distinct=dist, wall=max(r.wall for r in results),
               cmds=[results[0].cmd])
  return verdicts, stats


# ----------------------------------------------------------------------------
# known findings
# ----------------------------------------------------------------------------
def load_known():
  p = os.path.join(VERIF, 'known_findings.json')
  if not os.path.exists(p):
    return []
  return json.load(open(p))['findings']


def match_known(pid, clause, signature, known):
  for k in known:
    if k.get('status') != 'open' or k.get('property') != pid:
      continue
    if k.get('clause') != clause:
      continue
    sig = k.get('signature', {})
    if all(signature.get(a) == b for a, b in sig.items()):
      return k
  return None


# ----------------------------------------------------------------------------
# the per-run context
# ----------------------------------------------------------------------------
class Ctx:
  def __init__(self, pid, tier, seed):
    self.pid, self.tier, self.seed = pid, tier, seed
    self.quick = (tier == 'quick')
    self.work = os.path.join(OUT, '.work', pid)
    shutil.rmtree(self.work, ignore_errors=True)
    os.makedirs(self.work, exist_ok=True)
    self.t0 = time.time()
    self.states = 0
    self.transitions = 0
    self.traces_validated = 0
    self.evaluations = 0
    self.distinct = set()
    self.samples = []
    self.violations = []        # dicts(clause, signature, trace, recipe)
    self.exercised = {}
    self.extra = {}
    self.cmds = []
    self.models = []
    self.known = load_known()
    self.rule = ''
    self.assumptions = []
    self.trusted = ['TLC 1.8.0 / SANY', 'CommunityModules Json/IOUtils', 'harness/num.py float->Dy exporter',
                    'spec/Dy.tla exact arithmetic (self-checked by MC_Dy)']
    self.exhaustive = False

  # -- model checking of the specification itself
  def model(self, module, cfg, workers=NCPU, timeout=3600, env=None, coverage=False, simulate=None,
            xmx='6g', must_complete=True, tag=None):
    extra = ['-seed', str(self.seed)] if simulate else []
    r = run_tlc(module, cfg, self.work, env=env, workers=workers, timeout=timeout, coverage=coverage,
                simulate=simulate, xmx=xmx, tag=tag, extra=extra)
    if must_complete and not simulate:
      require_model_ok(r, module)
    self.states += r.distinct
    self.transitions += r.generated
    self.cmds.append(r.cmd)
    self.models.append(dict(module=module, cfg=os.path.basename(cfg), distinct=r.distinct,
                            generated=r.generated, depth=r.depth, wall_s=round(r.wall, 1)))
    return r

  # -- trace validation
  def validate(self, module, cfg, traces, shards=NCPU, timeout=3600, tag=None, count=True):
    verdicts, stats = validate_traces(module, cfg, traces, self.work, shards=shards, timeout=timeout,
                                      tag=tag)
    self.states += stats['distinct']
    self.transitions += stats['generated']
    if count:
      self.traces_validated += len(traces)
    self.cmds += stats['cmds']
    for tid, (fails, ex) in verdicts.items():
      for c in ex:
        self.exercised[c] = self.exercised.get(c, 0) + 1
    return verdicts

  def add_violation(self, clause, signature, trace, recipe=None, what=''):
    self.violations.append(dict(clause=clause, signature=signature, trace=trace, recipe=recipe or {},
                                what=what))

  def sample(self, s, limit=4):
    if len(self.samples) < limit:
      self.samples.append(s)

  def note_case(self, key, nontrivial=True):
    self.evaluations += 1
    if nontrivial:
      self.distinct.add(key if isinstance(key, (str, int, tuple)) else json.dumps(key, sort_keys=True))

  # -- finishing
  def finish(self, level='model_checking'):
    pid = self.pid
    os.makedirs(os.path.join(OUT, 'evidence'), exist_ok=True)
    new = []
    known_hits = {}
    for v in self.violations:
      k = match_known(pid, v['clause'], v['signature'], self.known)
      if k is not None:
        known_hits.setdefault(k['id'], [k, 0])[1] += 1
      else:
        new.append(v)
    for kid, (k, n) in sorted(known_hits.items()):
      print('KNOWN-FINDING: property=%s %s [%s; clause=%s; %d occurrence(s) this run]'
            % (pid, k['what'], kid, k['clause'], n))
    replay_paths = []
    seen_sig = set()
    for v in new:
      key = json.dumps([v['clause'], v['signature']], sort_keys=True)
      if key in seen_sig and len(replay_paths) >= 5:
        continue
      seen_sig.add(key)
      if len(replay_paths) >= 25:
        continue
      body = dict(property=pid, clause=v['clause'], signature=v['signature'], what=v['what'],
                  recipe=v['recipe'], trace=v['trace'], tier=self.tier, seed=self.seed)
      blob = json.dumps(body, sort_keys=True, default=str)
      d = os.path.join(OUT, 'replays', pid)
      os.makedirs(d, exist_ok=True)
      path = os.path.join(d, hashlib.sha1(blob.encode()).hexdigest()[:16] + '.json')
      with open(path, 'w') as f:
        f.write(blob)
      replay_paths.append(path)
      print('VIOLATION property=%s replay=%s' % (pid, path))
      print('  clause=%s signature=%s %s' % (v['clause'], json.dumps(v['signature'], sort_keys=True), v['what']))
    cov = dict(states=max(self.states, 0), transitions=max(self.transitions, 0),
               traces_validated_against_impl=self.traces_validated,
               samples=self.samples[:6] or ['(no sample recorded)'],
               evaluations=self.evaluations, distinct_nontrivial=len(self.distinct),
               rule=self.rule, exhaustive=self.exhaustive,
               checker_cmd='; '.join(self.cmds[:4]), trusted_base=self.trusted,
               models=self.models, clause_exercised=dict(sorted(self.exercised.items())),
               unexercised_clauses=sorted(c for c, n in self.exercised.items() if n == 0),
               known_findings_hit=sorted(known_hits), new_violation_clauses=sorted({v['clause'] for v in new}))
    cov.update(self.extra)
    ev = dict(property_id=pid, tier=self.tier, seed=self.seed, level=level, coverage=cov,
              assumptions=self.assumptions, wall_s=round(time.time() - self.t0, 2),
              violations=len(new))
    with open(os.path.join(OUT, 'evidence', pid + '.json'), 'w') as f:
      json.dump(ev, f, indent=1, default=str)
    print('%s %s: states=%d transitions=%d traces=%d evaluations=%d distinct=%d known=%d new_violations=%d wall=%.1fs'
          % (pid, self.tier, self.states, self.transitions, self.traces_validated, self.evaluations,
             len(self.distinct), sum(n for _, n in known_hits.values()), len(new), time.time() - self.t0))
    if not os.environ.get('VERIF_KEEP_WORK'):
      shutil.rmtree(self.work, ignore_errors=True)
    return 1 if new else 0


def ensure_java():
  """compile the Dy accelerator (spec/java/Dy.java -> spec/Dy.class) and refresh DyRef.tla if stale"""
  src = os.path.join(SPEC, 'java', 'Dy.java')
  cls = os.path.join(SPEC, 'Dy.class')
  if not os.path.exists(cls) or os.path.getmtime(cls) < os.path.getmtime(src):
    r = subprocess.run(['javac', '-cp', TLA_CP, '-d', SPEC, src], capture_output=True, text=True)
    if r.returncode != 0:
      raise MachineryError('javac failed: ' + r.stderr)
  ref = os.path.join(SPEC, 'DyRef.tla')
  txt = open(os.path.join(SPEC, 'Dy.tla')).read().replace('MODULE Dy -', 'MODULE DyRef -', 1)
  if not os.path.exists(ref) or open(ref).read() != txt:
    with open(ref, 'w') as f:
      f.write(txt)


def assert_repo():
  """The code under test must be /repo's working tree."""
  sys.dont_write_bytecode = True
  import metric_learn
  f = os.path.realpath(metric_learn.__file__)
  if not f.startswith(os.path.realpath(REPO) + os.sep):
    raise MachineryError('metric_learn imported from %s, expected under %s' % (f, REPO))


# ----------------------------------------------------------------------------
# the standard recipe -> trace -> verdict pipeline
# ----------------------------------------------------------------------------
def _gen_one(args):
  modname, recipe = args
  import importlib
  import warnings
  mod = importlib.import_module(modname)
  with warnings.catch_warnings():
    warnings.simplefilter('ignore')
    try:
      return recipe, mod.gen_trace(recipe), None
    except Exception as e:   # a crash of the real code is an observation, recorded by gen_trace itself;
      import traceback        # anything reaching here is a harness problem
      return recipe, None, traceback.format_exc()


def generate(modname, recipes, procs=NCPU):
  """run mod.gen_trace(recipe) for every recipe in a fork pool; returns list of (recipe, trace)"""
  import multiprocessing as mp
  recipes = list(recipes)
  if not recipes:
    return []
  if procs <= 1 or len(recipes) < 4:
    out = [_gen_one((modname, r)) for r in recipes]
  else:
    with mp.get_context('fork').Pool(min(procs, len(recipes))) as pool:
      out = pool.map(_gen_one, [(modname, r) for r in recipes], chunksize=max(1, len(recipes) // (procs * 4)))
  res = []
  for recipe, trace, err in out:
    if err is not None:
      raise MachineryError('gen_trace failed for recipe %s\n%s' % (json.dumps(recipe, default=str)[:300], err))
    if trace is not None:
      res.append((recipe, trace))
  return res


def judge(ctx, module, cfg, pairs, signature_of, prefix=None, shards=NCPU, timeout=3600, tag=None):
  """pairs: list of (recipe, trace). Assign tids, validate with TLC, register violations whose clause
  id starts with `prefix` (default: the property id)."""
  prefix = prefix or (ctx.pid + '.')
  traces = []
  for i, (recipe, tr) in enumerate(pairs):
    tr = dict(tr)
    tr['tid'] = i + 1
    traces.append(tr)
  verdicts = ctx.validate(module, cfg, traces, shards=shards, timeout=timeout, tag=tag)
  nviol = 0
  import inspect
  nargs = len(inspect.signature(signature_of).parameters)
  for (recipe, _), tr in zip(pairs, traces):
    fails, ex = verdicts[tr['tid']]
    for cfull in sorted(fails):
      c, _, pos = cfull.partition('@')
      pos = int(pos) if pos else 0
      if c.startswith('G'):
        # clauses about behaviour beyond the listed properties: reported in the evidence, never a violation
        g = ctx.extra.setdefault('growth_clause_failures', {})
        g[c] = g.get(c, 0) + 1
      if c.startswith(prefix) or c.startswith('TRACE.'):
        sig = signature_of(recipe, tr, c, pos) if nargs >= 4 else signature_of(recipe, tr, c)
        ctx.add_violation(c, sig, tr, dict(recipe, failing_event=pos))
        nviol += 1
  return verdicts, nviol


def standard_replay(modname, pid, module, cfg, path, frozen, signature_of=None):
  """re-execute a stored recipe against the current tree (or, frozen, re-judge the stored trace)"""
  import importlib
  body = json.load(open(path))
  mod = importlib.import_module(modname)
  work = os.path.join(OUT, '.work', pid + '_replay')
  shutil.rmtree(work, ignore_errors=True)
  rcp = body.get('recipe', {})
  regen = None
  if rcp.get('suite_life') or rcp.get('suite'):
    # behaviours recorded from the repository's own tests: re-run those tests on the current tree
    import suite
    if rcp.get('suite_life'):
      module, cfg = suite.LIFE_SPEC
      regen = suite.regen_life
    else:
      if rcp.get('spec'):
        module, cfg = rcp['spec']
      regen = lambda r: suite.regen(r, tuple(r.get('kinds') or suite.ALL_KINDS))
  if frozen:
    tr = body['trace']
  elif regen is not None:
    try:
      tr, err = regen(rcp), None
    except Exception:
      import traceback
      tr, err = None, traceback.format_exc()
    if err:
      print('MACHINERY-FAILURE: cannot regenerate trace\n' + err)
      return 2
  else:
    _, tr, err = _gen_one((modname, body['recipe']))
    if err:
      print('MACHINERY-FAILURE: cannot regenerate trace\n' + err)
      return 2
  tr = dict(tr)
  tr['tid'] = 1
  if not tr.get('events'):
    print('replay of %s: the recorded behaviour does not occur on the current tree (no events regenerated)' % path)
    return 0
  verdicts, _ = validate_traces(module, cfg, [tr], work, shards=1)
  fails = sorted({c.partition('@')[0] for c in verdicts[1][0] if c.startswith(pid + '.') or c.startswith('TRACE.')})
  shutil.rmtree(work, ignore_errors=True)
  if fails:
    print('VIOLATION property=%s replay=%s' % (pid, path))
    print('  failed clauses: %s (stored clause: %s)' % (fails, body.get('clause')))
    return 1
  print('replay of %s: no clause of %s fails on the current tree' % (path, pid))
  return 0


def selftest_binding(ctx, module, cfg, trace, corrupt, expect_prefix, name):
  """corrupt one logged field of an accepted trace and require that the spec rejects it"""
  import copy
  bad = copy.deepcopy(trace)
  corrupt(bad)
  bad['tid'] = 1
  good = copy.deepcopy(trace)
  good['tid'] = 2
  verdicts, _ = validate_traces(module, cfg, [bad, good], os.path.join(ctx.work, 'selftest'), shards=1,
                                tag='selftest_' + name)
  rejected = any(c.startswith(expect_prefix) for c in verdicts[1][0])
  accepted = not any(c.startswith(ctx.pid + '.') for c in verdicts[2][0])
  ctx.extra.setdefault('binding_selftest', []).append(
      dict(name=name, corrupted_trace_rejected=rejected, rejected_clauses=sorted(verdicts[1][0])[:6],
           original_accepted=accepted))
  if not rejected:
    raise MachineryError('binding self-test %s: corrupted trace was NOT rejected' % name)
  return rejected


# ----------------------------------------------------------------------------
# behaviours of the repository's own test suite (pytest plugin harness/verif_trace_plugin.py)
# ----------------------------------------------------------------------------
SUITE_FILES = ['test/test_mahalanobis_mixin.py', 'test/test_pairs_classifiers.py', 'test/test_fit_transform.py',
               'test/test_triplets_classifiers.py', 'test/test_quadruplets_classifiers.py']


def record_suite_calls(workdir, files=None, maxcalls=4000, timeout=1800):
  """run (part of) the repository's test suite with the tracing plugin; returns the recorded call events (raw floats)"""
  out = os.path.join(workdir, 'suite_calls')
  for f in os.listdir(workdir) if os.path.isdir(workdir) else []:
    if f.startswith('suite_calls.'):
      os.unlink(os.path.join(workdir, f))
  os.makedirs(workdir, exist_ok=True)
  env = dict(os.environ, VERIF_TRACE_OUT=out, VERIF_TRACE_MAXCALLS=str(maxcalls),
             PYTHONPATH=REPO + ':' + os.path.join(VERIF, 'harness'), OMP_NUM_THREADS='1')
  cmd = ['/venv/bin/python', '-m', 'pytest', '-q', '-p', 'no:cacheprovider', '-p', 'verif_trace_plugin', '-n', str(min(8, NCPU)),
         '--timeout=600'] + (files or SUITE_FILES)
  p = subprocess.run(cmd, cwd=REPO, env=env, capture_output=True, text=True, timeout=timeout)
  events = []
  for f in sorted(os.listdir(workdir)):
    if f.startswith('suite_calls.'):
      for line in open(os.path.join(workdir, f)):
        try:
          events.append(json.loads(line))
        except ValueError:
          pass
  summary = (p.stdout.strip().splitlines() or [''])[-1]
  return events, summary


# ----------------------------------------------------------------------------
# Apalache (symbolic): inductive invariants of small machines over unbounded integers
# ----------------------------------------------------------------------------
def run_apalache(ctx, module, init, inv, length, timeout=300):
  """apalache-mc check --init=<init> --inv=<inv> --length=<length> on spec/<module>.tla; MachineryError unless NoError"""
  out = os.path.join(ctx.work, 'apalache_%s_%s' % (module, inv))
  shutil.rmtree(out, ignore_errors=True)
  cmd = ['apalache-mc', 'check', '--init=' + init, '--inv=' + inv, '--length=%d' % length, '--out-dir=' + out,
         os.path.join(SPEC, module + '.tla')]
  t0 = time.time()
  try:
    p = subprocess.run(cmd, capture_output=True, text=True, timeout=timeout, cwd=SPEC)
  except (OSError, subprocess.TimeoutExpired) as e:
    raise MachineryError('apalache-mc could not be run on %s: %s' % (module, e))
  ok = 'The outcome is: NoError' in p.stdout
  shutil.rmtree(out, ignore_errors=True)
  for junk in ('detailed.log', 'log0.smt', 'x'):
    pass
  if not ok:
    raise MachineryError('Apalache: %s does not establish %s from %s (length %d)\n%s' % (module, inv, init, length, p.stdout[-1500:]))
  ctx.cmds.append(' '.join(cmd))
  ctx.models.append(dict(module=module, tool='apalache', init=init, inv=inv, length=length, outcome='NoError',
                         wall_s=round(time.time() - t0, 1)))
  return True
