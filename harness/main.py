"""bin/check entry point."""
import importlib
import os
import sys
import traceback
import warnings

import core


def main(argv):
  if len(argv) < 2:
    print('usage: check <ID> quick|thorough | check <ID> --replay <path> [--frozen]')
    return 2
  pid = argv[0]
  seed = int(os.environ.get('VERIF_SEED', '20261004'))
  try:
    core.assert_repo()
    core.ensure_java()
    mod = importlib.import_module('checks.' + pid.lower())
    if argv[1] == '--replay':
      return mod.replay(argv[2], frozen=('--frozen' in argv))
    tier = argv[1]
    if tier not in ('quick', 'thorough'):
      print('unknown tier', tier)
      return 2
    ctx = core.Ctx(pid, tier, seed)
    with warnings.catch_warnings():
      warnings.simplefilter('ignore')
      mod.run(ctx)
    return ctx.finish()
  except core.MachineryError as e:
    print('MACHINERY-FAILURE %s: %s' % (pid, e))
    return 2
  except Exception:
    traceback.print_exc()
    print('MACHINERY-FAILURE %s: unexpected exception in the harness' % pid)
    return 2


if __name__ == '__main__':
  sys.exit(main(sys.argv[1:]))
