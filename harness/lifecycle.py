"""Execution of life-cycle histories (behaviours of spec/MetricLearn.tla) on the real estimators.

A `World` fixes, for one estimator class and seed, the concrete meaning of the abstract tokens of the
specification: parameter settings p, training sets d, thresholds t, validation sets v, strategies s and
queries q.  `reference(world)` computes the VALUE of every abstract term by executions on FRESH objects
(the definition of what a term denotes); `run(world, ops)` executes a history on long-lived objects and
records, after every call, the projection of every live object plus digests of all caller-owned arrays.
Nothing here compares anything: TLC (TR_Lifecycle) does.
"""
import contextlib
import copy
import hashlib
import io
import pickle
import warnings
import numpy as np
from sklearn.base import clone
from sklearn.exceptions import NotFittedError

import gen

PAIR_CLASSIFIERS = ('ITML', 'MMC', 'SDML')
STRATEGIES = [('accuracy', {}), ('f_beta', {'beta': 0.5}), ('max_tpr', {'min_rate': 0.5}), ('max_tnr', {'min_rate': 0.25})]


def digest(x):
  h = hashlib.sha1()

  def feed(v):
    if isinstance(v, np.ndarray):
      a = np.ascontiguousarray(v)
      h.update(str((a.dtype.str, a.shape)).encode())
      h.update(a.tobytes())
    elif isinstance(v, (list, tuple)):
      h.update(b'[')
      for z in v:
        feed(z)
      h.update(b']')
    elif isinstance(v, dict):
      for k in sorted(v):
        h.update(str(k).encode())
        feed(v[k])
    elif callable(v) and not isinstance(v, type):
      h.update(('callable:' + getattr(v, '__name__', 'f')).encode())
    else:
      h.update(repr(v).encode())
  feed(x)
  return h.hexdigest()[:16]


class World:
  def __init__(self, name, seed, same_dims=False, nparams=2, ndata=2, with_arrays=None, indexed=False, wide=False):
    self.name, self.seed = name, seed
    rng = np.random.default_rng(seed)
    self.kind = gen.KIND[name]
    self.has_thr = name in PAIR_CLASSIFIERS
    self.dims = [3] * ndata if same_dims else [2 + i for i in range(ndata)]
    self.indexed = indexed
    self.wide = wide
    same_dims = same_dims or indexed
    self.dims = [3] * ndata if same_dims else self.dims
    self.same_dims = same_dims
    with_arrays = same_dims if with_arrays is None else with_arrays
    self.train = []
    if wide:
      # many more features than samples (60 x 600): scikit-learn's PCA then picks its RANDOMIZED solver, so a PCA
      # initialisation is only reproducible if the estimator's random_state reaches it
      self.dims = [600] * ndata
    for i, d in enumerate(self.dims):
      if wide:
        Xw = gen.grid(rng.normal(size=(60, d)) + np.repeat(np.eye(2, d) * 3.0, 30, axis=0), bits=6)
        yw = np.repeat([0, 1], 30)
        tr = gen.training(rng, name, X=Xw, y=yw)
      else:
        tr = gen.training(rng, name, d=d, n_classes=2 + (i % 2))
      if name == 'RCA' and i % 2 == 1:
        tr['chunks'] = gen.chunks_from(rng, tr['y'], with_unknown=False)     # every point belongs to a chunk
        tr['fit_args'] = (tr['X'], tr['chunks'])
      kw = {}
      if name == 'ITML':
        kw['bounds'] = np.array([0.0, 2.0 + i])        # a zero lower bound (the library replaces zeros)
      if name == 'LSML':
        kw['weights'] = np.arange(1.0, len(tr['idx']) + 1.0)
      tr['fit_kwargs'] = kw
      self.train.append(tr)
    self.P = []
    for j in range(nparams):
      o = dict(gen.FAST[name])
      if 'random_state' in gen.CLS[name]().get_params():
        o['random_state'] = 7 + j
      if j == 1:
        # a second, different hyper-parameter setting
        if name in ('LMNN',):
          o['n_neighbors'] = 1
        if name in ('NCA', 'MLKR', 'LMNN'):
          o['init'] = 'identity'
        if name == 'LFDA':
          o['embedding_type'] = 'plain'
          # a neighbourhood size that reaches the feature count of the NARROWEST data set of the world (fit documents a
          # cap at n_features - 1 there, for that fit) and is an ordinary value for the wider ones
          o['k'] = int(min(self.dims))
        if name in ('ITML', 'ITML_Supervised'):
          o['gamma'] = 2.0
        if name in ('LSML', 'LSML_Supervised', 'ITML', 'ITML_Supervised'):
          o['prior'] = 'covariance'
        if name in ('MMC', 'MMC_Supervised'):
          o['init'] = 'covariance'
        if name in ('SDML', 'SDML_Supervised'):
          o['sparsity_param'] = 0.1
        if name in ('SCML', 'SCML_Supervised'):
          o['beta'] = 1e-3
        if name in ('RCA_Supervised',):
          o['chunk_size'] = 2
          o['n_chunks'] = 4
        if name in ('RCA', 'LFDA', 'RCA_Supervised', 'LMNN', 'NCA', 'MLKR'):
          o['n_components'] = 1      # a reduced transformation (valid for every data set of the world)
      if with_arrays and j == 0:
        d = self.dims[0]
        if name in ('LMNN', 'NCA', 'MLKR'):
          o['init'] = gen.grid(rng.normal(size=(d, d)))
        if name in ('ITML', 'ITML_Supervised', 'LSML', 'LSML_Supervised', 'SDML', 'SDML_Supervised'):
          A = rng.normal(size=(d, d))
          o['prior'] = gen.grid(A.T.dot(A) + np.eye(d))
        if name in ('MMC', 'MMC_Supervised'):
          A = rng.normal(size=(d, d))
          o['init'] = gen.grid(A.T.dot(A) + np.eye(d))
        if name in ('SCML', 'SCML_Supervised'):
          Bm = rng.normal(size=(4 * d, d))
          o['basis'] = Bm / np.linalg.norm(Bm, axis=1, keepdims=True)
          o['n_basis'] = None
        if name == 'LSML_Supervised':
          o['weights'] = np.arange(1.0, o['n_constraints'] + 1.0)
      if with_arrays and j == 1:
        o['preprocessor'] = np.vstack([t['X'] for t in self.train])   # array preprocessor (unused by formed data)
      if name in ('SDML', 'SDML_Supervised'):
        o['balance_param'] = 2.0 ** -17
      if name == 'RCA_Supervised':
        o['n_chunks'] = 4
      self.P.append(o)
    if wide:
      for o in self.P:
        if name in ('LMNN', 'NCA', 'MLKR'):
          o['init'] = 'pca'
          o['n_components'] = 2
          o['max_iter'] = 3
    # a third setting that differs from the first only in `verbose` (printing must not change what is learned);
    # estimators without that parameter get a plain copy
    p3 = dict(self.P[0])
    if 'verbose' in gen.CLS[name]().get_params():
      p3['verbose'] = True
    self.P.append(p3)
    self.canon = [1, 2, 1]
    self.has_fit_transform = hasattr(gen.CLS[name], 'fit_transform')
    self.T = [0.75, 2.5]
    # validation sets and queries per data dimension
    self.V, self.Q = [], []
    for i, d in enumerate(self.dims):
      tr = self.train[i]
      X, y = tr['X'], tr['y']
      vs = []
      for v in range(2):
        idx, lab = gen.pairs_from(rng, X, y, 8 + 2 * v)
        vs.append((X[idx], lab, idx))
      self.V.append(vs)
      Xq = X[:5].copy()
      pqi = np.array([[0, 1], [2, 2], [3, 4], [1, 0]])
      Pq = X[pqi]
      q = {'transform': ('transform', (Xq,)), 'pair_distance': ('pair_distance', (Pq,)),
           'pair_score': ('pair_score', (Pq,)), 'get_mahalanobis_matrix': ('get_mahalanobis_matrix', ()),
           'components_': ('attr', ('components_',))}
      qidx = {'transform': (np.arange(5),), 'pair_distance': (pqi,), 'pair_score': (pqi,)}
      if self.kind in ('pairs', 'triplets', 'quadruplets'):
        ts = gen.TUPLE_SIZE[self.kind]
        ridx = rng.integers(len(X), size=(6, ts))
        tq = X[ridx]
        q['predict'] = ('predict', (tq,))
        q['decision_function'] = ('decision_function', (tq,))
        qidx['predict'] = (ridx,)
        qidx['decision_function'] = (ridx,)
        if self.kind == 'pairs':
          q['score'] = ('score', (tq, np.array([1, -1, 1, -1, 1, -1])))
          qidx['score'] = (ridx, np.array([1, -1, 1, -1, 1, -1]))
        else:
          q['score'] = ('score', (tq,))
          qidx['score'] = (ridx,)
      self.Q.append(q)
      self.Qidx = getattr(self, 'Qidx', []) + [qidx]
    self.qnames = sorted(self.Q[0].keys())
    self.nt, self.nv, self.ns = len(self.T), 2, 2
    if indexed:
      # every data-taking call gets INDICES; each parameter setting carries its own array preprocessor (different
      # points under the same indices), so a stale preprocessor_ shows up as a wrong model / output
      offs = np.cumsum([0] + [len(t['X']) for t in self.train])
      store0 = np.vstack([t['X'] for t in self.train])
      stores = [store0, gen.grid(store0 * 1.5 + rng.normal(size=store0.shape) * 0.25)]
      for j, pj in enumerate(self.P):
        pj['preprocessor'] = stores[j % 2]
      for i, t in enumerate(self.train):
        a = list(t['fit_args'])
        a[0] = (t['idx'] + offs[i]) if t['idx'] is not None else np.arange(offs[i], offs[i + 1])
        t['fit_args'] = tuple(a)
        self.V[i] = [(v[2] + offs[i], v[1], v[2]) for v in self.V[i]]
        for qn, args in self.Qidx[i].items():
          meth = self.Q[i][qn][0]
          self.Q[i][qn] = (meth, tuple([args[0] + offs[i]] + list(args[1:])))

    if name.startswith('SDML'):
      # SDML may legitimately fail (RuntimeError, C13) when its solver finds the problem too ill-conditioned: such
      # a world says nothing about the life-cycle, so the (deterministic) construction is redone with another seed
      import copy as _copy
      probe = _copy.deepcopy(self)          # (the trial fits never see the arrays of the world itself)
      for j in range(len(self.P)):
        for i in range(len(self.train)):
          try:
            probe.fit(probe.new(j + 1), i + 1)
          except RuntimeError:
            if seed < 10 ** 12:
              self.__init__(name, seed + 1000003, same_dims=same_dims and not indexed, nparams=nparams, ndata=ndata,
                            with_arrays=with_arrays, indexed=indexed, wide=wide)
              return
          except ValueError:
            pass

  # ---- digests of everything the caller owns
  def arrays_digest(self):
    items = []
    for tr in self.train:
      items.append([a for a in tr['fit_args']])
      items.append(tr['fit_kwargs'])
      items.append(tr['X'])
    for vs in self.V:
      items.append([list(v[:2]) for v in vs])
    for q in self.Q:
      items.append({k: list(v[1]) for k, v in q.items() if v[0] != 'attr' and v[1]})
    for p in self.P:
      items.append({k: v for k, v in p.items() if isinstance(v, np.ndarray)})
    return digest(items)

  def params_digest(self, est):
    return digest(est.get_params())

  def new(self, p):
    return gen.CLS[self.name](**self.P[p - 1])

  def fit(self, est, d):
    tr = self.train[d - 1]
    with warnings.catch_warnings(), contextlib.redirect_stdout(io.StringIO()):
      warnings.simplefilter('ignore')
      est.fit(*tr['fit_args'], **tr['fit_kwargs'])

  def fit_transform(self, est, d):
    tr = self.train[d - 1]
    with warnings.catch_warnings(), contextlib.redirect_stdout(io.StringIO()):
      warnings.simplefilter('ignore')
      return est.fit_transform(*tr['fit_args'], **tr['fit_kwargs'])

  def has_crossval(self):
    return self.kind in ('pairs', 'sup') and not self.wide

  def cross_validate(self, est, d):
    """scikit-learn model selection on the UNFITTED-or-fitted estimator object (it is cloned per fold)"""
    from sklearn.model_selection import cross_val_score, KFold
    from sklearn.pipeline import make_pipeline
    from sklearn.neighbors import KNeighborsClassifier
    tr = self.train[d - 1]
    a = tr['fit_args']
    cv = KFold(2, shuffle=True, random_state=0)
    with warnings.catch_warnings(), contextlib.redirect_stdout(io.StringIO()):
      warnings.simplefilter('ignore')
      if self.kind == 'pairs':
        return cross_val_score(est, a[0], a[1], cv=cv, error_score=-1.0)
      return cross_val_score(make_pipeline(est, KNeighborsClassifier(n_neighbors=1)), a[0], a[1], cv=cv, error_score=-1.0)

  def grid_search(self, est, d):
    """GridSearchCV over the world's parameter settings (one single-valued grid per setting); mean validation scores"""
    from sklearn.model_selection import GridSearchCV, KFold
    from sklearn.pipeline import Pipeline
    from sklearn.neighbors import KNeighborsClassifier
    tr = self.train[d - 1]
    a = tr['fit_args']
    cv = KFold(2, shuffle=True, random_state=0)
    pre = '' if self.kind == 'pairs' else 'ml__'
    # every candidate is FULLY specified (the parameters a setting does not mention are the constructor defaults), so the
    # scores cannot depend on the parameters the estimator object handed in happens to have
    defaults = dict(gen.CLS[self.name]().get_params())
    grid = [{pre + k: [v] for k, v in dict(defaults, **pj).items()} for pj in self.P]
    model = est if self.kind == 'pairs' else Pipeline([('ml', est), ('knn', KNeighborsClassifier(n_neighbors=1))])
    with warnings.catch_warnings(), contextlib.redirect_stdout(io.StringIO()):
      warnings.simplefilter('ignore')
      gs = GridSearchCV(model, grid, cv=cv, error_score=-1.0, refit=False).fit(a[0], a[1])
    return np.round(np.asarray(gs.cv_results_['mean_test_score'], dtype=float), 10)

  def grid_reference(self, d):
    """the same scores from separate cross-validations of estimators CONSTRUCTED with each setting"""
    out = []
    for p in range(1, len(self.P) + 1):
      try:
        out.append(float(np.mean(self.cross_validate(self.new(p), d))))
      except Exception:
        out.append(-1.0)
    return np.round(np.asarray(out, dtype=float), 10)

  def dim_index_of(self, est):
    """index (0-based) of a data set with the estimator's current dimensionality"""
    k = est.components_.shape[1]
    return self.dims.index(k)

  def calibrate(self, est, v, s):
    di = self.dim_index_of(est)
    pairs, lab = self.V[di][v - 1][:2]
    st, kw = STRATEGIES[s - 1]
    est.calibrate_threshold(pairs, lab, strategy=st, **kw)

  def query(self, est, qi):
    qn = self.qnames[qi - 1]
    if not hasattr(est, 'components_'):
      di = 0
    else:
      di = self.dim_index_of(est)
    meth, args = self.Q[di][qn]
    with warnings.catch_warnings():
      warnings.simplefilter('ignore')
      if meth == 'attr':
        from sklearn.utils.validation import check_is_fitted
        check_is_fitted(est, 'components_')
        return np.array(getattr(est, args[0]))
      return getattr(est, meth)(*args)

  def probe_metric(self, fn, d_index):
    X = self.train[d_index]['X']
    return [fn(X[0], X[1]), fn(X[2], X[3], squared=True), fn(X[4], X[4])]

  def project(self, est):
    return [self.params_digest(est),
            digest(np.asarray(est.components_)) if hasattr(est, 'components_') else 'none',
            int(getattr(est, 'n_features_in_', 0)),
            digest(float(est.threshold_)) if 'threshold_' in vars(est) else 'none']


def grid_term(w, d):
  """value of the GridSearch term: the per-setting mean scores; scikit-learn raises when EVERY fit of the search failed"""
  r = w.grid_reference(d)
  return 'raised:ValueError' if np.all(r == -1.0) else digest(r)


def reference(w):
  """values of all abstract terms, from executions on fresh objects"""
  np_, nd = len(w.P), len(w.dims)
  ref = {'nt': w.nt, 'ns': w.ns, 'arrays': w.arrays_digest(),
         'params': [w.params_digest(w.new(p)) for p in range(1, np_ + 1)],
         'model': [], 'thrfit': [], 'thrset': [digest(float(t)) for t in w.T], 'thrcal': [], 'query': [],
         'metric': [], 'matrix': [], 'fit_transform': [], 'crossval': [],
         'gridsearch': [grid_term(w, d) if w.has_crossval() else 'none' for d in range(1, nd + 1)]}
  nq = len(w.qnames)
  nk = 1 + w.nt + w.nv * w.ns
  defaults = dict(gen.CLS[w.name]().get_params())

  def switch(e, pc):
    full = dict(defaults)
    full.update(w.P[pc - 1])
    e.set_params(**full)
  for p in range(1, np_ + 1):
    rm, rt, rc, rq, rme, rma, rft, rcv = [], [], [], [], [], [], [], []
    for d in range(1, nd + 1):
      def fresh():
        e = w.new(p)
        w.fit(e, d)
        return e
      none_q = [[['none'] * nq for _ in range(nk)] for _ in range(np_)]
      none_c = [[['none'] * w.ns for _ in range(w.nv)] for _ in range(np_)]
      if w.canon[p - 1] != p:
        # model terms only ever carry canonical settings (MetricLearn!Canon): no value needed
        rm.append('noncanonical'); rt.append('none'); rc.append(none_c); rq.append(none_q); rme.append('none'); rma.append('none'); rft.append('none'); rcv.append('none')
        continue
      try:
        e = fresh()
      except ValueError:
        # this parameter setting cannot be fitted on this data (dimension-specific array): no value
        rm.append('unfittable'); rt.append('none'); rc.append(none_c); rq.append(none_q); rme.append('none'); rma.append('none'); rft.append('none'); rcv.append('none')
        continue
      rm.append(digest(np.asarray(e.components_)))
      rt.append(digest(float(e.threshold_)) if w.has_thr else 'none')
      rme.append(digest(w.probe_metric(e.get_metric(), w.dims.index(w.dims[d - 1]))))   # probes depend on the dimension only
      rma.append(digest(e.get_mahalanobis_matrix()))
      if w.has_fit_transform:
        try:
          rft.append(digest(np.asarray(w.fit_transform(w.new(p), d))))
        except Exception as ex:
          rft.append('raised:' + type(ex).__name__)
      else:
        rft.append('none')
      if w.has_crossval():
        try:
          rcv.append(digest(np.asarray(w.cross_validate(w.new(p), d))))
        except Exception as ex:
          rcv.append('raised:' + type(ex).__name__)
      else:
        rcv.append('none')
      qs_all, cal_all = [], []
      for pc in range(1, np_ + 1):
        qs = [['none'] * nq for _ in range(nk)]
        cal = [['none'] * w.ns for _ in range(w.nv)]
        for k in range(nk):
          # which (threshold variant k, preprocessor-in-force pc) combinations are reachable: see MetricLearn.tla
          # which (threshold variant k, preprocessor-in-force pc) combinations are reachable: see MetricLearn.tla.
          # p is a CANONICAL setting; an object whose model term is <<p, d>> was fitted with some setting f, Canon(f) = p.
          same_model = (w.canon[pc - 1] == p)
          if not w.has_thr and (k > 0 or not same_model):
            continue
          if k == 0 and not same_model:
            continue
          try:
            if same_model:
              e2 = w.new(pc)
              w.fit(e2, d)
            else:
              e2 = fresh()
              switch(e2, pc)
            if 1 <= k <= w.nt:
              if not same_model:
                w.calibrate(e2, 1, 1)          # (re-prepares the inputs: the new preprocessor comes into force)
              e2.set_threshold(w.T[k - 1])
            elif k > w.nt:
              kk = k - 1 - w.nt
              w.calibrate(e2, kk // w.ns + 1, kk % w.ns + 1)
              cal[kk // w.ns][kk % w.ns] = digest(float(e2.threshold_))
            qs[k] = [digest(w.query(e2, qi)) for qi in range(1, nq + 1)]
          except Exception as ex:
            qs[k] = ['raised:' + type(ex).__name__] * nq
        qs_all.append(qs)
        cal_all.append(cal)
      rc.append(cal_all)
      rq.append(qs_all)
    ref['model'].append(rm); ref['thrfit'].append(rt); ref['thrcal'].append(rc); ref['query'].append(rq)
    ref['metric'].append(rme); ref['matrix'].append(rma); ref['fit_transform'].append(rft); ref['crossval'].append(rcv)
  return ref


def run(w, ops):
  """execute ops on real objects; ops are lists like ['New', p] / ['Fit', o, d] / ['Query', o, q] ..."""
  objs, handles, events = [], [], []

  def snapshot(ev):
    ev['post'] = [w.project(e) for e in objs]
    ev['arrays'] = w.arrays_digest()
    events.append(ev)
  for op in ops:
    kind = op[0]
    ev = {'ev': kind, 'exc': '', 'out': '', 'identical': True}
    _silence = contextlib.redirect_stdout(io.StringIO())
    _silence.__enter__()
    try:
      if kind == 'New':
        kwargs = w.P[op[1] - 1]
        e = gen.CLS[w.name](**kwargs)
        objs.append(e)
        ev['p'] = op[1]
        gp = e.get_params()
        ev['identical'] = all(gp[k] is v for k, v in kwargs.items())
      elif kind == 'SetParams':
        e = objs[op[1] - 1]
        kwargs = w.P[op[2] - 1]
        full = dict(gen.CLS[w.name]().get_params())
        full.update(kwargs)
        e.set_params(**full)
        ev['obj'], ev['p'] = op[1], op[2]
        gp = e.get_params()
        ev['identical'] = all(gp[k] is v for k, v in kwargs.items())
      elif kind == 'Clone':
        ev['obj'] = op[1]
        objs.append(clone(objs[op[1] - 1]))
      elif kind == 'Pickle':
        ev['obj'] = op[1]
        objs.append(pickle.loads(pickle.dumps(objs[op[1] - 1])))
      elif kind == 'Fit':
        ev['obj'], ev['data'] = op[1], op[2]
        w.fit(objs[op[1] - 1], op[2])
      elif kind == 'FitTransform':
        ev['obj'], ev['data'] = op[1], op[2]
        ev['out'] = digest(np.asarray(w.fit_transform(objs[op[1] - 1], op[2])))
      elif kind == 'CrossValidate':
        ev['obj'], ev['data'] = op[1], op[2]
        try:
          ev['out'] = digest(np.asarray(w.cross_validate(objs[op[1] - 1], op[2])))
        except Exception as ex:
          # (all folds may fail, e.g. too few points for the requested chunks: a value like any other, as in the reference)
          ev['out'] = 'raised:' + type(ex).__name__
      elif kind == 'GridSearch':
        ev['obj'], ev['data'] = op[1], op[2]
        try:
          ev['out'] = digest(w.grid_search(objs[op[1] - 1], op[2]))
        except Exception as ex:
          ev['out'] = 'raised:' + type(ex).__name__
      elif kind == 'SetThreshold':
        ev['obj'], ev['t'] = op[1], op[2]
        objs[op[1] - 1].set_threshold(w.T[op[2] - 1])
      elif kind == 'Calibrate':
        ev['obj'], ev['v'], ev['s'] = op[1], op[2], op[3]
        if not hasattr(objs[op[1] - 1], 'components_'):
          objs[op[1] - 1].calibrate_threshold(*w.V[0][0][:2])
        else:
          w.calibrate(objs[op[1] - 1], op[2], op[3])
      elif kind == 'Query':
        ev['obj'], ev['q'] = op[1], op[2]
        ev['qname'] = w.qnames[op[2] - 1]
        ev['out'] = digest(w.query(objs[op[1] - 1], op[2]))
      elif kind == 'GetMetric':
        ev['obj'] = op[1]
        e = objs[op[1] - 1]
        fn = e.get_metric()
        handles.append(('metric', fn, w.dim_index_of(e)))
      elif kind == 'GetMatrix':
        ev['obj'] = op[1]
        e = objs[op[1] - 1]
        handles.append(('matrix', e.get_mahalanobis_matrix(), w.dim_index_of(e)))
      elif kind == 'Mutate':
        ev['h'] = op[1]
        handles[op[1] - 1][1][...] = -7.5
      elif kind == 'CallHandle':
        ev['h'] = op[1]
        hk, hv, di = handles[op[1] - 1]
        ev['out'] = digest(w.probe_metric(hv, di)) if hk == 'metric' else digest(hv)
    except NotFittedError:
      ev['exc'] = 'NotFittedError'
    except Exception as e:
      ev['exc'] = type(e).__name__
      ev['exc_msg'] = str(e)[:160]
    finally:
      _silence.__exit__(None, None, None)
    snapshot(ev)
    if kind in ('Clone', 'Pickle') and ev['exc']:
      break          # the object the rest of the history talks about does not exist: the history ends with this event
  return events


def ops_from_last(states):
  """sequence of `last` values of a simulated behaviour of MetricLearn.tla -> ops"""
  ops = []
  for name, st in states[1:]:
    last = st['last']
    k = last[0]
    if k == 'NotFitted':
      k = last[2]
      o = last[1]
      rest = last[3:]
      ops.append([k, o] + list(rest))
    elif k == 'New':
      ops.append(['New', last[2]])
    elif k in ('Clone', 'Pickle', 'GetMetric', 'GetMatrix'):
      ops.append([k, last[1]])
    elif k in ('Fit', 'FitTransform', 'CrossValidate', 'GridSearch'):
      ops.append([k, last[1], last[2]])
    elif k in ('SetParams', 'SetThreshold'):
      ops.append([k, last[1], last[2]])
    elif k == 'Calibrate':
      ops.append([k, last[1], last[2], last[3]])
    elif k == 'Query':
      ops.append(['Query', last[1], last[2]])
    elif k in ('Mutate', 'CallHandle'):
      ops.append([k, last[1]])
  return ops
