"""C16 - threshold calibration picks an optimal cut-off for the chosen criterion.

Model: MC_Calibrate enumerates every tie-rich labelled multiset of validation distances x strategy x
beta^2 x min_rate and checks the definition (optimum exists, candidate set complete).  Every enumerated
state is realised on the real code (spec -> code): validation pairs (x, x + k*D) whose learned
distances realise the multiset exactly (0 < d(D) < d(2D) bit-exactly tied within a group), then
calibrate_threshold; random validation sets on arbitrary learned metrics and
fit(..., calibration_params=...) are added (code -> spec).  TLC decides optimality of the stored
threshold_ with Calibrate!OptimalThreshold in exact arithmetic; the invalid-parameter table is
replayed as well.
"""
import os
import re
import numpy as np

import core
import gen
import tlaval
from num import dy, dyv, dym

MOD = 'checks.c16'
SPEC = ('TR_MetricLearn', 'TR_MetricLearn.cfg')
PID = 'C16'


def cal_event(est, pairs, y, strategy, beta, min_rate, d_abs=None):
  kw = {}
  if strategy == 'f_beta':
    kw['beta'] = beta
  if strategy in ('max_tpr', 'max_tnr'):
    kw['min_rate'] = min_rate
  ev = {'ev': 'CalibrateCase', 'strategy': strategy, 'b2': dy(float(beta) * float(beta)),
        'min_rate': dy(float(min_rate)), 'y': [int(v) for v in y], 'exc': '', 'thr': dy(0.0)}
  ev['d'] = dyv(est.pair_distance(pairs))
  try:
    est.calibrate_threshold(pairs, y, strategy=strategy, **kw)
    ev['thr'] = dy(est.threshold_)
  except Exception as e:
    ev['exc'] = type(e).__name__
  if d_abs is not None:
    ev['abstract'] = d_abs
  return ev


def realise(rng, X, L, dist_levels):
  """a direction D with L D != 0 and base points: abstract distance k -> pair (x, x + k*D)"""
  d = X.shape[1]
  for _ in range(100):
    D = np.round(rng.normal(size=d) * 2) / 2.0
    if np.linalg.norm(L.dot(D)) > 1e-6:
      return D
  raise RuntimeError('no direction')


def gen_trace(recipe):
  if recipe.get('suite'):
    import suite
    return suite.regen(recipe, ('CallCalibrate',))
  rng = np.random.default_rng(recipe['seed'])
  name = recipe['est']
  est, tr, opts = gen.fitted(rng, name, d=recipe['d'])
  X = tr['X']
  events = [{'ev': 'Model', 'L': dym(est.components_), 'thr': dy(est.threshold_)}]
  if recipe['src'] == 'mc':
    D = realise(rng, X, est.components_, 3)
    for case in recipe['cases']:
      pairs = []
      for k in case['D']:
        x = X[int(rng.integers(len(X)))]
        p = (x, x + k * D)
        pairs.append(p if rng.random() < 0.5 else (p[1], p[0]))
      pairs = np.array(pairs)
      perm = rng.permutation(len(pairs))
      y = np.array(case['Y'])[perm]
      events.append(cal_event(est, pairs[perm], y, case['strategy'], np.sqrt(case['b2n'] / 4.0),
                              case['mrn'] / 4.0, d_abs=[case['D'][i] for i in perm]))
  elif recipe['src'] == 'random':
    for c in range(recipe['n']):
      n = int(rng.integers(4, 14))
      idx, lab = gen.pairs_from(rng, X, tr['y'], n)
      pairs = X[idx]
      # mix in exact ties / duplicates with conflicting labels
      if rng.random() < 0.6:
        k = int(rng.integers(len(pairs)))
        pairs = np.vstack([pairs, pairs[k:k + 1], pairs[k:k + 1][:, ::-1]])
        lab = np.concatenate([lab, [-lab[k], lab[k]]])
      if rng.random() < 0.3:
        pairs = np.vstack([pairs, np.array([[X[0], X[0]]])])
        lab = np.concatenate([lab, [int(rng.choice([-1, 1]))]])
      if rng.random() < 0.5:
        # NEAR ties: a pair a few 1e-7 (relative) longer than another one, with the opposite label - distinct distances,
        # which predict separates and an optimal threshold may have to
        k = int(rng.integers(len(pairs)))
        a, b = pairs[k]
        stretched = np.array([[a, a + (b - a) * (1.0 + 2.0 ** -21)]])
        if not np.array_equal(stretched[0, 1], b):
          pairs = np.vstack([pairs, stretched])
          lab = np.concatenate([lab, [-lab[k]]])
      lab = np.where(rng.random(len(lab)) < 0.25, -lab, lab)   # label noise
      if len(set(lab.tolist())) < 2:
        lab[0], lab[1] = 1, -1
      strategy = ['accuracy', 'f_beta', 'max_tpr', 'max_tnr'][int(rng.integers(4))]
      beta = float(rng.choice([0.0, 0.25, 0.5, 1.0, 2.0, 3.5]))
      # min_rate dyadic (so the float test 1 - fpr >= min_rate agrees with the exact one)
      min_rate = float(rng.choice([0.0, 0.125, 0.25, 0.5, 0.75, 0.875, 1.0]))
      if rng.random() < 0.2:
        # validation distances of ANY magnitude: the same layout stretched by 2^57 about each pair's first point (all learned
        # distances then exceed 2^53, where d + 1 == d), or shrunk by 2^-30
        f = float(rng.choice([2.0 ** 57, 2.0 ** -30]))
        pairs = np.stack([pairs[:, 0], pairs[:, 0] + (pairs[:, 1] - pairs[:, 0]) * f], axis=1)
      events.append(cal_event(est, pairs, lab, strategy, beta, min_rate))
  elif recipe['src'] == 'boundary':
    # rates that hit min_rate EXACTLY (as the fraction the user typed): n_neg (resp. n_pos) in {5, 10}, min_rate = j / 10
    D = realise(rng, X, est.components_, 3)
    for c in range(recipe['n']):
      strategy = ['max_tpr', 'max_tnr'][c % 2]
      n_lim = int(rng.choice([5, 10]))
      other = int(rng.integers(3, 9))
      big = bool(c % 3 == 2)
      if big:
        # LARGER constrained classes (20..60 pairs): k / n * n is not always k in floating point
        n_lim = int(rng.integers(20, 61))
        other = int(rng.integers(8, 25))
      # levels 1..n_lim: one constrained-class pair per level (so the constrained rate moves in steps of 1/n_lim),
      # pairs of the other class spread over the levels
      pairs, lab = [], []
      lim_label, oth_label = (-1, 1) if strategy == 'max_tpr' else (1, -1)
      for lev in range(1, n_lim + 1):
        x = X[int(rng.integers(len(X)))]
        pairs.append((x, x + lev * D)); lab.append(lim_label)
      for _ in range(other):
        x = X[int(rng.integers(len(X)))]
        lev = int(rng.integers(0, n_lim + 1))
        pairs.append((x, x + (lev + 0.5) * D)); lab.append(oth_label)
      j = int(rng.integers(1, 10))
      min_rate = j / 10.0
      if big:
        j = int(rng.integers(1, n_lim))
        # half of the time a rate next to a count k for which (k / n) * n is NOT k in double precision (22 of the 41 class
        # sizes 20..60 have one: 1/49*49 < 1, 15/22*22 < 15, ...): any count recovered from a rate by truncation is then off by one
        odd = [k for k in range(1, n_lim) if (k / float(n_lim)) * n_lim != k]
        if odd and rng.random() < 0.5:
          j = n_lim - int(odd[int(rng.integers(len(odd)))]) + 1
        min_rate = j / float(n_lim)
      perm = rng.permutation(len(pairs))
      events.append(cal_event(est, np.array(pairs)[perm], np.array(lab)[perm], strategy, 1.0, min_rate))
      events[-1]['boundary'] = [n_lim, j]
  elif recipe['src'] == 'fit_params':
    # fit(..., calibration_params=...) calibrates on the training pairs
    last_cp = None
    for c in range(recipe['n']):
      strategy = ['f_beta', 'f_beta', 'max_tpr', 'max_tpr', 'max_tnr', 'max_tnr', 'accuracy'][c % 7]
      beta = float(rng.choice([0.5, 1.0, 2.0]))
      min_rate = float(rng.choice([0.25, 0.5, 0.75]))
      cp = {'strategy': strategy}
      if strategy == 'f_beta':
        cp['beta'] = beta
      if strategy.startswith('max'):
        cp['min_rate'] = min_rate
      if c % 2 == 1:
        # the SAME dict object is handed to a second fit; what the user asked for is what they put in it
        # (the harness keeps its own record, the code gets the user's object)
        cp, intended = last_cp
        strategy = intended['strategy']; beta = intended.get('beta', beta); min_rate = intended.get('min_rate', min_rate)
      else:
        intended = dict(cp)
      last_cp = (cp, intended)
      est2 = gen.CLS[name](**opts)
      pairs, lab = tr['fit_args']
      if c % 2 == 1 and events and events[-1].get('cp_obj') is not None:
        pass
      ev = {'ev': 'CalibrateCase', 'strategy': strategy, 'b2': dy(beta * beta), 'min_rate': dy(min_rate),
            'y': [int(v) for v in lab], 'exc': '', 'thr': dy(0.0), 'via': 'fit'}
      try:
        gen.fit_quiet(est2, pairs, lab, calibration_params=cp)
        ev['d'] = dyv(est2.pair_distance(pairs))
        ev['thr'] = dy(est2.threshold_)
        events.append({'ev': 'Model', 'L': dym(est2.components_), 'thr': dy(est2.threshold_)})
        events.append(ev)
      except RuntimeError:
        pass
  elif recipe['src'] == 'invalid':
    pairs, lab = tr['fit_args']
    vals = {'none': None, 'nonnumber': 'x', 'below0': -0.5, 'above1': 1.5, 'nan': float('nan'), 'ok': 0.5}
    bvals = {'none': None, 'nonnumber': 'x', 'ok': 1.0}
    for strategy in ['accuracy', 'f_beta', 'max_tpr', 'max_tnr', 'bogus']:
      for mk, mv in vals.items():
        for bk, bv in bvals.items():
          for via in ('calibrate', 'fit'):
            ev = {'ev': 'CalibrateInvalid', 'strategy': strategy, 'min_rate_kind': mk, 'beta_kind': bk,
                  'via': via, 'exc': '', 'work_done': False}
            if via == 'calibrate':
              before = (est.threshold_, est.components_.copy())
              try:
                est.calibrate_threshold(pairs, lab, strategy=strategy, min_rate=mv, beta=bv)
              except Exception as e:
                ev['exc'] = type(e).__name__
                ev['work_done'] = not (est.threshold_ == before[0])
            else:
              fresh = gen.CLS[name](**opts)
              try:
                gen.fit_quiet(fresh, pairs, lab, calibration_params=dict(strategy=strategy, min_rate=mv, beta=bv))
              except Exception as e:
                ev['exc'] = type(e).__name__
                ev['work_done'] = hasattr(fresh, 'components_')
            events.append(ev)
  return {'est': name, 'src': recipe['src'], 'events': events}


def signature_of(recipe, tr, clause):
  sig = {'estimator': recipe['est']}
  for e in tr['events']:
    pass
  return {}


def load_cases(ctx, n, dmax):
  cfgp = os.path.join(ctx.work, 'MC_Calibrate.cfg')
  with open(cfgp, 'w') as f:
    f.write('CONSTANTS N = %d\n DMax = %d\nINIT Init\nNEXT Next\n' % (n, dmax))
    for i in ['OptimumExists', 'CandidatesComplete', 'RejectAllFeasibleForTpr', 'AcceptAllFeasibleForTnr',
              'AgreesWithRing', 'ParamTable']:
      f.write('INVARIANT %s\n' % i)
    f.write('CHECK_DEADLOCK FALSE\n')
  dump = os.path.join(ctx.work, 'cal')
  r = core.run_tlc('MC_Calibrate', cfgp, ctx.work, workers=core.NCPU, extra=['-dump', dump], xmx='6g')
  core.require_model_ok(r, 'MC_Calibrate')
  ctx.states += r.distinct
  ctx.transitions += r.generated
  ctx.cmds.append(r.cmd)
  ctx.models.append(dict(module='MC_Calibrate', N=n, DMax=dmax, distinct=r.distinct, generated=r.generated,
                         wall_s=round(r.wall, 1)))
  txt = open(dump + '.dump').read()
  cases = []
  for m in re.finditer(r'State \d+:\s*\n(.*?)(?=\n\s*\n|\Z)', txt, re.S):
    cases.append(tlaval.parse_state(m.group(1)))
  if len(cases) != r.distinct:
    raise core.MachineryError('parsed %d calibration cases, TLC reports %d' % (len(cases), r.distinct))
  return cases


def run(ctx):
  n = 5 if ctx.quick else 6
  cases = load_cases(ctx, n, 2)
  ctx.exhaustive = True
  rng = np.random.default_rng(ctx.seed + 16)
  rng.shuffle(cases)
  per = 60
  rs = []
  for i in range(0, len(cases), per):
    rs.append(dict(src='mc', est=gen.PAIRS[(i // per) % 3], d=int(rng.integers(2, 5)),
                   seed=int(rng.integers(1 << 30)), cases=cases[i:i + per]))
  for i in range(9 if ctx.quick else 480):
    rs.append(dict(src='random', est=gen.PAIRS[i % 3], d=int(rng.integers(2, 7)), seed=int(rng.integers(1 << 30)),
                   n=25 if ctx.quick else 60))
  for i in range(3 if ctx.quick else 36):
    rs.append(dict(src='fit_params', est=gen.PAIRS[i % 3], d=int(rng.integers(2, 5)), seed=int(rng.integers(1 << 30)), n=6))
  for i in range(3 if ctx.quick else 48):
    rs.append(dict(src='boundary', est=gen.PAIRS[i % 3], d=int(rng.integers(2, 5)), seed=int(rng.integers(1 << 30)), n=30))
  for i in range(3):
    rs.append(dict(src='invalid', est=gen.PAIRS[i % 3], d=2, seed=int(rng.integers(1 << 30))))
  ctx.rule = ('all states of MC_Calibrate (labelled multisets of <= %d pairs over distances {0,1,2} with both labels x '
              'strategy x beta^2 in {0,1/4,1,4} x min_rate in {0,..,1}) realised on fitted ITML/MMC/SDML models, plus random '
              'validation sets with injected ties/conflicting duplicates, fit(calibration_params) and the invalid-'
              'parameter table; distinct by (distances, labels, strategy, beta, min_rate); non-trivial = the '
              'validation set contains a tie or a label conflict' % n)
  ctx.rule += " Plus the executions of the repository's own test suite recorded by the pytest tracing plugin (one case per test / per estimator object; distinct by test id)."
  pairs = core.generate(MOD, rs)

  def sig(recipe, tr, clause, pos):
    e = tr['events'][pos - 1] if 0 < pos <= len(tr['events']) else {}
    s = {'strategy': e.get('strategy'), 'via': e.get('via', 'calibrate_threshold')}
    if e.get('boundary'):
      s['boundary'] = e['boundary']
    if e.get('ev') == 'CalibrateCase' and 'd' in e:
      ds = [str(v) for v in e['d']]
      s['has_ties'] = len(set(ds)) < len(ds)
    return s
  verdicts, _ = core.judge(ctx, *SPEC, pairs, sig)
  # calibrations performed by the repository's own tests (directly, or inside fit(calibration_params=...)): the stored
  # threshold must be optimal for the criterion on the validation distances read back from the estimator
  import suite
  evs, summary = core.record_suite_calls(os.path.join(ctx.work, 'suite'), files=['test/test_pairs_classifiers.py'] if ctx.quick else ['test/'])
  spairs = suite.traces_from(evs, ('CallCalibrate',), 150 if ctx.quick else 0, np.random.default_rng(ctx.seed), spec=SPEC)
  if len(spairs) < 20:
    raise core.MachineryError('only %d calibration traces recorded from the repository tests (%s)' % (len(spairs), summary))
  core.judge(ctx, *SPEC, spairs, lambda r, t, c: {'estimator': r['est'], 'suite': True}, tag='suite')
  for r, t in spairs:
    ctx.note_case(('suite', r['test']))
  ctx.extra['suite_traces'] = {'pytest_summary': summary, 'tests_validated': len(spairs),
                               'calibrations_validated': sum(len(t['events']) for _, t in spairs),
                               'strategies': sorted({e['strategy'] for _, t in spairs for e in t['events']})}

  def suite_thr_moved(t):
    e = t['events'][0]
    e['thr'] = [-1, 0, [1]]          # "reject everything" on a set that has positive pairs: accuracy is not maximal
    e['y'] = [1] * (len(e['y']) - 1) + [-1]
  sgood = next(t for r, t in spairs if t['events'][0]['strategy'] == 'accuracy' and len(t['events'][0]['y']) >= 4)
  core.selftest_binding(ctx, *SPEC, sgood, suite_thr_moved, 'C16.accuracy_optimal', 'suite_threshold_moved')
  # refine violations: identify the failing events individually (a trace holds many cases)
  ncal = 0
  for recipe, tr in pairs:
    for e in tr['events']:
      if e['ev'] == 'CalibrateCase':
        ncal += 1
        ds = [str(v) for v in e.get('d', [])]
        nontriv = len(set(ds)) < len(ds)
        ctx.note_case((e['strategy'], str(e['b2']), str(e['min_rate']), str(sorted(zip(ds, e['y'])))), nontrivial=nontriv)
  ctx.extra['calibration_cases_replayed'] = ncal
  ctx.extra['mc_cases'] = len(cases)
  t = pairs[0][1]
  ctx.sample({'estimator': t['est'], 'case': {k: str(v)[:200] for k, v in t['events'][1].items()}})
  good = next(t for r, t in pairs if r['src'] == 'mc')

  def corrupt_thr(t):
    for e in t['events']:
      if e['ev'] == 'CalibrateCase' and e['strategy'] == 'accuracy' and e['y'].count(1) != len(e['y']):
        e['thr'] = [-1, 0, [1]]      # reject everything although accepting something is better / equal?
        e['y'] = [1] * (len(e['y']) - 1) + [-1]
        break
  core.selftest_binding(ctx, *SPEC, good, corrupt_thr, 'C16.accuracy_optimal', 'suboptimal_threshold')


def replay(path, frozen=False):
  return core.standard_replay(MOD, PID, *SPEC, path, frozen)
