"""C18 - constructor parameters round-trip: get_params, set_params, clone, pickle; NotFittedError.

Model: MC_Params (parameter store) and MC_Lifecycle (Clone / PickleRoundTrip / unfitted use).
Conformance: (a) for every estimator and every constructor parameter (names read at run time with
inspect.signature) x value kinds {scalar, array, callable, None}: construct / get_params / set_params
sequences with object identity recorded as tokens, validated by TR_Params; deprecated aliases: FutureWarning
and the fitted model equals the one obtained with the replacement; every public method on a fresh object:
NotFittedError.  (b) life-cycle histories with Clone / Pickle / queries, validated by TR_Lifecycle
(clauses C18.*: params digest of every object after every call, clone-then-fit and pickle outputs bit for bit).
"""
import inspect
import warnings
import numpy as np
from sklearn.exceptions import NotFittedError

import os
import core
import gen
import lifecycle
from checks import c17

MOD = 'checks.c18'
PID = 'C18'
ALIASES = {'num_constraints': 'n_constraints', 'num_chunks': 'n_chunks', 'convergence_threshold': 'tol',
           'k': 'n_neighbors'}


class Tokens:
  """identity registry: Python object -> small integer token"""
  def __init__(self):
    self.objs = []

  def tok(self, o):
    for i, x in enumerate(self.objs):
      if x is o:
        return i + 1
    self.objs.append(o)
    return len(self.objs)

  def lookup(self, o):
    for i, x in enumerate(self.objs):
      if x is o:
        return i + 1
    return 0


def value_of(kind, rng):
  if kind == 'scalar':
    return [int(rng.integers(1000, 2000)), float(rng.random()), 'some_string'][int(rng.integers(3))]
  if kind == 'array':
    return rng.normal(size=(3, 3))
  if kind == 'callable':
    return lambda idx: idx
  if kind == 'none':
    return None
  if kind == 'list':
    return [[1.0, 0.0], [0.0, 1.0]]


def gen_params_trace(recipe):
  rng = np.random.default_rng(recipe['seed'])
  name = recipe['est']
  cls = gen.CLS[name]
  sig = inspect.signature(cls.__init__)
  names = [k for k in sig.parameters if k != 'self']
  reg = Tokens()
  defaults = {k: reg.tok(sig.parameters[k].default) for k in names}
  deprecated = [k for k in names if sig.parameters[k].default == 'deprecated' and isinstance(sig.parameters[k].default, str)]
  events = []

  def gp(est):
    g = est.get_params()
    return {k: reg.lookup(g[k]) for k in sorted(g)}
  for k in names:
    if k in deprecated:
      continue
    for kind in recipe['kinds']:
      v = value_of(kind, rng)
      t = reg.tok(v)
      ev = {'ev': 'Construct', 'kw': {k: t}, 'kind': kind, 'param': k, 'exc': '', 'gp': {}}
      try:
        with warnings.catch_warnings():
          warnings.simplefilter('ignore')
          est = cls(**{k: v})
        ev['gp'] = gp(est)
      except Exception as e:
        ev['exc'] = type(e).__name__
      events.append(ev)
      if ev['exc']:
        continue
      events.append({'ev': 'GetParams', 'gp': gp(est)})
      # set_params on one or two parameters
      k2 = names[int(rng.integers(len(names)))]
      if k2 in deprecated:
        k2 = k
      v2 = value_of(['scalar', 'array', 'none', 'callable'][int(rng.integers(4))], rng)
      t2 = reg.tok(v2)
      ev2 = {'ev': 'SetParams', 'kw': {k2: t2}, 'exc': '', 'gp': {}}
      try:
        est.set_params(**{k2: v2})
        ev2['gp'] = gp(est)
      except Exception as e:
        ev2['exc'] = type(e).__name__
      events.append(ev2)
      events.append({'ev': 'GetParams', 'gp': gp(est)})
  # two parameters at once
  if len(names) >= 2:
    for _ in range(3):
      ks = [names[int(i)] for i in rng.choice(len(names), size=2, replace=False)]
      ks = [k for k in ks if k not in deprecated]
      if not ks:
        continue
      vals = {k: value_of('scalar', rng) for k in ks}
      try:
        est = cls(**vals)
      except ValueError:
        continue        # a constructor may reject a value (LFDA validates embedding_type); nothing is stored then
      events.append({'ev': 'Construct', 'kw': {k: reg.tok(v) for k, v in vals.items()}, 'exc': '', 'gp': gp(est)})
  return {'est': name, 'defaults': defaults, 'events': events}


def gen_alias_trace(recipe):
  rng = np.random.default_rng(recipe['seed'])
  name = recipe['est']
  cls = gen.CLS[name]
  sig = inspect.signature(cls.__init__)
  names = [k for k in sig.parameters if k != 'self']
  reg = Tokens()
  defaults = {k: reg.tok(sig.parameters[k].default) for k in names}
  events = []
  tr = gen.training(rng, name, d=3)
  for alias in names:
    d = sig.parameters[alias].default
    if not (isinstance(d, str) and d == 'deprecated'):
      continue
    repl = ALIASES.get(alias, '?')
    base = dict(gen.FAST[name])
    if name.startswith('SDML'):
      base['balance_param'] = 2.0 ** -17      # keeps the graphical-lasso input positive definite
    val = {'n_constraints': 17, 'n_chunks': 3, 'tol': 0.05, 'n_neighbors': 2}.get(repl, 3)
    base.pop(repl, None)
    with warnings.catch_warnings(record=True) as w:
      warnings.simplefilter('always')
      ea = cls(**dict(base, **{alias: val}))
      ea.fit(*tr['fit_args'])
    fw = any(issubclass(x.category, FutureWarning) and alias in str(x.message) for x in w)
    with warnings.catch_warnings():
      warnings.simplefilter('ignore')
      er = cls(**dict(base, **{repl: val}))
      er.fit(*tr['fit_args'])
    # the life of an alias-built estimator goes on: set_params on the replacement, then clone (what any meta-estimator does)
    val2 = {'n_constraints': 11, 'n_chunks': 4, 'tol': 0.2, 'n_neighbors': 1}.get(repl, 2)
    clone_exc, clone_value_ok, m_clone, m_direct = '', False, '', ''
    with warnings.catch_warnings():
      warnings.simplefilter('ignore')
      try:
        from sklearn.base import clone as sk_clone
        e2 = cls(**dict(base, **{alias: val}))
        e2.set_params(**{repl: val2})
        c2 = sk_clone(e2)
        clone_value_ok = bool(c2.get_params()[repl] == val2 and e2.get_params()[repl] == val2)
        c2.fit(*tr['fit_args'])
        m_clone = lifecycle.digest(np.asarray(c2.components_))
        m_direct = lifecycle.digest(np.asarray(cls(**dict(base, **{repl: val2})).fit(*tr['fit_args']).components_))
      except Exception as e:
        clone_exc = type(e).__name__
    events.append({'ev': 'AliasFit', 'alias': alias, 'replacement': repl, 'future_warning': bool(fw),
                   'model_alias': lifecycle.digest(np.asarray(ea.components_)),
                   'model_replacement': lifecycle.digest(np.asarray(er.components_)),
                   'clone_exc': clone_exc, 'clone_value_ok': clone_value_ok, 'model_clone': m_clone, 'model_direct': m_direct})
  # every public method on a fresh (unfitted) object
  w_ = lifecycle.World(name, recipe['seed'])
  for qi, qn in enumerate(w_.qnames):
    fresh = w_.new(1)
    ev = {'ev': 'UnfittedCall', 'method': qn, 'exc': ''}
    try:
      w_.query(fresh, qi + 1)
    except NotFittedError:
      ev['exc'] = 'NotFittedError'
    except Exception as e:
      ev['exc'] = type(e).__name__
    events.append(ev)
  for meth in ['get_metric'] + (['set_threshold', 'calibrate_threshold'] if w_.has_thr else []):
    fresh = w_.new(1)
    ev = {'ev': 'UnfittedCall', 'method': meth, 'exc': ''}
    try:
      if meth == 'get_metric':
        fresh.get_metric()
      elif meth == 'set_threshold':
        fresh.set_threshold(1.0)
      else:
        fresh.calibrate_threshold(*w_.V[0][0][:2])
    except NotFittedError:
      ev['exc'] = 'NotFittedError'
    except Exception as e:
      ev['exc'] = type(e).__name__
    events.append(ev)
  return {'est': name, 'defaults': defaults, 'events': events}


def gen_trace(recipe):
  if recipe['src'] == 'params':
    return gen_params_trace(recipe)
  if recipe['src'] == 'alias':
    return gen_alias_trace(recipe)
  return c17.gen_trace(recipe)


def signature_of(recipe, tr, clause, pos):
  e = tr['events'][pos - 1] if 0 < pos <= len(tr['events']) else {}
  sig = {'estimator': recipe['est']}
  if e.get('ev') in ('Construct', 'SetParams'):
    sig['param'] = sorted(e.get('kw', {}).keys())
  if e.get('ev') == 'UnfittedCall':
    sig['method'] = e.get('method')
  if e.get('ev') == 'AliasFit':
    sig['alias'] = e.get('alias')
  return sig


def run(ctx):
  ctx.model('MC_Params', 'MC_Params.cfg', workers=4)
  for has_thr, nq, tag in [(True, 2, 'thr'), (False, 2, 'nothr')]:
    cfg = ctx.work + '/MC_Lifecycle_%s.cfg' % tag
    c17.write_cfg(cfg, has_thr, nq, 5 if ctx.quick else 6, maxobjs=2, maxh=1)
    ctx.model('MC_Lifecycle', cfg, tag='MC_Lifecycle_' + tag)
  rng = np.random.default_rng(ctx.seed + 18)
  rs = []
  kinds = ['scalar', 'array', 'callable', 'none'] if ctx.quick else ['scalar', 'array', 'callable', 'none', 'list', 'scalar']
  for name in gen.ALL:
    rs.append(dict(src='params', est=name, kinds=kinds, seed=int(rng.integers(1 << 30))))
    rs.append(dict(src='alias', est=name, seed=int(rng.integers(1 << 30))))
  # life-cycle histories centred on clone / pickle / set_params / unfitted use
  hs = {'thr': c17.histories(ctx, True, 8, 30 if ctx.quick else 200, 12, 'thr', fit_transform=False),
        'tuples': c17.histories(ctx, False, 8, 30 if ctx.quick else 200, 12, 'tuples', fit_transform=False),
        'plain': c17.histories(ctx, False, 5, 30 if ctx.quick else 200, 12, 'plain')}
  life = []
  for name in gen.ALL:
    g = c17.group(name)
    cand = [h for h in hs[g] if any(o[0] in ('Clone', 'Pickle', 'SetParams') for o in h)]
    for k in range(3 if ctx.quick else 15):
      if cand:
        life.append(dict(src='life', est=name, seed=int(rng.integers(1 << 30)), same_dims=bool(k % 2), indexed=bool(k % 3 == 0),
                         ops=cand[(k + gen.ALL.index(name)) % len(cand)]))
    life.append(dict(src='life', est=name, seed=int(rng.integers(1 << 30)), same_dims=True, ops=c17.directed_ops(name)))
    life.append(dict(src='life', est=name, seed=int(rng.integers(1 << 30)), same_dims=True, indexed=True, ops=c17.directed_ops(name)))
    life.append(dict(src='life', est=name, seed=int(rng.integers(1 << 30)), same_dims=True, ops=c17.copies_ops(name)))
  # copies on WIDE data (600 features, 60 samples: scikit-learn's PCA then uses its randomized solver): an estimator, its
  # clone, its unpickled copy and a clone of that copy must learn the same model from the same integer random_state
  for name in ('NCA', 'LMNN', 'MLKR'):
    for k in range(1 if ctx.quick else 3):
      life.append(dict(src='life', est=name, seed=int(rng.integers(1 << 30)), same_dims=True, wide=True,
                       ops=[['New', 1], ['Clone', 1], ['Pickle', 1], ['Clone', 3], ['Fit', 1, 1], ['Fit', 2, 1], ['Fit', 3, 1], ['Fit', 4, 1],
                            ['Query', 1, 1], ['Query', 2, 1], ['Query', 3, 1], ['Query', 4, 1]]))
  ctx.rule = ('every constructor parameter of every estimator (names from inspect.signature at run time) x value kinds '
              '%s: construct/get_params/set_params with object identity as tokens; every deprecated alias; every public '
              'method on a fresh object; plus TLC-simulated life-cycle histories with clone / pickle / set_params; '
              'distinct by (estimator, parameter, value kind) resp. (estimator, history)' % kinds)
  ctx.rule += " Plus the executions of the repository's own test suite recorded by the pytest tracing plugin (one case per test / per estimator object; distinct by test id)."
  pairs = core.generate(MOD, rs + life)
  pp = [(r, t) for r, t in pairs if r['src'] in ('params', 'alias')]
  core.judge(ctx, 'TR_Params', 'TR_Params.cfg', pp, signature_of, tag='TR_Params')
  for g, cfgname in (('thr', 'TR_Lifecycle_thr.cfg'), ('nothr', 'TR_Lifecycle_nothr.cfg')):
    sub = [(r, t) for r, t in pairs if r['src'] == 'life' and (r['est'] in lifecycle.PAIR_CLASSIFIERS) == (g == 'thr')]
    core.judge(ctx, 'TR_Lifecycle', cfgname, sub, signature_of, tag='TR_Lifecycle_' + g)
  # uses of not-yet-fitted estimators by the repository's own tests (ObjLife!UnfittedRaises)
  import suite
  evs, summary = core.record_suite_calls(os.path.join(ctx.work, 'suite'),
                                         files=['test/test_pairs_classifiers.py', 'test/test_triplets_classifiers.py',
                                                'test/test_quadruplets_classifiers.py', 'test/test_utils.py'] if ctx.quick else ['test/'])
  lp = suite.judge_life(ctx, evs, 300 if ctx.quick else 0)
  ctx.extra['suite_object_histories']['pytest_summary'] = summary

  def unfitted_answers(t):
    e = next(e for e in t['events'] if not e['before']['fitted'] and e['act'] != 'fit' and e['exc'] == 'NotFittedError')
    e['exc'] = ''
  lgood = next(t for r, t in lp if any(not e['before']['fitted'] and e['act'] != 'fit' and e['exc'] == 'NotFittedError'
                                       for e in t['events']))
  core.selftest_binding(ctx, *suite.LIFE_SPEC, lgood, unfitted_answers, 'C18.suite_unfitted_use_raises', 'suite_unfitted_use_answers')
  nparam = 0
  for r, t in pairs:
    if r['src'] == 'params':
      for e in t['events']:
        if e['ev'] == 'Construct':
          nparam += 1
          ctx.note_case((r['est'], str(sorted(e['kw'])), e.get('kind')))
    else:
      ctx.note_case((r['est'], r['src'], str(r.get('ops'))))
  ctx.extra['constructor_parameter_cases'] = nparam
  ctx.sample({'estimator': pp[0][1]['est'], 'defaults_tokens': pp[0][1]['defaults'], 'events': pp[0][1]['events'][:4]})
  ctx.sample({'alias_trace': pp[1][1]['events'][:3]})
  good = pp[0][1]

  def drop_param(t):
    e = t['events'][0]
    k = sorted(e['kw'])[0]
    e['gp'][k] = 0          # get_params returns a different object than the one passed
  core.selftest_binding(ctx, 'TR_Params', 'TR_Params.cfg', good, drop_param, 'C18.constructor', 'parameter_copied_in_init')


def replay(path, frozen=False):
  import json
  body = json.load(open(path))
  r = body['recipe']
  if r.get('src') in ('params', 'alias'):
    return core.standard_replay(MOD, PID, 'TR_Params', 'TR_Params.cfg', path, frozen)
  return core.standard_replay(MOD, PID, *c17.spec_for(r['est']), path, frozen)
