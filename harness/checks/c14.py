"""C14 - MMC returns a PSD matrix that satisfies its similarity budget.

Model: MC_MMC (the accept / reject cycle machine over abstract candidates).  Conformance: real MMC /
MMC_Supervised fits; the kept and candidate matrices of every cycle are observed by wrapping _fD (argument
copies; no source change); TLC (TR_MMC) recomputes the budget from the init option's matrix, decides feasibility
and improvement of each candidate, replays the cycles through MMC!CycleStep and requires the returned matrix
to be the kept iterate; diagonal variant: diagonal, non-negative, no NaN or ValueError.
"""
import warnings
import numpy as np

import core
import gen
import metric_learn.mmc as mmc_mod
from num import dy, dyv, dym
from metric_learn._util import _initialize_metric_mahalanobis
from metric_learn.constraints import Constraints, wrap_pairs

MOD = 'checks.c14'
SPEC = ('TR_MMC', 'TR_MMC.cfg')
PID = 'C14'


class FDProbe:
  def __init__(self):
    self.calls = []
    self.orig = mmc_mod._BaseMMC._fD
    probe = self

    def wrapped(self_, neg_pairs, A):
      probe.calls.append(np.array(A, dtype=float).copy())
      return probe.orig(self_, neg_pairs, A)
    self.wrapped = wrapped

  def __enter__(self):
    mmc_mod._BaseMMC._fD = self.wrapped
    return self

  def __exit__(self, *a):
    mmc_mod._BaseMMC._fD = self.orig


def roots(Dv, A):
  q = np.einsum('ij,jk,ik->i', Dv, A, Dv)
  return np.sqrt(np.maximum(q, 0.0))


def gen_case(rng, supervised, diagonal):
  d = int(rng.integers(2, 5))
  X, y = gen.dataset(rng, d=d, n_classes=int(rng.integers(2, 4)), bits=5)
  init_kind = str(rng.choice(['identity', 'covariance', 'random', 'array']))
  if init_kind == 'array':
    A = rng.normal(size=(d, d))
    init = gen.grid(A.T.dot(A) + np.eye(d), bits=5)
  else:
    init = init_kind
  init_arg = gen.layout(rng, init) if isinstance(init, np.ndarray) else init          # what the estimator gets (any memory layout)
  seed = int(rng.integers(1000))
  max_iter = int(rng.integers(1, 12))
  tol = float(rng.choice([1e-3, 1e-6]))
  if supervised:
    n_c = int(rng.integers(6, 14))
    cons = Constraints(y).positive_negative_pairs(n_c, random_state=seed)
    pairs, lab = gen.documented_pairs(X, cons)
  else:
    idx, lab = gen.pairs_from(rng, X, y, int(rng.integers(6, 16)))
    pairs = X[idx]
  ev = {'ev': 'MmcFit', 'supervised': bool(supervised), 'diagonal': bool(diagonal), 'init_kind': init_kind, 'exc': '',
        'A0': [], 'A': [], 'L': [], 'S': [], 'D': [], 'cycles': [], 'probes_ok': False, 'max_iter': max_iter}
  kw = dict(max_iter=max_iter, max_proj=int(rng.choice([2000, 10000])), tol=tol, init=init_arg, diagonal=diagonal,
            diagonal_c=float(rng.choice([0.5, 1.0, 4.0])), random_state=seed)
  with warnings.catch_warnings():
    warnings.simplefilter('ignore')
    try:
      if init_kind == 'array' and rng.random() < 0.5:
        # the user's init array has been used by an earlier fit (same object): the budget is still that of the requested init
        gen.MMC(**dict(kw, max_iter=5)).fit(pairs.copy(), lab.copy())
        ev['init_array_used_before'] = True
      if not supervised:
        est0 = gen.MMC(**kw)
        arg0, ev['how'] = gen.prepare_tuples_via(rng, est0, X, idx, lab)       # (an earlier fit through another array happens here)
      with FDProbe() as pr:
        if supervised:
          est = gen.MMC_Supervised(n_constraints=n_c, **kw).fit(X.copy(), y.copy())
        else:
          est = est0.fit(arg0, lab.copy())
      if init_kind == 'array':
        # the init option is a MATRIX: the same numbers in a plain C-ordered float64 copy must give the same model
        kc = dict(kw, init=np.array(init, dtype=float, order='C'))
        ec = (gen.MMC_Supervised(n_constraints=n_c, **kc).fit(X.copy(), y.copy()) if supervised
              else gen.MMC(**kc).fit(pairs.copy(), lab.copy()))
        ev['A_c'] = dym(ec.A_) if not diagonal else dym(np.atleast_2d(ec.components_))
        ev['A_given'] = dym(est.A_) if not diagonal else dym(np.atleast_2d(est.components_))
      pos, neg = pairs[lab == 1], pairs[lab == -1]
      S = pos[:, 0] - pos[:, 1]
      Dv = neg[:, 0] - neg[:, 1]
      # the DOCUMENTED initial matrix, without the library where the documentation defines it
      if init_kind == 'array':
        A0 = init.copy()
      elif init_kind == 'identity':
        A0 = np.eye(d)
      elif init_kind == 'covariance':
        A0 = np.linalg.pinv(np.atleast_2d(np.cov(np.unique(np.vstack(pairs), axis=0), rowvar=False)), hermitian=True)
      else:
        A0 = _initialize_metric_mahalanobis(pairs.copy(), init, random_state=seed, matrix_name='init')
      ev.update(A0=dym(A0), A=dym(est.A_), L=dym(est.components_), S=dym(S), D=dym(Dv))
      if not diagonal:
        calls = pr.calls
        cyc = []
        for c in range(0, len(calls) - 1, 2):
          kept, cand = calls[c], calls[c + 1]
          cyc.append({'kept': dym(kept), 'cand': dym(cand), 'kept_roots': dyv(roots(Dv, kept)), 'cand_roots': dyv(roots(Dv, cand))})
        ev['cycles'] = cyc
        ev['probes_ok'] = len(calls) % 2 == 0 and len(calls) > 0
    except Exception as e:
      ev['exc'] = type(e).__name__
      ev['exc_msg'] = str(e)[:160]
  return ev


def gen_trace(recipe):
  rng = np.random.default_rng(recipe['seed'])
  return {'est': 'MMC', 'events': [gen_case(rng, recipe['supervised'], recipe['diagonal']) for _ in range(recipe['n'])]}


def signature_of(recipe, tr, clause, pos):
  e = tr['events'][pos - 1] if 0 < pos <= len(tr['events']) else {}
  return {'supervised': bool(e.get('supervised')), 'diagonal': bool(e.get('diagonal')), 'init': e.get('init_kind')}


def run(ctx):
  ctx.model('MC_MMC', 'MC_MMC.cfg', workers=8)
  rng = np.random.default_rng(ctx.seed + 14)
  rs = []
  for i in range(16 if ctx.quick else 480):
    rs.append(dict(supervised=bool(i % 2), diagonal=bool(i % 4 == 3), n=4 if ctx.quick else 10, seed=int(rng.integers(1 << 30))))
  ctx.rule = ('random labelled pair sets x init in {identity, covariance, random, SPD array} x max_iter 1..11 x tol x max_proj '
              'x diagonal in {False (3/4), True (1/4)} x diagonal_c; MMC and MMC_Supervised; one record per cycle (kept / '
              'candidate matrices); distinct by event content; non-trivial = a run with at least one rejected candidate')
  pairs = core.generate(MOD, rs)
  core.judge(ctx, *SPEC, pairs, signature_of)
  ncyc = 0
  for r, t in pairs:
    for e in t['events']:
      ncyc += len(e['cycles'])
      rej = any(e['cycles'][c + 1]['kept'] == e['cycles'][c]['kept'] for c in range(len(e['cycles']) - 1))
      ctx.note_case((str(e['S'])[:80], e['init_kind'], e['max_iter'], e['diagonal']), nontrivial=rej)
  ctx.extra['cycles_replayed'] = ncyc
  ctx.extra['probes_missing'] = [] if all(e['probes_ok'] or e['diagonal'] or e['exc'] for _, t in pairs for e in t['events']) else ['_BaseMMC._fD']
  ctx.sample({k: str(v)[:140] for k, v in pairs[0][1]['events'][0].items()})
  good = next(t for r, t in pairs if any(len(e['cycles']) >= 2 for e in t['events']))

  def returns_current(t):
    for e in t['events']:
      if len(e['cycles']) >= 2:
        e['A'] = e['cycles'][-1]['cand'] if e['A'] != e['cycles'][-1]['cand'] else e['cycles'][0]['kept']
  core.selftest_binding(ctx, *SPEC, good, returns_current, 'C14.', 'returned_matrix_not_the_kept_iterate')


def replay(path, frozen=False):
  return core.standard_replay(MOD, PID, *SPEC, path, frozen)
