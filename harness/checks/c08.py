"""C08 - supervised variants equal the base learner run on label-derived constraints.

Model: MC_Supervised (one-step FitSupervised and two-step Generate;FitBase reach the same model term).
Conformance per case: (a) Sup(params, seed).fit(X, y) with the Constraints helper wrapped so that the
constraints it actually drew are recorded; (b) the helper called directly with the same arguments and seed
and Base(params).fit(tuples); (c) Sup.fit(X', y) where X' differs from X only in rows whose label is
negative.  Label vectors with and without -1 entries at arbitrary positions.  TLC (TR_Supervised) decides.
"""
import warnings
import numpy as np

import core
import gen
import metric_learn
from metric_learn.constraints import Constraints, wrap_pairs
from num import dym

MOD = 'checks.c08'
SPEC = ('TR_Supervised', 'TR_Supervised.cfg')
PID = 'C08'

SUP = {'ITML_Supervised': ('ITML', 'pairs'), 'MMC_Supervised': ('MMC', 'pairs'), 'SDML_Supervised': ('SDML', 'pairs'),
       'LSML_Supervised': ('LSML', 'quadruplets'), 'RCA_Supervised': ('RCA', 'chunks'),
       'SCML_Supervised': ('SCML', 'knn_triplets')}
MODULE_OF = {'ITML_Supervised': 'itml', 'MMC_Supervised': 'mmc', 'SDML_Supervised': 'sdml', 'LSML_Supervised': 'lsml',
             'RCA_Supervised': 'rca', 'SCML_Supervised': 'scml'}


def one(a):
  return [int(v) + 1 for v in a]


class Recorder:
  """wraps the Constraints class seen by one estimator module and records what it returns"""
  def __init__(self, module):
    self.module = module
    self.orig = module.Constraints
    self.calls = []
    rec = self

    class Wrapped(self.orig):
      def positive_negative_pairs(self, *a, **k):
        r = super().positive_negative_pairs(*a, **k)
        rec.calls.append(('pairs', [np.array(x).copy() for x in r]))
        return r

      def chunks(self, *a, **k):
        r = super().chunks(*a, **k)
        rec.calls.append(('chunks', np.array(r).copy()))
        return r

      def generate_knntriplets(self, *a, **k):
        r = super().generate_knntriplets(*a, **k)
        rec.calls.append(('knn', np.array(r).copy()))
        return r
    self.wrapped = Wrapped

  def __enter__(self):
    self.module.Constraints = self.wrapped
    return self

  def __exit__(self, *a):
    self.module.Constraints = self.orig


def cons_json(kind, c):
  if kind in ('pairs', 'quadruplets'):
    return [one(x) for x in c]
  if kind == 'chunks':
    return [int(v) for v in c]
  return [one(t) for t in c]


def gen_case(rng, name, with_unknown, single_class=False):
  base, kind = SUP[name]
  d = int(rng.integers(2, 5))
  ncls = int(rng.integers(2, 4))
  X, y = gen.dataset(rng, d=d, n_classes=ncls, per_class=max(5, int(np.ceil(4 * d / ncls)) + 1))
  y = gen.relabel(rng, y) if rng.random() < 0.5 else y.copy()      # class ids are names: gaps, not starting at 0
  if with_unknown:
    # unlabeled points at arbitrary positions (including the very first rows), every class keeps >= 4 members
    for i in rng.permutation(len(y)):
      if (y == y[i]).sum() > 4 and rng.random() < 0.5 and (y < 0).sum() < len(y) // 4:
        y[i] = -1
    if (y < 0).sum() == 0:
      i = int(np.argmax(np.bincount(y[y >= 0])))
      y[np.flatnonzero(y == i)[0]] = -1
    if y[0] >= 0 and (y == y[0]).sum() > 4:
      y[0] = -1
    if rng.random() < 0.6:
      # "negative" is the documented marker of an unlabeled point, not only -1: several different negative values
      u = np.flatnonzero(y < 0)
      y[u] = rng.choice([-1, -2, -3, -9], size=len(u))
  if name in ('ITML_Supervised', 'SDML_Supervised') and (single_class or rng.random() < 0.2):
    # a label vector is a label vector: all labeled points in ONE class (only similar pairs can be derived)
    y = np.where(y >= 0, int(rng.integers(0, 5)), y)
    ncls = 1
  seed = int(rng.integers(1000))
  hyper = dict(gen.FAST[name])
  hyper['random_state'] = seed
  ev = {'ev': 'SupervisedCase', 'cls': name, 'base': base, 'gen': kind, 'y': [int(v) for v in y], 'exc': '',
        'n': 0, 'size': 0, 'kg': 0, 'ki': 0, 'Xint': [], 'cons_a': [], 'cons_b': [], 'Ma': [], 'Mb': [], 'Mc': [],
        'has_c': bool(with_unknown), 'with_unknown': bool(with_unknown), 'seed': seed}
  base_kw = {}
  if kind in ('pairs', 'quadruplets'):
    n = int(rng.integers(8, 25))
    if not with_unknown and rng.random() < 0.25:
      hyper['n_constraints'] = None
      n = 20 * ncls ** 2
    else:
      if rng.random() < 0.3:
        # more constraints requested than same-class pairs exist: fewer positives than negatives are generated
        # (the documented warning case; LSML_Supervised then truncates both to the same length)
        n = int(rng.integers(60, 140))
      hyper['n_constraints'] = n
    ev['n'] = n
    if name == 'ITML_Supervised':
      hyper['gamma'] = float(rng.choice([0.5, 1.0, 4.0]))
      hyper['prior'] = str(rng.choice(['identity', 'covariance']))
    if name == 'MMC_Supervised':
      hyper['init'] = str(rng.choice(['identity', 'covariance']))
    if name == 'SDML_Supervised':
      hyper['balance_param'] = 2.0 ** -17
      hyper['sparsity_param'] = float(rng.choice([0.01, 0.05]))
    if name == 'LSML_Supervised':
      hyper['prior'] = str(rng.choice(['identity', 'covariance']))
  elif kind == 'chunks':
    known = y[y >= 0]
    size = int(rng.integers(2, 4))
    cap = int(sum(c // size for c in np.bincount(known)))
    # well-formed for RCA: enough chunked points for an invertible within-chunk covariance
    need = int(np.ceil((d + 2) / (size - 1)))
    if cap < need:
      size = 2
      cap = int(sum(c // size for c in np.bincount(known)))
      need = d + 2
    n = int(rng.integers(min(need, cap), cap + 1))
    hyper.update(n_chunks=n, chunk_size=size)
    if rng.random() < 0.5 and n * (size - 1) >= d + 2:
      hyper['n_components'] = int(rng.integers(1, d + 1))
    ev['n'], ev['size'] = n, size
  else:
    kg, ki = int(rng.integers(1, 4)), int(rng.integers(1, 5))
    hyper.update(k_genuine=kg, k_impostor=ki)
    b = str(rng.choice(['triplet_diffs', 'array', 'lda']))
    if b == 'array':
      Bm = rng.normal(size=(4 * d, d))
      hyper['basis'] = Bm / np.linalg.norm(Bm, axis=1, keepdims=True)
      hyper['n_basis'] = None
    elif b == 'triplet_diffs':
      hyper['basis'] = 'triplet_diffs'
      hyper['n_basis'] = 8 * d
    else:
      hyper['basis'] = 'lda'
    ev['kg'], ev['ki'] = kg, ki
    ev['basis'] = b
    ev['Xint'] = [[int(v) for v in r] for r in np.round(X * (1 << gen.GRID_BITS)).astype(int)]
  mod = getattr(metric_learn, MODULE_OF[name])
  with warnings.catch_warnings():
    warnings.simplefilter('ignore')
    try:
      wq = None
      if name == 'LSML_Supervised' and rng.random() < 0.5:
        # per-constraint weights (a hyper-parameter of LSML_Supervised, a fit argument of LSML): one per derived quadruplet
        c0 = Constraints(y).positive_negative_pairs(ev['n'], same_length=True, random_state=seed)
        wq = np.round(rng.uniform(0.25, 4.0, size=len(c0[0])) * 8.0) / 8.0
        hyper['weights'] = wq.copy()
      # (a) the supervised estimator, with the helper observed
      with Recorder(mod) as rec:
        ea = gen.CLS[name](**hyper)
        ea.fit(X, y)
      ev['Ma'] = dym(ea.get_mahalanobis_matrix())
      ck, ca = rec.calls[-1]
      ev['cons_a'] = cons_json(kind, ca)
      # (b) the helper called directly + the base learner
      bh = {k: v for k, v in hyper.items() if k not in ('n_constraints', 'n_chunks', 'chunk_size', 'k_genuine', 'k_impostor', 'weights')}
      if kind in ('pairs', 'quadruplets'):
        cb = Constraints(y).positive_negative_pairs(ev['n'], same_length=(kind == 'quadruplets'), random_state=seed)
        ev['cons_b'] = cons_json(kind, cb)
        eb = gen.CLS[base](**bh)
        if kind == 'pairs':
          pairs, yl = gen.documented_pairs(X, cb)
          eb.fit(pairs, yl)
        elif wq is not None:
          eb.fit(X[np.column_stack(cb)], weights=wq.copy())
        else:
          eb.fit(X[np.column_stack(cb)])
      elif kind == 'chunks':
        cb = Constraints(y).chunks(n_chunks=ev['n'], chunk_size=ev['size'], random_state=seed)
        ev['cons_b'] = cons_json(kind, cb)
        bh.pop('random_state', None)
        eb = gen.CLS[base](**bh)
        eb.fit(X, cb)
      else:
        cb = Constraints(y).generate_knntriplets(X, ev['kg'], ev['ki'])
        ev['cons_b'] = cons_json(kind, cb)
        if ev['basis'] == 'lda':
          eb = None          # the base learner has no 'lda' basis: only the constraint clauses and (c) apply
        else:
          eb = gen.CLS[base](**bh)
          eb.fit(X[cb])
      ev['Mb'] = dym(eb.get_mahalanobis_matrix()) if eb is not None else ev['Ma']
      # (c) unlabeled rows changed
      if with_unknown:
        X2 = X.copy()
        um = y < 0
        X2[um] = gen.grid(rng.normal(size=(int(um.sum()), d)) * 3.0)
        ec = gen.CLS[name](**hyper)
        ec.fit(X2, y)
        ev['Mc'] = dym(ec.get_mahalanobis_matrix())
    except Exception as e:
      ev['exc'] = type(e).__name__
      ev['exc_msg'] = str(e)[:200]
  return ev


def gen_trace(recipe):
  rng = np.random.default_rng(recipe['seed'])
  return {'est': recipe['est'], 'events': [gen_case(rng, recipe['est'], recipe['unknown'], bool(recipe.get('single_class'))) for _ in range(recipe['n'])]}


def signature_of(recipe, tr, clause, pos):
  e = tr['events'][pos - 1] if 0 < pos <= len(tr['events']) else {}
  sig = {'estimator': recipe['est'], 'with_unknown_labels': bool(e.get('with_unknown'))}
  if recipe['est'] == 'SCML_Supervised':
    sig['basis'] = e.get('basis')
  return sig


def run(ctx):
  ctx.model('MC_Supervised', 'MC_Supervised.cfg', workers=4)
  rng = np.random.default_rng(ctx.seed + 8)
  rs = []
  per = 5 if ctx.quick else 250
  for name in SUP:
    for unknown in (False, True):
      for k in range(2 if ctx.quick else 4):
        rs.append(dict(est=name, unknown=unknown, n=per, seed=int(rng.integers(1 << 30))))
  # directed: label vectors whose labeled points all belong to ONE class (only similar pairs can be derived)
  for name in ('ITML_Supervised', 'SDML_Supervised'):
    for unknown in (False, True):
      rs.append(dict(est=name, unknown=unknown, single_class=True, n=3 if ctx.quick else 60, seed=int(rng.integers(1 << 30))))
  ctx.rule = ('6 supervised classes x {no unknown labels, unknown (-1) labels at arbitrary positions incl. the first rows} x '
              'random n_constraints (incl. the default 20*n_classes^2 without unknown labels) / n_chunks / chunk_size / '
              'k_genuine / k_impostor / priors / SCML basis in {triplet_diffs, array, lda} x integer seeds; %d cases per '
              'class and label mode; distinct by (class, labels, hyper-parameters, seed); non-trivial = label vector '
              'with unknown entries or a constraint count below the request' % (per * (2 if ctx.quick else 4)))
  pairs = core.generate(MOD, rs)
  core.judge(ctx, *SPEC, pairs, signature_of)
  for r, t in pairs:
    for e in t['events']:
      ctx.note_case((r['est'], str(e['y']), e['seed'], e['n'], e['kg'], e['ki'], e['size']), nontrivial=e['with_unknown'])
  e0 = pairs[0][1]['events'][0]
  ctx.sample({k: (str(v)[:160]) for k, v in e0.items()})
  ctx.extra['cases'] = sum(len(t['events']) for _, t in pairs)
  good = pairs[0][1]

  def dropped_hyper(t):
    e = t['events'][0]
    e['Mb'] = [[list(x) for x in row] for row in e['Mb']]
    e['Mb'][0][0] = [1, 0, [12345]]
  core.selftest_binding(ctx, *SPEC, good, dropped_hyper, 'C08.metric_equals', 'base_metric_differs')


def replay(path, frozen=False):
  return core.standard_replay(MOD, PID, *SPEC, path, frozen)
