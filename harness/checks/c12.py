"""C12 - LSML descends its convex objective from the prior to a stationary point.

Model: MC_LSML (line-search machine over an abstract loss oracle).  Conformance: real LSML / LSML_Supervised
fits x priors x weights (None / list / array, any positive scale) x tol x max_iter; TLC (TR_LSML) verifies the
witnesses (inverses, Cholesky factors, roots, quotients, normalised weights; logs of the Cholesky diagonals are a
libm table) and evaluates: SPD, f(M) <= f(prior), prior returned when no constraint is violated under it,
||grad f(M)||_F <= tol when the solver stopped before max_iter (WEIGHTED gradient), scale invariance of weights.
"""
import warnings
import numpy as np

import core
import gen
from num import dy, dyv, dym
from metric_learn._util import _initialize_metric_mahalanobis

MOD = 'checks.c12'
SPEC = ('TR_LSML', 'TR_LSML.cfg')
PID = 'C12'


def witnesses(M, vab, vcd):
  dab = np.einsum('ij,jk,ik->i', vab, M, vab)
  dcd = np.einsum('ij,jk,ik->i', vcd, M, vcd)
  g = np.sqrt(np.maximum(dab * dcd, 0))
  with np.errstate(divide='ignore', invalid='ignore'):
    q1 = np.where(dab > 0, g / dab, 0.0)
    q2 = np.where(dcd > 0, g / dcd, 0.0)
  return g, q1, q2


def gen_case(rng, supervised):
  d = int(rng.integers(2, 5))
  X, y = gen.dataset(rng, d=d, n_classes=int(rng.integers(2, 4)), bits=5, sep=float(rng.choice([1.0, 2.5])))
  prior_kind = str(rng.choice(['identity', 'covariance', 'random', 'array']))
  if prior_kind == 'array':
    A = rng.normal(size=(d, d))
    prior = gen.grid(A.T.dot(A) + np.eye(d), bits=5)
  else:
    prior = prior_kind
  prior_arg = gen.layout(rng, prior) if isinstance(prior, np.ndarray) else prior      # what the estimator gets (any memory layout)
  seed = int(rng.integers(1000))
  mode = str(rng.choice(['run', 'run', 'few', 'prior_feasible']))
  tol = float(rng.choice([1e-3, 1e-5]))
  max_iter = int(rng.integers(1, 4)) if mode == 'few' else 2000
  wkind = str(rng.choice(['none', 'array', 'list']))
  if supervised:
    n_c = int(rng.integers(6, 14))
    est = gen.LSML_Supervised(tol=tol, max_iter=max_iter, prior=prior_arg, n_constraints=n_c, random_state=seed)
    from metric_learn.constraints import Constraints
    cons = Constraints(y).positive_negative_pairs(n_c, same_length=True, random_state=seed)
    quads = X[np.column_stack(cons)]
  else:
    idx = gen.quadruplets_from(rng, X, y, int(rng.integers(6, 16)))
    if mode == 'prior_feasible':
      idx = idx[:, [0, 0, 2, 3]]          # d(a,a) = 0 <= d(c,d): every constraint holds under any metric
      idx[:, 1] = idx[:, 0]
    quads = X[idx]
    est = gen.LSML(tol=tol, max_iter=max_iter, prior=prior_arg, random_state=seed)
  nq = len(quads)
  w = None
  if wkind != 'none':
    w = np.round(rng.random(nq) * 8 + 1) / 4.0
  ev = {'ev': 'LsmlFit', 'supervised': bool(supervised), 'mode': mode, 'prior_kind': prior_kind, 'wkind': wkind, 'exc': '',
        'tol': dy(tol), 'max_iter': max_iter, 'n_iter': 0, 'has_scaled': False, 'L_scaled': []}
  with warnings.catch_warnings():
    warnings.simplefilter('ignore')
    try:
      if supervised:
        if w is not None:
          est.set_params(weights=(w.tolist() if wkind == 'list' else w))
        est.fit(X.copy(), y.copy())
      else:
        if w is None:
          est, ev['how'] = gen.fit_tuples_via(rng, est, X, idx)
        else:
          est.fit(quads.copy(), weights=(w.tolist() if wkind == 'list' else w.copy()))
      L = np.asarray(est.components_)
      M = L.T.dot(L)
      # the DOCUMENTED prior, computed without the library where the documentation defines it (the harness's own copy of a
      # user array; identity; inverse covariance of the DISTINCT points of the quadruplets); 'random' is read from the
      # library's generator
      if prior_kind == 'array':
        M0 = prior.copy()
      elif prior_kind == 'identity':
        M0 = np.eye(quads.shape[2])
      elif prior_kind == 'covariance':
        M0 = np.linalg.inv(np.atleast_2d(np.cov(np.unique(np.vstack(quads), axis=0), rowvar=False)))
      else:
        M0 = _initialize_metric_mahalanobis(quads, prior, random_state=seed, strict_pd=True, matrix_name='prior')
      vab = quads[:, 0] - quads[:, 1]
      vcd = quads[:, 2] - quads[:, 3]
      ww = np.ones(nq) if w is None else w
      g, q1, q2 = witnesses(M, vab, vcd)
      g0, _, _ = witnesses(M0, vab, vcd)
      R, R0 = np.linalg.cholesky(M).T, np.linalg.cholesky(M0).T
      ev.update(L=dym(L), M0=dym(M0), vab=dym(vab), vcd=dym(vcd), w=dyv(ww), wn=dyv(ww / ww.sum()), g=dyv(g), g0=dyv(g0),
                q1=dyv(q1), q2=dyv(q2), P=dym(np.linalg.inv(M)), P0=dym(np.linalg.inv(M0)), chol=dym(R), chol0=dym(R0),
                logs=dyv(np.log(np.diag(R))), logs0=dyv(np.log(np.diag(R0))), n_iter=int(est.n_iter_))
      if w is not None and not supervised:
        c = float(rng.choice([0.125, 3.0, 64.0]))
        e2 = gen.LSML(tol=tol, max_iter=max_iter, prior=prior_arg, random_state=seed).fit(quads.copy(), weights=w * c)
        ev['L_scaled'] = dym(e2.components_)
        ev['has_scaled'] = True
    except Exception as e:
      ev['exc'] = type(e).__name__
      ev['exc_msg'] = str(e)[:160]
  return ev


def gen_trace(recipe):
  rng = np.random.default_rng(recipe['seed'])
  return {'est': 'LSML', 'events': [gen_case(rng, recipe['supervised']) for _ in range(recipe['n'])]}


def signature_of(recipe, tr, clause, pos):
  e = tr['events'][pos - 1] if 0 < pos <= len(tr['events']) else {}
  return {'supervised': bool(e.get('supervised')), 'weights': e.get('wkind'), 'mode': e.get('mode')}


def run(ctx):
  ctx.model('MC_LSML', 'MC_LSML.cfg', workers=8)
  rng = np.random.default_rng(ctx.seed + 12)
  rs = []
  for i in range(16 if ctx.quick else 576):
    rs.append(dict(supervised=bool(i % 4 == 3), n=5 if ctx.quick else 10, seed=int(rng.integers(1 << 30))))
  ctx.rule = ('random quadruplet sets x priors {identity, covariance, random, SPD array} x weights {None, array, list} x tol in '
              '{1e-3, 1e-5} x {run to the stopping rule, 1-3 iterations, all constraints satisfied under any metric}; LSML and '
              'LSML_Supervised; distinct by event content; non-trivial = at least one violated constraint at the result')
  pairs = core.generate(MOD, rs)
  core.judge(ctx, *SPEC, pairs, signature_of)
  for r, t in pairs:
    for e in t['events']:
      ctx.note_case((str(e.get('vab'))[:80], e['mode'], e['prior_kind'], e['wkind']), nontrivial=any(x[0] == 1 for x in e.get('g', [])))
  ctx.sample({k: str(v)[:140] for k, v in pairs[0][1]['events'][0].items()})
  good = pairs[0][1]

  def worse_than_prior(t):
    for e in t['events']:
      if e.get('logs'):
        e['logs'] = [[-1, 2, [5]] for _ in e['logs']]        # pretend logdet M is hugely negative: f(M) >> f(M0)
  core.selftest_binding(ctx, *SPEC, good, worse_than_prior, 'C12.objective', 'objective_worse_than_prior')


def replay(path, frozen=False):
  return core.standard_replay(MOD, PID, *SPEC, path, frozen)
