"""C12 - LSML descends its convex objective from the prior to a stationary point.

Model: MC_LSML (line-search machine over an abstract loss oracle).  Conformance: real LSML / LSML_Supervised
fits x priors x weights (None / list / array, any positive scale) x tol x max_iter; TLC (TR_LSML) verifies the
witnesses (inverses, Cholesky factors, roots, quotients, normalised weights; logs of the Cholesky diagonals are a
libm table) and evaluates: SPD, f(M) <= f(prior), prior returned when no constraint is violated under it,
||grad f(M)||_F <= tol when the solver stopped before max_iter (WEIGHTED gradient), scale invariance of weights.
"""
import warnings
import numpy as np
import scipy.linalg

import core
import gen
from num import dy, dyv, dym
from metric_learn._util import _initialize_metric_mahalanobis

MOD = 'checks.c12'
SPEC = ('TR_LSML', 'TR_LSML.cfg')
PID = 'C12'


def witnesses(M, vab, vcd):
  dab = np.einsum('ij,jk,ik->i', vab, M, vab)
  dcd = np.einsum('ij,jk,ik->i', vcd, M, vcd)
  g = np.sqrt(np.maximum(dab * dcd, 0))
  with np.errstate(divide='ignore', invalid='ignore'):
    q1 = np.where(dab > 0, g / dab, 0.0)
    q2 = np.where(dcd > 0, g / dcd, 0.0)
  return g, q1, q2


def gen_case(rng, supervised, high_dim=0, small_prior=False):
  d = int(rng.integers(2, 5))
  X, y = gen.dataset(rng, d=d, n_classes=int(rng.integers(2, 4)), bits=5, sep=float(rng.choice([1.0, 2.5])))
  if high_dim:
    # MANY features and a well-conditioned prior of small eigenvalues (2^-10 I): its determinant is far below the smallest
    # double although nothing about the problem is degenerate
    d = int(high_dim)
    X = gen.grid(rng.normal(size=(48, d)) + np.repeat(np.eye(2, d), 24, axis=0), bits=3)
    y = np.repeat([0, 1], 24)
  prior_kind = str(rng.choice(['identity', 'covariance', 'random', 'array']))
  if prior_kind == 'array':
    A = rng.normal(size=(d, d))
    prior = gen.grid(A.T.dot(A) + np.eye(d), bits=5)
  else:
    prior = prior_kind
  prior_scale = 'unit'
  if small_prior:
    # the directed instance of the open finding D29
    supervised, prior_kind, prior = False, 'array', np.eye(d) * 2.0 ** -18
    prior_scale = 'small'
  elif prior_kind == 'array' and not supervised and rng.random() < 0.2:
    # an SPD array prior of SMALL scale (an exact power of two): LSML's trial steps are absolute (1e-10 .. 1 along the normalised
    # gradient) and its tol is absolute - see the open finding D29
    prior = prior * 2.0 ** -18
    prior_scale = 'small'
  if high_dim:
    prior_kind, prior = 'array', np.eye(d) * 2.0 ** -10
  prior_arg = gen.layout(rng, prior) if isinstance(prior, np.ndarray) else prior      # what the estimator gets (any memory layout)
  seed = int(rng.integers(1000))
  mode = str(rng.choice(['run', 'run', 'few', 'prior_feasible']))
  tol = float(rng.choice([1e-3, 1e-5]))
  max_iter = int(rng.integers(1, 4)) if mode == 'few' else 2000
  wkind = str(rng.choice(['none', 'array', 'list']))
  if high_dim:
    mode, tol, max_iter, wkind, supervised = 'high_dim', 1e-2, 40, 'none', False
  if small_prior:
    mode, tol, max_iter, wkind = 'run', 1e-3, 2000, 'none'
  if supervised:
    n_c = int(rng.integers(6, 14))
    est = gen.LSML_Supervised(tol=tol, max_iter=max_iter, prior=prior_arg, n_constraints=n_c, random_state=seed)
    from metric_learn.constraints import Constraints
    cons = Constraints(y).positive_negative_pairs(n_c, same_length=True, random_state=seed)
    quads = X[np.column_stack(cons)]
  else:
    idx = gen.quadruplets_from(rng, X, y, int(rng.integers(6, 16)))
    if mode == 'prior_feasible':
      idx = idx[:, [0, 0, 2, 3]]          # d(a,a) = 0 <= d(c,d): every constraint holds under any metric
      idx[:, 1] = idx[:, 0]
    quads = X[idx]
    est = gen.LSML(tol=tol, max_iter=max_iter, prior=prior_arg, random_state=seed)
  nq = len(quads)
  w = None
  if wkind != 'none':
    w = np.round(rng.random(nq) * 8 + 1) / 4.0
  ev = {'ev': 'LsmlFit', 'supervised': bool(supervised), 'mode': mode, 'prior_kind': prior_kind, 'wkind': wkind, 'exc': '', 'prior_scale': prior_scale,
        'tol': dy(tol), 'max_iter': max_iter, 'n_iter': 0, 'has_scaled': False, 'L_scaled': []}
  with warnings.catch_warnings():
    warnings.simplefilter('ignore')
    try:
      if supervised:
        if w is not None:
          est.set_params(weights=(w.tolist() if wkind == 'list' else w))
        est.fit(X.copy(), y.copy())
      else:
        if w is None:
          est, ev['how'] = gen.fit_tuples_via(rng, est, X, idx)
        else:
          est.fit(quads.copy(), weights=(w.tolist() if wkind == 'list' else w.copy()))
      L = np.asarray(est.components_)
      M = L.T.dot(L)
      # the DOCUMENTED prior, computed without the library where the documentation defines it (the harness's own copy of a
      # user array; identity; inverse covariance of the DISTINCT points of the quadruplets); 'random' is read from the
      # library's generator
      if prior_kind == 'array':
        M0 = prior.copy()
      elif prior_kind == 'identity':
        M0 = np.eye(quads.shape[2])
      elif prior_kind == 'covariance':
        M0 = np.linalg.inv(np.atleast_2d(np.cov(np.unique(np.vstack(quads), axis=0), rowvar=False)))
      else:
        M0 = _initialize_metric_mahalanobis(quads, prior, random_state=seed, strict_pd=True, matrix_name='prior')
      vab = quads[:, 0] - quads[:, 1]
      vcd = quads[:, 2] - quads[:, 3]
      ww = np.ones(nq) if w is None else w
      g, q1, q2 = witnesses(M, vab, vcd)
      g0, _, _ = witnesses(M0, vab, vcd)
      R, R0 = np.linalg.cholesky(M).T, np.linalg.cholesky(M0).T
      ev.update(L=dym(L), M0=dym(M0), vab=dym(vab), vcd=dym(vcd), w=dyv(ww), wn=dyv(ww / ww.sum()), g=dyv(g), g0=dyv(g0),
                q1=dyv(q1), q2=dyv(q2), P=dym(np.linalg.inv(M)), P0=dym(np.linalg.inv(M0)), chol=dym(R), chol0=dym(R0),
                logs=dyv(np.log(np.diag(R))), logs0=dyv(np.log(np.diag(R0))), n_iter=int(est.n_iter_))
      if w is not None and not supervised:
        c = float(rng.choice([0.125, 3.0, 64.0]))
        e2 = gen.LSML(tol=tol, max_iter=max_iter, prior=prior_arg, random_state=seed).fit(quads.copy(), weights=w * c)
        ev['L_scaled'] = dym(e2.components_)
        ev['has_scaled'] = True
    except Exception as e:
      ev['exc'] = type(e).__name__
      ev['exc_msg'] = str(e)[:160]
  return ev


class CallProbe:
  """records every _total_loss / _gradient call of the LSML solver (no source change)"""
  def __init__(self):
    import metric_learn.lsml as lsml_mod
    self.cls = lsml_mod._BaseLSML
    self.o_loss, self.o_grad = self.cls._total_loss, self.cls._gradient
    self.calls = []

  def __enter__(self):
    pr = self

    def loss(self_, metric, vab, vcd, prior_inv):
      Mc = np.array(metric, float).copy()
      v = pr.o_loss(self_, metric, vab, vcd, prior_inv)
      pr.calls.append(('loss', Mc, float(v), None))
      return v

    def grad(self_, metric, vab, vcd, prior_inv):
      Mc = np.array(metric, float).copy()
      g = pr.o_grad(self_, metric, vab, vcd, prior_inv)
      pr.calls.append(('grad', Mc, float(scipy.linalg.norm(g)), np.array(g, float).copy()))
      return g
    self.cls._total_loss, self.cls._gradient = loss, grad
    return self

  def __exit__(self, *a):
    self.cls._total_loss, self.cls._gradient = self.o_loss, self.o_grad


def gen_run_case(rng):
  """one real LSML fit with its complete call history, for the line-search machine of LSML.tla (growth, clauses G12)"""
  d = int(rng.integers(2, 4))
  X, y = gen.dataset(rng, d=d, n_classes=int(rng.integers(2, 4)), bits=4, sep=float(rng.choice([1.0, 2.5])))
  idx = gen.quadruplets_from(rng, X, y, int(rng.integers(5, 12)))
  quads = X[idx]
  prior_kind = str(rng.choice(['identity', 'array']))
  if prior_kind == 'array':
    A = rng.normal(size=(d, d))
    prior = gen.grid(A.T.dot(A) + np.eye(d), bits=4)
  else:
    prior = 'identity'
  tol = float(rng.choice([1e-3, 0.05, 0.3]))
  max_iter = int(rng.integers(1, 7))
  ev = {'ev': 'LsmlRun', 'exc': '', 'supervised': False, 'mode': 'machine', 'prior_kind': prior_kind, 'wkind': 'none',
        'tol': dy(tol), 'max_iter': max_iter, 'n_iter': 0, 'L': [], 'M0': dym(np.eye(d) if prior_kind == 'identity' else prior),
        'steps': dyv(np.logspace(-10, 0, 10)), 'calls': []}
  with warnings.catch_warnings():
    warnings.simplefilter('ignore')
    try:
      with CallProbe() as pr:
        est = gen.LSML(tol=tol, max_iter=max_iter, prior=prior if prior_kind == 'identity' else prior.copy()).fit(quads.copy())
      ev['L'] = dym(np.asarray(est.components_))
      ev['n_iter'] = int(est.n_iter_)
      cur, gcur, gn = None, None, None
      for kind, Mc, val, G in pr.calls:
        noclip = False
        if kind == 'grad':
          cur, gcur, gn, k = Mc, G, val, 0
        elif cur is not None and gcur is not None:
          # (hint only: the un-projected trial is comfortably positive definite, so the projection left it alone)
          raw = cur - (np.logspace(-10, 0, 10)[min(k, 9)] / gn) * gcur
          noclip = bool(np.linalg.eigvalsh((raw + raw.T) / 2).min() > 1e-6)
          k += 1
        ev['calls'].append({'kind': kind, 'M': dym(Mc), 'val': dy(val), 'G': dym(G) if G is not None else [], 'noclip': noclip})
    except Exception as e:
      ev['exc'] = type(e).__name__
      ev['exc_msg'] = str(e)[:160]
  return ev


def gen_trace(recipe):
  rng = np.random.default_rng(recipe['seed'])
  if recipe.get('machine'):
    return {'est': 'LSML', 'events': [gen_run_case(rng) for _ in range(recipe['n'])]}
  return {'est': 'LSML', 'events': [gen_case(rng, recipe['supervised'], recipe.get('high_dim', 0), bool(recipe.get('small_prior'))) for _ in range(recipe['n'])]}


def signature_of(recipe, tr, clause, pos):
  e = tr['events'][pos - 1] if 0 < pos <= len(tr['events']) else {}
  return {'supervised': bool(e.get('supervised')), 'weights': e.get('wkind'), 'mode': e.get('mode'), 'prior_scale': e.get('prior_scale', 'unit')}


def run(ctx):
  ctx.model('MC_LSML', 'MC_LSML.cfg', workers=8)
  rng = np.random.default_rng(ctx.seed + 12)
  rs = []
  for i in range(16 if ctx.quick else 576):
    rs.append(dict(supervised=bool(i % 4 == 3), n=5 if ctx.quick else 10, seed=int(rng.integers(1 << 30))))
  rs.append(dict(supervised=False, small_prior=True, n=3, seed=int(rng.integers(1 << 30))))          # (open finding D29, directed)
  # MANY features (110) with the well-conditioned prior 2^-10 I: det(prior) = 2^-1100 is far below the smallest double
  for _ in range(1 if ctx.quick else 4):
    rs.append(dict(supervised=False, high_dim=110, n=1, seed=int(rng.integers(1 << 30))))
  ctx.rule = ('random quadruplet sets x priors {identity, covariance, random, SPD array} x weights {None, array, list} x tol in '
              '{1e-3, 1e-5} x {run to the stopping rule, 1-3 iterations, all constraints satisfied under any metric}; LSML and '
              'LSML_Supervised; distinct by event content; non-trivial = at least one violated constraint at the result')
  pairs = core.generate(MOD, rs)
  core.judge(ctx, *SPEC, pairs, signature_of)
  for r, t in pairs:
    for e in t['events']:
      ctx.note_case((str(e.get('vab'))[:80], e['mode'], e['prior_kind'], e['wkind']), nontrivial=any(x[0] == 1 for x in e.get('g', [])))
  ctx.sample({k: str(v)[:140] for k, v in pairs[0][1]['events'][0].items()})
  good = pairs[0][1]
  # ---- growth of the specification: complete call histories of real fits followed by the line-search machine (G12)
  mrs = [dict(machine=True, supervised=False, n=4 if ctx.quick else 8, seed=int(rng.integers(1 << 30))) for _ in range(6 if ctx.quick else 120)]
  mpairs = core.generate(MOD, mrs)
  core.judge(ctx, *SPEC, mpairs, signature_of, tag='machine')
  for r, t in mpairs:
    for e in t['events']:
      ctx.note_case(('machine', str(e['M0'])[:60], str(e['tol']), e['max_iter'], len(e['calls'])), nontrivial=len(e['calls']) > 12)
  ctx.extra['line_search_histories'] = sum(len(t['events']) for _, t in mpairs)
  ctx.extra['line_search_calls_followed'] = sum(len(e['calls']) for _, t in mpairs for e in t['events'])

  def moved_trial(t):
    for e in t['events']:
      for c in e['calls'][2:3]:
        c['M'] = [[[x[0], x[1] + 1, x[2]] if x[0] in (1, -1) else x for x in row] for row in c['M']]
        c['noclip'] = True
  mgood = next(t for r, t in mpairs if all(len(e['calls']) > 11 and not e['exc'] for e in t['events'][:1]))
  core.selftest_binding(ctx, *SPEC, mgood, moved_trial, 'G12.', 'trial_point_moved_off_the_step_grid')

  def worse_than_prior(t):
    for e in t['events']:
      if e.get('logs'):
        e['logs'] = [[-1, 2, [5]] for _ in e['logs']]        # pretend logdet M is hugely negative: f(M) >> f(M0)
  core.selftest_binding(ctx, *SPEC, good, worse_than_prior, 'C12.objective', 'objective_worse_than_prior')


def replay(path, frozen=False):
  return core.standard_replay(MOD, PID, *SPEC, path, frozen)
