"""C20 - PSD matrices are converted, validated and initialised as documented.

Model: MC_PSD enumerates symmetric matrices M = Vs diag(w) Vs^T with exact scaled-orthogonal Vs and integer
spectra of every sign pattern and rank (sizes 2, 3).  spec -> code: every state (plus random matrices up to
8x8 built from products of Pythagorean Givens rotations, spectra spanning 2^+-40, near-PSD inside / clearly
outside the tolerance, broken symmetry) goes through components_from_metric; the prior / init constructors are
observed directly.  TLC (TR_PSD) checks the spectral certificate exactly, derives the documented outcome from
the spectrum and the tolerance, and checks L^T L = M, Penrose / inverse / Cholesky certificates, seed
reproducibility, the auto-selection rule (Options!AutoSelect) and the shape checks.
"""
import os
import re
import warnings
import numpy as np

import core
import gen
import tlaval
from num import dy, dyv, dym
from metric_learn._util import (components_from_metric, _initialize_metric_mahalanobis,
                                _initialize_components)

MOD = 'checks.c20'
SPEC = ('TR_PSD', 'TR_PSD.cfg')
PID = 'C20'


def outcome_of(fn):
  with warnings.catch_warnings():
    warnings.simplefilter('ignore')
    try:
      return 'ok', fn()
    except Exception as e:
      return type(e).__name__, None


def givens_product(rng, d, k):
  """integer matrix Vs with Vs Vs^T = 25^k I: product of k Pythagorean Givens rotations and a signed permutation"""
  V = np.eye(d, dtype=object)
  perm = rng.permutation(d)
  P = np.zeros((d, d), dtype=object)
  for i, j in enumerate(perm):
    P[i, j] = int(rng.choice([-1, 1]))
  V = P
  for _ in range(k):
    i, j = (int(v) for v in rng.choice(d, size=2, replace=False))
    Gm = np.zeros((d, d), dtype=object)
    for t in range(d):
      Gm[t, t] = 5
    a, b = [(3, 4), (4, 3)][int(rng.integers(2))]
    Gm[i, i], Gm[i, j], Gm[j, i], Gm[j, j] = a, -b, b, a
    V = Gm.dot(V)
  return V, 25 ** k


def from_metric_event(Vs, s2, w, rng, tol=None, nonsym=False):
  """Vs: integer matrix (object / int), w: list of python floats/ints (dyadic), M = Vs diag(w) Vs^T exactly"""
  d = len(w)
  from fractions import Fraction
  W = [Fraction(x) for x in w]
  Mx = [[sum(Fraction(int(Vs[i][k])) * W[k] * Fraction(int(Vs[j][k])) for k in range(d)) for j in range(d)] for i in range(d)]
  M = np.array([[float(x) for x in row] for row in Mx])
  exact = all(Fraction(M[i, j]) == Mx[i][j] for i in range(d) for j in range(d))
  if not exact:
    return None
  Marg = M.copy()
  if nonsym:
    i, j = (0, 1)
    Marg[i, j] = Marg[i, j] + max(1.0, np.abs(M).max())
  out, L = outcome_of(lambda: components_from_metric(Marg, tol) if tol is not None else components_from_metric(Marg))
  return {'ev': 'FromMetric', 'Vs': [[dy(int(v)) for v in row] for row in Vs], 's2': dy(int(s2)), 'w': dyv(w),
          'Msym': dym(M), 'nonsym': bool(nonsym), 'tol_given': tol is not None, 'tol': dy(tol if tol is not None else 0.0),
          'outcome': out, 'L': dym(L) if L is not None else [], 'd': d}


def pinv_event(rng):
  """_pseudo_inverse_from_eig on an exact eigen-decomposition: spectra over many orders of magnitude, exact zeros,
  eigenvalues far below / far above the cut-off, default and explicit tol"""
  from metric_learn._util import _pseudo_inverse_from_eig
  d = int(rng.integers(1, 7))
  k = int(rng.integers(0, 3)) if d > 1 else 0
  Vs, s2 = givens_product(rng, d, k) if d > 1 else (np.array([[1]], dtype=object), 1)
  mag = float(2.0 ** int(rng.integers(-70, 41)))            # (spectra far below 1 in absolute terms: the cut-off is RELATIVE)
  kind = str(rng.choice(['full', 'exact_zeros', 'roundoff_zeros', 'wide', 'explicit_tol']))
  w = [float(rng.integers(1, 2000)) * mag for _ in range(d)]
  tol = None
  if kind == 'exact_zeros':
    for i in rng.choice(d, size=max(1, d // 2), replace=False):
      w[int(i)] = 0.0
  elif kind == 'roundoff_zeros' and d > 1:
    # what an eigen-solver returns for a null direction: +-(a small multiple of eps/64) * largest eigenvalue
    for i in rng.choice(d, size=max(1, d // 3), replace=False):
      w[int(i)] = float(rng.choice([-1, 1])) * max(w) * 2.0 ** -58 * float(rng.integers(1, 8))
  elif kind == 'wide':
    w = [float(2.0 ** int(rng.integers(-30, 31))) * mag for _ in range(d)]      # all far above the cut-off or far below
    w = [x if (x > max(w) * 2.0 ** -40 or x < max(w) * 2.0 ** -56) else max(w) for x in w]
  elif kind == 'explicit_tol':
    tol = float(sorted(w)[d // 2]) * 3.0 if d > 1 else w[0] / 4.0
  w = sorted(w)
  V = np.array([[float(int(v)) for v in row] for row in Vs]) / np.sqrt(float(s2))
  warr = np.array(w, dtype=float)
  out, P = outcome_of(lambda: _pseudo_inverse_from_eig(warr.copy(), V.copy()) if tol is None
                      else _pseudo_inverse_from_eig(warr.copy(), V.copy(), tol))
  return {'ev': 'PseudoInverse', 'Vs': [[dy(int(v)) for v in row] for row in Vs], 's2': dy(int(s2)), 'w': dyv(w), 'kind': kind,
          'tol_given': tol is not None, 'tol': dy(tol if tol is not None else 0.0), 'outcome': out,
          'P': dym(P) if P is not None else []}


def gen_trace(recipe):
  rng = np.random.default_rng(recipe['seed'])
  events = []
  if recipe['src'] == 'mc':
    for (Vs, w) in recipe['cases']:
      sc = float(2.0 ** int(rng.integers(-6, 7)))
      e = from_metric_event(Vs, 25, [x * sc for x in w], rng)
      if e:
        events.append(e)
  elif recipe['src'] == 'random_matrices':
    for _ in range(recipe['n']):
      d = int(rng.integers(1, 9))
      k = int(rng.integers(0, 3)) if d > 1 else 0
      Vs, s2 = givens_product(rng, d, k) if d > 1 else (np.array([[1]], dtype=object), 1)
      kind = str(rng.choice(['pd', 'psd_singular', 'indefinite', 'near_psd_tol', 'outside_tol', 'diag', 'diag_near_psd', 'diag_zero_tol', 'nonsym', 'wide']))
      mag = float(2.0 ** int(rng.integers(-20, 21)))
      w = [float(rng.integers(1, 2000)) * mag for _ in range(d)]
      tol = None
      nonsym = False
      if kind == 'psd_singular':
        for i in rng.choice(d, size=max(1, d // 2), replace=False):
          w[int(i)] = 0.0
      elif kind == 'indefinite':
        w[int(rng.integers(d))] *= -1.0
      elif kind == 'near_psd_tol':
        tol = float(max(w)) * 2.0 ** -10 * s2
        w[int(rng.integers(d))] = -tol / s2 / 16.0       # eigenvalue = -tol/16: inside the tolerance
      elif kind == 'outside_tol':
        tol = float(max(w)) * 2.0 ** -10 * s2
        w[int(rng.integers(d))] = -tol / s2 * 16.0       # eigenvalue = -16 tol: clearly outside
      elif kind == 'diag':
        Vs, s2 = np.array([[1 if i == j else 0 for j in range(d)] for i in range(d)], dtype=object), 1
        if rng.random() < 0.5:
          w[int(rng.integers(d))] *= -1.0
      elif kind == 'diag_near_psd':
        # a DIAGONAL matrix that is PSD up to rounding only: one entry slightly negative, inside the (default or explicit) tolerance
        Vs, s2 = np.array([[1 if i == j else 0 for j in range(d)] for i in range(d)], dtype=object), 1
        if rng.random() < 0.5:
          tol = float(max(w)) * 2.0 ** -10
          w[int(rng.integers(d))] = -tol / 16.0
        else:
          w[int(rng.integers(d))] = -float(max(w)) * 2.0 ** -60        # far inside the default tolerance d * eps * max
      elif kind == 'diag_zero_tol':
        # an explicit tolerance of exactly ZERO (0.0 or the integer 0): a diagonal matrix with one entry at -2^-60 of the
        # largest is then NOT positive semi-definite (its eigenvalues are its entries, exactly), a PSD one still is
        Vs, s2 = np.array([[1 if i == j else 0 for j in range(d)] for i in range(d)], dtype=object), 1
        tol = [0.0, 0][int(rng.integers(2))]
        if rng.random() < 0.7:
          w[int(rng.integers(d))] = -float(max(w)) * 2.0 ** -60
      elif kind == 'nonsym':
        nonsym = d > 1
      elif kind == 'wide':
        w = [float(2.0 ** int(rng.integers(-40, 41))) for _ in range(d)]
      e = from_metric_event(Vs, s2, w, rng, tol=tol, nonsym=nonsym)
      if e:
        e['kind'] = kind
        events.append(e)
  elif recipe['src'] == 'pinv':
    events = [pinv_event(rng) for _ in range(recipe['n'])]
  elif recipe['src'] == 'init_metric':
    for _ in range(recipe['n']):
      d = int(rng.integers(2, 7))
      X, y = gen.dataset(rng, d=d)
      # unscaled features: standardised data (all the suite uses), tiny and large magnitudes (an exact power of two keeps the grid)
      xscale = float(2.0 ** int(rng.choice([0, 0, -12, -6, 8, 15])))
      X = X * xscale
      idx, lab = gen.pairs_from(rng, X, y, 3 * d + 6)
      as_tuples = bool(rng.integers(2))
      tsize = int(rng.choice([2, 2, 3, 4]))
      if tsize > 2:
        # triplets / quadruplets drawn from the point set (points shared between tuples, some only in the 3rd / 4th position)
        idx = np.array([rng.choice(len(X), size=tsize, replace=False) for _ in range(2 * d + 4)])
      inp = X[idx] if as_tuples else X                     # tuples: points repeat -> must be de-duplicated
      pts = np.vstack(inp) if as_tuples else X
      seed = int(rng.integers(1000))
      for init in ['identity', 'covariance', 'random']:
        strict = bool(rng.integers(2))
        out, res = outcome_of(lambda: _initialize_metric_mahalanobis(inp, init, random_state=seed, return_inverse=True,
                                                                     strict_pd=strict))
        ev = {'ev': 'InitMetric', 'init': init, 'd': d, 'strict': strict, 'outcome': out, 'pts': dym(pts) if init == 'covariance' else [],
              'M': dym(res[0]) if res else [], 'M2': [], 'chol': [], 'arr': [], 'arr_class': ''}
        if init == 'random' and res:
          o2, r2 = outcome_of(lambda: _initialize_metric_mahalanobis(inp, init, random_state=seed))
          ev['M2'] = dym(r2)
          ev['chol'] = dym(np.linalg.cholesky(res[0]).T)
        events.append(ev)
        if res:
          events.append({'ev': 'Inverse', 'd': d, 'M': dym(res[0]), 'Minv': dym(res[1])})
      A = rng.normal(size=(d, d))
      spd = gen.grid(A.T.dot(A) + np.eye(d))
      sing = spd.copy()
      v = np.zeros(d); v[0] = 1.0
      # exactly singular PSD matrices whose singularity does not depend on the eigen-solver's rounding: a PD block
      # bordered by an exactly zero row/column (the solver returns an exact 0), or the zero matrix.  A generic
      # rank-deficient B^T B is NOT generated: its computed smallest eigenvalue is of the order of the tolerance
      # (d * eps * max eigenvalue), i.e. in the band where rounding decides.
      sing = np.zeros((d, d))
      if rng.random() < 0.8:
        sing[:d - 1, :d - 1] = spd[:d - 1, :d - 1]
      # the inverse returned with an array prior, over a wide range of magnitudes
      for sc in (1.0, float(2.0 ** int(rng.integers(-30, -5))), float(2.0 ** int(rng.integers(5, 31)))):
        out, res = outcome_of(lambda: _initialize_metric_mahalanobis(inp, gen.layout(rng, spd * sc), random_state=seed, return_inverse=True))
        if res:
          events.append({'ev': 'Inverse', 'd': d, 'M': dym(res[0]), 'Minv': dym(res[1])})
      nonsym = spd.copy(); nonsym[0, 1] += 1.0
      indef = spd.copy(); indef[0, 0] = -5.0 * abs(spd).max()
      wrong = np.eye(d + 1)
      for cls_, arr in [('spd', spd), ('singular', sing), ('nonsym', nonsym), ('indefinite', indef), ('wrongshape', wrong)]:
        for strict in (False, True):
          # (the user's array in any memory layout: C, Fortran, transposed or strided view - the same numbers)
          out, res = outcome_of(lambda: _initialize_metric_mahalanobis(inp, gen.layout(rng, arr), random_state=seed, strict_pd=strict))
          events.append({'ev': 'InitMetric', 'init': 'array', 'd': d, 'strict': strict, 'outcome': out, 'pts': [],
                         'M': dym(res) if res is not None else [], 'M2': [], 'chol': [], 'arr': dym(arr), 'arr_class': cls_})
      # an SPD array is an SPD array whatever its dtype: integer-typed priors through the learners that take one
      spd_i = np.round(spd * 2.0).astype(np.int64)
      spd_i = (spd_i + spd_i.T) // 2 + d * np.eye(d, dtype=np.int64)
      # (on unit-scale data only: an O(1) prior with features of magnitude 2^15 makes the iterative learners ill-conditioned
      #  enough for a change of summation order to show at the percent level)
      if xscale == 1.0 and np.linalg.eigvalsh(spd_i.astype(float)).min() > 0.5:
        for name, key in (('ITML', 'prior'), ('LSML', 'prior'), ('SDML', 'prior'), ('MMC', 'init')):
          tr = gen.training(rng, name, X=X, y=y)
          o = dict(gen.FAST[name])
          if name == 'SDML':
            o['balance_param'] = 2.0 ** -20
          oi, ri = outcome_of(lambda: gen.CLS[name](**dict(o, **{key: gen.layout(rng, spd_i)})).fit(*tr['fit_args']))
          of, rf = outcome_of(lambda: gen.CLS[name](**dict(o, **{key: spd_i.astype(float)})).fit(*tr['fit_args']))
          if of == 'ok':
            events.append({'ev': 'ArrayPriorDtype', 'via': name, 'outcome_int': oi, 'L_float': dym(rf.components_),
                           'L_int': dym(ri.components_) if ri is not None else []})
      # through learners that must reject a singular prior
      for name in ('ITML', 'LSML', 'SDML'):
        tr = gen.training(rng, name, X=X, y=y)
        o = dict(gen.FAST[name], prior=sing)
        out, res = outcome_of(lambda: gen.CLS[name](**o).fit(*tr['fit_args']))
        events.append({'ev': 'InitMetric', 'init': 'array', 'd': d, 'strict': True, 'outcome': out, 'pts': [], 'M': [], 'M2': [],
                       'chol': [], 'arr': dym(sing), 'arr_class': 'singular', 'via': name})
  elif recipe['src'] == 'init_components':
    for _ in range(recipe['n']):
      d = int(rng.integers(2, 7))
      ncls = int(rng.integers(2, 5))
      X, y = gen.dataset(rng, d=d, n_classes=ncls)
      n = len(X)
      seed = int(rng.integers(1000))
      for k in range(1, d + 1):
        def call(init, hc=True):
          return outcome_of(lambda: _initialize_components(k, X, y if hc else None, init, random_state=seed, has_classes=hc))
        base = {'ev': 'InitComponents', 'k': k, 'd': d, 'n': n, 'ncls': ncls, 'has_classes': True, 'L2': [], 'arr': [],
                'arr_class': '', 'cand_lda': [], 'cand_pca': [], 'cand_identity': []}
        for init in ['identity', 'random', 'pca']:
          out, L = call(init)
          ev = dict(base, init=init, outcome=out, L=dym(L) if L is not None else [])
          if init == 'random':
            ev['L2'] = dym(call(init)[1])
          events.append(ev)
        if k <= min(d, ncls - 1):
          out, L = call('lda')
          events.append(dict(base, init='lda', outcome=out, L=dym(L) if L is not None else []))
        for hc in (True, False):
          out, L = call('auto', hc)
          ev = dict(base, init='auto', has_classes=hc, outcome=out, L=dym(L) if L is not None else [])
          ev['cand_identity'] = dym(call('identity', hc)[1])
          ev['cand_pca'] = dym(call('pca', hc)[1])
          if hc and k <= min(d, ncls - 1):
            ev['cand_lda'] = dym(call('lda', hc)[1])
          events.append(ev)
      # WIDE data (fewer samples than features): the 'auto' rule compares n_components with min(n_features, n_samples)
      nw = int(rng.integers(4, 8))
      dw = nw + int(rng.integers(1, 4))
      Xw = gen.grid(rng.normal(size=(nw, dw)) + np.repeat(np.eye(2, dw) * 3.0, [nw // 2, nw - nw // 2], axis=0))
      yw = np.repeat([0, 1], [nw // 2, nw - nw // 2])
      for k in range(1, nw + 1):
        def callw(init, hc=True):
          return outcome_of(lambda: _initialize_components(k, Xw, yw if hc else None, init, random_state=seed, has_classes=hc))
        for hc in (True, False):
          out, L = callw('auto', hc)
          ev = {'ev': 'InitComponents', 'k': k, 'd': dw, 'n': nw, 'ncls': 2, 'has_classes': hc, 'L2': [], 'arr': [], 'arr_class': '',
                'cand_lda': [], 'cand_pca': [], 'cand_identity': [], 'init': 'auto', 'outcome': out, 'L': dym(L) if L is not None else []}
          ci, cp = callw('identity', hc)[1], callw('pca', hc)[1]
          ev['cand_identity'] = dym(ci) if ci is not None else []
          ev['cand_pca'] = dym(cp) if cp is not None else []
          if hc and k <= 1:
            cl = callw('lda', hc)[1]
            ev['cand_lda'] = dym(cl) if cl is not None else []
          events.append(ev)
      k = int(rng.integers(1, d + 1))
      arr = gen.grid(rng.normal(size=(k, d)))
      for cls_, a, kk in [('ok', arr, k), ('wrong_columns', gen.grid(rng.normal(size=(k, d + 1))), k),
                          ('more_rows_than_columns', gen.grid(rng.normal(size=(d + 1, d))), d + 1),
                          ('n_components_mismatch', arr, k + 1)]:
        out, L = outcome_of(lambda: _initialize_components(kk, X, y, a, random_state=seed))
        events.append({'ev': 'InitComponents', 'init': 'array', 'k': kk, 'd': d, 'n': n, 'ncls': ncls, 'has_classes': True,
                       'outcome': out, 'L': dym(L) if L is not None else [], 'L2': [], 'arr': dym(a), 'arr_class': cls_,
                       'cand_lda': [], 'cand_pca': [], 'cand_identity': []})
  return {'events': events}


def signature_of(recipe, tr, clause, pos):
  e = tr['events'][pos - 1] if 0 < pos <= len(tr['events']) else {}
  return {'event': e.get('ev'), 'init': e.get('init', e.get('kind', 'mc')), 'arr_class': e.get('arr_class', '')}


def load_states(ctx, wmax):
  cfgp = os.path.join(ctx.work, 'MC_PSD.cfg')
  with open(cfgp, 'w') as f:
    f.write('CONSTANTS WMax = %d\n P = 2\nINIT Init\nNEXT Next\n' % wmax)
    for i in ['Orthogonal', 'Symmetric', 'PSDIffSpectrum', 'NegativeWitness', 'VerdictTotal']:
      f.write('INVARIANT %s\n' % i)
    f.write('CHECK_DEADLOCK FALSE\n')
  dump = os.path.join(ctx.work, 'psd')
  r = core.run_tlc('MC_PSD', cfgp, ctx.work, workers=core.NCPU, extra=['-dump', dump])
  core.require_model_ok(r, 'MC_PSD')
  ctx.states += r.distinct
  ctx.transitions += r.generated
  ctx.cmds.append(r.cmd)
  ctx.models.append(dict(module='MC_PSD', WMax=wmax, distinct=r.distinct, generated=r.generated, wall_s=round(r.wall, 1)))
  out = []
  for m in re.finditer(r'State \d+:\s*\n(.*?)(?=\n\s*\n|\Z)', open(dump + '.dump').read(), re.S):
    st = tlaval.parse_state(m.group(1))
    out.append((st['Vs'], st['w']))
  return out


def run(ctx):
  states = load_states(ctx, 2 if ctx.quick else 3)
  ctx.exhaustive = True
  rng = np.random.default_rng(ctx.seed + 20)
  rs = []
  for i in range(0, len(states), 60):
    rs.append(dict(src='mc', cases=states[i:i + 60], seed=int(rng.integers(1 << 30))))
  for i in range(8 if ctx.quick else 400):
    rs.append(dict(src='random_matrices', n=60 if ctx.quick else 80, seed=int(rng.integers(1 << 30))))
  for i in range(6 if ctx.quick else 250):
    rs.append(dict(src='init_metric', n=3, seed=int(rng.integers(1 << 30))))
  for i in range(4 if ctx.quick else 250):
    rs.append(dict(src='pinv', n=60 if ctx.quick else 120, seed=int(rng.integers(1 << 30))))
  for i in range(6 if ctx.quick else 250):
    rs.append(dict(src='init_components', n=2, seed=int(rng.integers(1 << 30))))
  ctx.rule = ('all %d states of MC_PSD (sizes 2-3, spectra in -W..W, 6 exact orthogonal bases each) + random matrices of size '
              '1..8 with exact spectral certificate (pd / singular / indefinite / near-PSD inside and outside an explicit '
              'tolerance / diagonal / non-symmetric / spectra spanning 2^+-40) through components_from_metric; '
              '_pseudo_inverse_from_eig on exact eigen-decompositions (exact zeros, round-off zeros, wide spectra, explicit tol); prior '
              'options x strict_pd x array classes; transformation init options x n_components 1..d x auto rule x shape '
              'violations; distinct by event content; non-trivial = not the plain PD case' % len(states))
  pairs = core.generate(MOD, rs)
  core.judge(ctx, *SPEC, pairs, signature_of)
  for r, t in pairs:
    for e in t['events']:
      key = (e['ev'], e.get('init', e.get('kind', '')), e.get('arr_class', ''), str(e.get('w', e.get('k', '')))[:60], str(e.get('Msym', ''))[:60])
      ctx.note_case(key, nontrivial=not (e['ev'] == 'FromMetric' and e.get('kind') == 'pd'))
  ctx.sample({k: str(v)[:200] for k, v in pairs[0][1]['events'][0].items()})
  ctx.extra['events'] = sum(len(t['events']) for _, t in pairs)
  good = pairs[0][1]

  def wrong_factor(t):
    for e in t['events']:
      if e['ev'] == 'FromMetric' and e['outcome'] == 'ok' and len(e['L']) >= 2:
        e['L'] = [row[::-1] for row in e['L']]
        if e['L'] != [row[::-1] for row in e['L']][::1]:
          return
  core.selftest_binding(ctx, *SPEC, good, wrong_factor, 'C20.LtL', 'columns_of_L_reversed')


def replay(path, frozen=False):
  return core.standard_replay(MOD, PID, *SPEC, path, frozen)
