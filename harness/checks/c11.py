"""C11 - ITML returns the optimum of its LogDet program (KKT certificate).

Model: MC_ITML (the cyclic-projection machine in exact rational arithmetic, d = 1): duals stay >= 0, K2 and the
slack relation hold after every projection, every fixed point satisfies K3.  Conformance: real ITML /
ITML_Supervised fits on random pair sets x priors x gamma x bounds x (max_iter, tol); the duals and slack bounds
are read from the solver frame at return (sys.setprofile, no source change; NNLS fallback); TLC (TR_ITML)
verifies the witnesses and evaluates the certificate.
"""
import sys
import warnings
import numpy as np
import scipy.optimize

import core
import gen
from num import dy, dyv, dym
from metric_learn._util import _initialize_metric_mahalanobis
from metric_learn.constraints import Constraints, wrap_pairs

MOD = 'checks.c11'
SPEC = ('TR_ITML', 'TR_ITML.cfg')
PID = 'C11'


def run_with_frame(fn):
  cap = {}

  def prof(frame, event, arg):
    if event == 'return' and frame.f_code.co_name == '_fit' and frame.f_code.co_filename.endswith('itml.py'):
      loc = frame.f_locals
      for k in ('_lambda', 'pos_bhat', 'neg_bhat', 'pos_vv', 'neg_vv'):
        if k in loc:
          cap[k] = np.array(loc[k], dtype=float).copy()
  sys.setprofile(prof)
  try:
    fn()
  finally:
    sys.setprofile(None)
  return cap


def gen_case(rng, supervised, large_scale=False):
  d = int(rng.integers(2, 5))
  X, y = gen.dataset(rng, d=d, n_classes=int(rng.integers(2, 4)), bits=5, per_class=int(rng.integers(5, 18)))
  # raw features of any magnitude (an exact power of two keeps the grid): the multipliers scale like 1 / distance^2
  prior_kind = 'identity' if large_scale else str(rng.choice(['identity', 'covariance', 'random', 'array']))
  if prior_kind == 'array':
    A = rng.normal(size=(d, d))
    prior = gen.grid(A.T.dot(A) + np.eye(d), bits=5)
  else:
    prior = prior_kind
  prior_arg = gen.layout(rng, prior) if isinstance(prior, np.ndarray) else prior      # what the estimator gets (any memory layout)
  # raw features of any magnitude (an exact power of two keeps the grid): the multipliers scale like 1 / distance^2.
  # (with an O(1) array / random prior and data of magnitude 2^17 the optimum has a condition number beyond double
  # precision - the solver legitimately loses definiteness -, so those priors keep unit-scale data)
  scale = float(2.0 ** 14) if large_scale else (float(2.0 ** int(rng.choice([0, 0, 0, -7, 9, 14, 14]))) if prior_kind in ('identity', 'covariance') else 1.0)
  X = X * scale
  gamma = float(rng.choice([0.25, 1.0, 4.0, 64.0]))       # the stated quantifier is gamma in (0, inf)
  mode = 'converged' if large_scale else str(rng.choice(['converged', 'few_iterations', 'prior_feasible']))
  max_iter = int(rng.integers(1, 6)) if mode == 'few_iterations' else 3000
  tol = 1e-3 if mode == 'few_iterations' else 1e-12
  seed = int(rng.integers(1000))
  bounds = None
  if supervised:
    n_c = int(rng.integers(6, 14))
    if rng.random() < 0.5:
      # partially labelled data: negative class ids mean "unknown"; such samples take no part in any constraint
      y = y.copy()
      unk = rng.choice(len(y), size=max(1, len(y) // 5), replace=False)
      keep_ok = all((np.delete(y, unk) == c).sum() >= 2 for c in np.unique(y))
      if keep_ok:
        y[unk] = -1
    cons = Constraints(y).positive_negative_pairs(n_c, random_state=seed)
    pairs, lab = gen.documented_pairs(X, cons)
    # the constraints the wrapper may use are those the labels imply: both samples labelled, same class <=> similar
    ca, cb, cc, cd = (np.asarray(v, dtype=int) for v in cons)
    constraints_ok = bool(np.all(y[ca] >= 0) and np.all(y[cb] >= 0) and np.all(y[cc] >= 0) and np.all(y[cd] >= 0)
                          and np.all(y[ca] == y[cb]) and np.all(y[cc] != y[cd]))
  else:
    idx, lab = gen.pairs_from(rng, X, y, int(rng.integers(6, 16)))
    pairs = X[idx]
  if mode == 'prior_feasible':
    bounds = np.array([1e6, 1e-6]) * scale * scale      # every similar pair is closer than the upper, every dissimilar farther than the lower bound
  elif large_scale or rng.random() < 0.8 or len(np.unique(np.vstack(pairs), axis=0)) < 30:
    # explicit bounds; the default (5th / 95th percentile of ALL pairwise distances of the points OF THE PAIRS, zero diagonal
    # included) is only used when these are >= 30 points, where the 5th percentile is not the diagonal's zero
    dd = np.sqrt(((pairs[:, 0] - pairs[:, 1]) ** 2).sum(1))
    # (the bounds constrain v^T M v: they live on the SQUARED distance scale)
    s2 = scale * scale
    bounds = s2 * np.array([float(np.round(np.percentile(dd ** 2, 30) / s2 * 8) / 8 + 0.125), float(np.round(np.percentile(dd ** 2, 70) / s2 * 8) / 8 + 0.25)])
  bounds_arg = None if bounds is None else bounds.copy()
  if bounds is not None and mode != 'prior_feasible' and scale == 1.0 and rng.random() < 0.4:
    # bounds typed as INTEGERS (a tuple / list / int array of whole numbers is a documented way to give them)
    bounds = np.ceil(bounds) + np.array([0.0, 1.0])
    bounds_arg = [[int(v) for v in bounds], tuple(int(v) for v in bounds), bounds.astype(np.int64)][int(rng.integers(3))]
  ev = {'ev': 'ItmlFit', 'supervised': bool(supervised), 'mode': mode, 'prior_kind': prior_kind, 'exc': '',
        'constraints_ok': bool(constraints_ok) if supervised else True,
        'gamma_inf': bool(np.isinf(gamma)), 'gamma': dy(0.0 if np.isinf(gamma) else gamma), 'max_iter': max_iter,
        'tight_tol': bool(tol <= 1e-9), 'n_iter': 0, 'L': [], 'M0': [], 'P': [], 'P0': [], 'chol': [], 'v': [], 'y': [],
        'lam': [], 'xi': [], 'has_xi': False, 'bounds': [], 'lam_source': ''}
  with warnings.catch_warnings():
    warnings.simplefilter('ignore')
    try:
      if prior_kind == 'array' and rng.random() < 0.5:
        # the user's prior array has been used before (a hand-written gamma sweep, another estimator sharing it):
        # the program solved below is still the one for the prior the user specified
        gen.ITML(gamma=4.0 * gamma, max_iter=50, prior=prior_arg, random_state=seed).fit(pairs.copy(), lab.copy())
        ev['prior_array_used_before'] = True
      if supervised:
        est = gen.ITML_Supervised(gamma=gamma, max_iter=max_iter, tol=tol, prior=prior_arg, n_constraints=n_c, random_state=seed)
        cap = run_with_frame(lambda: est.fit(X.copy(), y.copy(), bounds=bounds_arg))
      else:
        est = gen.ITML(gamma=gamma, max_iter=max_iter, tol=tol, prior=prior_arg, random_state=seed)
        how = {}
        cap = run_with_frame(lambda: how.update(how=gen.fit_tuples_via(rng, est, X, idx, lab, bounds=bounds_arg)[1]))
        ev['how'] = how.get('how', '')
      L = np.asarray(est.components_)
      M = L.T.dot(L)
      # the DOCUMENTED prior, computed without the library where the documentation defines it (the harness's own copy of
      # a user array; identity; inverse covariance of the distinct points); 'random' is read from the library's generator
      if prior_kind == 'array':
        M0 = prior.copy()
      elif prior_kind == 'identity':
        M0 = np.eye(d)
      elif prior_kind == 'covariance':
        M0 = np.linalg.inv(np.atleast_2d(np.cov(np.unique(np.vstack(pairs), axis=0), rowvar=False)))
      else:
        M0 = _initialize_metric_mahalanobis(pairs.copy(), prior, seed, strict_pd=True, matrix_name='prior')
      pos, neg = pairs[lab == 1], pairs[lab == -1]
      V = np.vstack([pos[:, 0] - pos[:, 1], neg[:, 0] - neg[:, 1]])
      yy = [1] * len(pos) + [-1] * len(neg)
      ev.update(L=dym(L), M0=dym(M0), P=dym(np.linalg.inv(M)), P0=dym(np.linalg.inv(M0)), chol=dym(np.linalg.cholesky(M).T),
                v=dym(V), y=yy, n_iter=int(est.n_iter_), bounds=dyv(est.bounds_))
      if '_lambda' in cap and len(cap['_lambda']) == len(V):
        ev['lam'] = dyv(cap['_lambda'])
        ev['xi'] = dyv(np.concatenate([cap['pos_bhat'], cap['neg_bhat']]))
        ev['has_xi'] = True
        ev['lam_source'] = 'frame'
      else:
        # fallback witness: non-negative least squares for  P - P0 = sum y_i lam_i v_i v_i^T
        Bm = np.array([yy[i] * np.outer(V[i], V[i]).ravel() for i in range(len(V))]).T
        lam, _ = scipy.optimize.nnls(Bm, (np.linalg.inv(M) - np.linalg.inv(M0)).ravel())
        ev['lam'] = dyv(lam)
        ev['lam_source'] = 'nnls'
    except Exception as e:
      ev['exc'] = type(e).__name__
      ev['exc_msg'] = str(e)[:160]
  return ev


def gen_sweeps_case(rng):
  """a SMALL fit for the exact replay against the projection machine (ITML.tla, dimension d, rational arithmetic):
  the bit length of the exact iterates roughly doubles with every projection, hence <= 14 projections in all"""
  d = int(rng.integers(1, 4))
  nC = int(rng.integers(2, 6))
  max_iter = int(rng.integers(1, max(2, 14 // nC + 1)))
  while True:
    V = rng.integers(-4, 5, size=(nC, d)) / 2.0
    if np.all(np.abs(V).sum(1) > 0):
      break
  lab = np.array([1] * int(rng.integers(1, nC)) + [-1] * nC)[:nC]
  lab = lab[rng.permutation(nC)]
  base = rng.integers(-8, 9, size=(nC, d)) / 2.0
  pairs = np.stack([base, base + V], axis=1)
  gamma = float(rng.choice([0.25, 1.0, 4.0, 64.0, np.inf]))
  # gamma = infinity (no slack) is recognised by the implementation through the IDENTITY test `gamma is np.inf`: the object
  # np.inf itself is handed over, and now and then another float object holding infinity (math.inf, float('inf')) - a named
  # deviation of the specification (the projection step degenerates to NaN and every sweep leaves the prior untouched)
  same_object = bool(rng.random() < 0.75)
  gamma_arg = (np.inf if same_object else float('inf')) if np.isinf(gamma) else gamma
  bounds = np.array([float(rng.choice([0.5, 1.0, 2.0])), float(rng.choice([2.0, 3.0, 4.0, 6.0]))])
  tol = float(rng.choice([0.0, 2.0 ** -10, 2.0 ** -4, 0.25, 0.5]))
  if rng.random() < 0.4 and d > 1:
    B = rng.integers(-2, 3, size=(d, d)) / 2.0
    prior = B.T.dot(B) + np.eye(d)
    prior_kind = 'array'
  else:
    prior, prior_kind = 'identity', 'identity'
  ev = {'ev': 'ItmlSweeps', 'exc': '', 'gamma_inf': bool(np.isinf(gamma)), 'gamma': dy(0.0 if np.isinf(gamma) else gamma),
        'max_iter': max_iter, 'tol': dy(tol), 'n_iter': 0, 'L': [], 'M0': dym(np.eye(d) if prior_kind == 'identity' else prior),
        'v': [], 'y': [], 'bounds': [], 'prior_kind': prior_kind, 'mode': 'sweeps', 'supervised': False,
        'gamma_is_np_inf': bool(np.isinf(gamma) and same_object)}
  with warnings.catch_warnings():
    warnings.simplefilter('ignore')
    try:
      est = gen.ITML(gamma=gamma_arg, max_iter=max_iter, tol=tol, prior=prior if prior_kind == 'identity' else prior.copy())
      est.fit(pairs.copy(), lab.copy(), bounds=bounds.copy())
      pos, neg = pairs[lab == 1], pairs[lab == -1]
      Vc = np.vstack([pos[:, 0] - pos[:, 1], neg[:, 0] - neg[:, 1]])       # the order of the implementation: similar pairs first
      ev.update(L=dym(np.asarray(est.components_)), v=dym(Vc), y=[1] * len(pos) + [-1] * len(neg), n_iter=int(est.n_iter_),
                bounds=dyv(est.bounds_))
    except Exception as e:
      ev['exc'] = type(e).__name__
      ev['exc_msg'] = str(e)[:160]
  return ev


def gen_trace(recipe):
  rng = np.random.default_rng(recipe['seed'])
  if recipe.get('sweeps'):
    return {'est': 'ITML', 'events': [gen_sweeps_case(rng) for _ in range(recipe['n'])]}
  return {'est': 'ITML', 'events': [gen_case(rng, recipe['supervised'], bool(recipe.get('large_scale'))) for _ in range(recipe['n'])]}


def signature_of(recipe, tr, clause, pos):
  e = tr['events'][pos - 1] if 0 < pos <= len(tr['events']) else {}
  return {'supervised': bool(e.get('supervised')), 'mode': e.get('mode'), 'prior': e.get('prior_kind'),
          'gamma_inf': bool(e.get('gamma_inf'))}


def run(ctx):
  ctx.model('MC_ITML', 'MC_ITML.cfg')
  rng = np.random.default_rng(ctx.seed + 11)
  rs = []
  for i in range(16 if ctx.quick else 768):
    rs.append(dict(supervised=bool(i % 2), n=5 if ctx.quick else 12, seed=int(rng.integers(1 << 30))))
  # directed: an O(1) prior with raw features of magnitude 2^14 (tiny multipliers), run to convergence
  for i in range(2 if ctx.quick else 48):
    rs.append(dict(supervised=bool(i % 2), large_scale=True, n=4 if ctx.quick else 10, seed=int(rng.integers(1 << 30))))
  ctx.rule = ('random pair sets (both labels, non-collapsed) x priors {identity, covariance, random, SPD array} x gamma in '
              '{1/4, 1, 4, 64} x explicit / default bounds x {run to convergence with tol 1e-12, 1-5 iterations, prior '
              'already feasible}; ITML and ITML_Supervised; distinct by event content; non-trivial = at least one active '
              'constraint (lambda > 0)')
  pairs = core.generate(MOD, rs)
  core.judge(ctx, *SPEC, pairs, signature_of)
  src = {}
  for r, t in pairs:
    for e in t['events']:
      active = any(x[0] == 1 for x in e.get('lam', []))
      ctx.note_case((str(e['v'])[:80], e['mode'], e['prior_kind'], str(e['gamma'])), nontrivial=active)
      src[e['lam_source']] = src.get(e['lam_source'], 0) + 1
  ctx.extra['dual_witness_source'] = src
  # ---- growth of the specification: small fits replayed EXACTLY against the projection machine (clauses G11.*)
  srs = [dict(sweeps=True, supervised=False, n=6 if ctx.quick else 10, seed=int(rng.integers(1 << 30))) for _ in range(6 if ctx.quick else 160)]
  spairs = core.generate(MOD, srs)
  core.judge(ctx, *SPEC, spairs, signature_of, tag='sweeps')
  for r, t in spairs:
    for e in t['events']:
      ctx.note_case(('sweeps', str(e['v'])[:80], str(e['gamma']), e['max_iter'], str(e['tol'])), nontrivial=e['n_iter'] + 1 < e['max_iter'])
  ctx.extra['machine_replays'] = sum(len(t['events']) for _, t in spairs)

  def scaled(t):
    e = t['events'][0]
    e['L'] = [[[x[0], x[1] + 1, x[2]] if x[0] in (1, -1) else x for x in row] for row in e['L']]      # components_ doubled
  core.selftest_binding(ctx, *SPEC, spairs[0][1], scaled, 'G11.', 'components_doubled_in_a_machine_replay')
  ctx.extra['probes_missing'] = [] if src.get('nnls', 0) == 0 else ['ITML._fit frame locals (NNLS fallback used)']
  ctx.sample({k: str(v)[:140] for k, v in pairs[0][1]['events'][0].items()})
  # binding self-test: in a trace whose duals matter (P - P0 is a sizeable part of the scale), zero the logged duals
  from num import to_float

  def weight(e):
    if e.get('exc') or not e.get('P'):
      return 0.0
    P = np.array([[to_float(x) for x in r] for r in e['P']]); P0 = np.array([[to_float(x) for x in r] for r in e['P0']])
    L = np.array([[to_float(x) for x in r] for r in e['L']]); V = np.array([[to_float(x) for x in r] for r in e['v']])
    b = [to_float(x) for x in e['bounds']]
    # (selection only) skip events the specification classifies as outside the certificate's precision
    if min(b) * 2.0 ** 30 < (V ** 2).sum(1).max() or np.abs(L.T.dot(L)).max() * np.abs(P).max() > 2.0 ** 27:
      return 0.0
    return float(np.abs(P - P0).max() / (np.abs(P).max() + np.abs(P0).max()))
  best = max(((weight(e), ti, ei) for ti, (r, t) in enumerate(pairs) for ei, e in enumerate(t['events'])), default=None)
  if best and best[0] > 0.05:
    _, ti, ei = best

    def zero_duals(t):
      e = t['events'][ei]
      e['lam'] = [[0, 0, []] for _ in e['lam']]
    core.selftest_binding(ctx, *SPEC, pairs[ti][1], zero_duals, 'C11.', 'logged_duals_zeroed')


def replay(path, frozen=False):
  return core.standard_replay(MOD, PID, *SPEC, path, frozen)
