"""C09 - closed-form learners compute their documented formula.

Model part: MC_Geometry / the scatter-matrix definitions of ClosedForm.tla are exact (no division).
Conformance (code -> spec): Covariance, RCA (all chunk layouts incl. -1, unbalanced, n_components 1..d) and
LFDA (k, embedding_type, n_components, unbalanced classes) are fitted on generated layouts; TLC (TR_ClosedForm)
recomputes the documented statistics exactly from the logged input, verifies the witnesses supplied by the
harness (generalised eigen-decompositions, square roots, quotients; exp values are a table from libm) and
checks the certificates against the logged components_.
"""
import warnings
import numpy as np
import scipy.linalg

import core
import gen
from num import dy, dyv, dym

MOD = 'checks.c09'
SPEC = ('TR_ClosedForm', 'TR_ClosedForm.cfg')
PID = 'C09'


def cov_case(rng):
  d = int(rng.integers(1, 6))
  n = int(rng.integers(max(4 * d, 5), 4 * d + 12))
  while True:
    X = gen.grid(rng.normal(size=(n, d)).dot(rng.normal(size=(d, d)) + np.eye(d)) * 2.0, bits=4)
    if np.ptp(X, axis=0).min() > 0:        # (no constant feature: well-formed data)
      break
  kind = 'full'
  if d >= 2 and rng.random() < 0.35:
    # singular covariance: an exact linear dependence between features
    X[:, -1] = X[:, 0] * 2.0 - (X[:, 1] if d > 2 else 0.0)
    kind = 'singular'
  if rng.random() < 0.3:
    X = np.vstack([X, X[:3]])       # duplicated samples
  # raw features of any magnitude and location (exact: a power of two, an integer offset representable with the grid bits)
  X = X * float(2.0 ** int(rng.choice([0, 0, -20, -7, 9, 24]))) if rng.random() < 0.5 else X
  if rng.random() < 0.3:
    X = X + np.round(rng.normal(size=d) * 3.0) * float(2.0 ** np.ceil(np.log2(np.abs(X).max()))) * 2.0 ** 12      # (a common offset 4096 times the spread)
  ev = {'ev': 'CovarianceFit', 'X': dym(X), 'exc': '', 'L': [], 'kind': kind}
  with warnings.catch_warnings():
    warnings.simplefilter('ignore')
    try:
      est, ev['how'] = fit_through(rng, gen.Covariance, X)
      ev['L'] = dym(est.components_)
    except Exception as e:
      ev['exc'] = type(e).__name__
  return ev


def fit_through(rng, cls_, X, rest=(), **opts):
  """fit on X in one of the documented ways of supplying data: the array itself, or indices into a preprocessor - of a
  fresh estimator, or of one that was fitted before on OTHER data through another preprocessor array"""
  how = str(rng.choice(['formed', 'formed', 'indices', 'indices_after_other']))
  if how == 'formed':
    return cls_(**opts).fit(X.copy(), *[np.array(r).copy() for r in rest]), how
  n = len(X)
  if how == 'indices':
    return cls_(preprocessor=X.copy(), **opts).fit(np.arange(n), *[np.array(r).copy() for r in rest]), how
  other = X[::-1] * 3.0 + 1.0
  est = cls_(preprocessor=other, **opts)
  try:
    est.fit(np.arange(n), *[np.array(r).copy() for r in rest])
  except Exception:
    pass
  est.set_params(preprocessor=X.copy())
  return est.fit(np.arange(n), *[np.array(r).copy() for r in rest]), how


def rca_case(rng):
  d = int(rng.integers(2, 5))
  X, y = gen.dataset(rng, d=d, n_classes=int(rng.integers(2, 4)), per_class=int(rng.integers(5, 8)), bits=4)
  ch = gen.chunks_from(rng, y, with_unknown=bool(rng.integers(2)))
  if rng.random() < 0.5:
    X = X * float(2.0 ** int(rng.choice([-20, -7, 9, 24])))
  if rng.random() < 0.3:
    X = X + np.round(rng.normal(size=d) * 3.0) * float(2.0 ** np.ceil(np.log2(np.abs(X).max()))) * 2.0 ** 12      # (a common offset 4096 times the spread)
  n_comp = None if rng.random() < 0.4 else int(rng.integers(1, d + 1))
  ev = {'ev': 'RcaFit', 'X': dym(X), 'chunks': [int(v) for v in ch], 'exc': '', 'L': [], 'Vt': [], 'lam': [],
        'n_components': n_comp or 0}
  with warnings.catch_warnings():
    warnings.simplefilter('ignore')
    try:
      est, ev['how'] = fit_through(rng, gen.RCA, X, (ch,), n_components=n_comp)      # (copies: the witnesses below need the pristine input)
      ev['L'] = dym(est.components_)
      # witness: generalised eigen-decomposition C_w v = lam C_t v (ascending), normalised V^T C_t V = I
      m = ch != -1
      Xc = X[m].astype(float).copy()
      for c in np.unique(ch[m]):
        Xc[ch[m] == c] -= Xc[ch[m] == c].mean(axis=0)
      Cw = Xc.T.dot(Xc) / len(Xc)
      Ct = np.atleast_2d(np.cov(X[m], rowvar=False))
      lam, V = scipy.linalg.eigh(Cw, Ct)
      ev['Vt'] = dym(V.T)
      ev['lam'] = dyv(lam)
    except Exception as e:
      ev['exc'] = type(e).__name__
      ev['exc_msg'] = str(e)[:120]
  return ev


def lfda_case(rng, small_class=False):
  d = int(rng.integers(4, 6)) if small_class else int(rng.integers(2, 4))
  ncls = int(rng.integers(2, 4))
  # (small_class: the other classes are large enough for a positive definite within-class scatter, n - n_classes >= d + 2)
  X, y = gen.dataset(rng, d=d, n_classes=ncls, per_class=(d + 4) if small_class else int(rng.integers(4, 6)), bits=3, sep=2.0)
  kparam = int(rng.integers(0, 4))
  if small_class:
    # a class with fewer than k + 1 members (its own k is capped at n_c - 1; the other classes keep theirs), in any position
    kparam = int(rng.integers(3, d))
    c = int(rng.integers(ncls))
    drop = np.flatnonzero(y == c)[(1 if rng.random() < 0.4 else 3):]        # (three members left, or a SINGLE one)
    keep = np.setdiff1d(np.arange(len(y)), drop)
    X, y = X[keep], y[keep]
  emb = str(rng.choice(['weighted', 'orthonormalized', 'plain']))
  n_comp = None if rng.random() < 0.4 else int(rng.integers(1, d + 1))
  if rng.random() < 0.4:
    X = X * float(2.0 ** int(rng.choice([-20, -7, 9, 24])))       # (a power of two: the affinities exp(-d^2 / (s_i s_j)) are scale free)
  n = len(X)
  ev = {'ev': 'LfdaFit', 'X': dym(X), 'y': [int(v) for v in y], 'k': kparam, 'embedding': emb, 'exc': '', 'L': [],
        'doc': {}, 'dev': {}, 'n_components': n_comp or 0}
  with warnings.catch_warnings():
    warnings.simplefilter('ignore')
    try:
      est = gen.LFDA(n_components=n_comp, k=kparam or None, embedding_type=emb).fit(X.copy(), y.copy())
      L = est.components_
      ev['L'] = dym(L)
      # ---- witnesses (untrusted; TLC verifies them) for the DOCUMENTED local scale and for the named deviation D6
      k0 = min(7, d - 1) if not kparam else (d - 1 if kparam >= d else kparam)
      D2 = ((X[:, None, :] - X[None, :, :]) ** 2).sum(-1)
      a_doc = np.zeros(n)
      a_dev = np.zeros(n)
      from sklearn.metrics import pairwise_distances
      for c in np.unique(y):
        same = np.flatnonzero(y == c)
        kk = min(k0, len(same) - 1)
        for i in same:
          a_doc[i] = np.sort(D2[i, same])[kk]
        # what the implementation reads: column kk of the column-wise partially sorted class distance matrix
        dist = pairwise_distances(X[same], metric='l2', squared=True)
        a_dev[same] = np.partition(dist, kk, axis=0)[:, kk]
        # (exact squared distances on the dyadic grid, so that TLC's exact comparison applies)
        col = D2[same][:, same[kk]]
        a_dev[same] = np.array([col[np.argmin(np.abs(col - v))] for v in a_dev[same]])

      def witnesses(a):
        s = np.zeros((n, n)); t = np.zeros((n, n)); A = np.zeros((n, n))
        for i in range(n):
          for j in range(n):
            if i < j and y[i] == y[j] and a[i] * a[j] > 0:
              s[i, j] = np.sqrt(a[i] * a[j])
              t[i, j] = D2[i, j] / s[i, j]
              A[i, j] = np.exp(-t[i, j])
        Asym = A + A.T
        Sw = np.zeros((d, d)); Sb = np.zeros((d, d))
        for i in range(n):
          for j in range(i + 1, n):
            v = (X[i] - X[j])[:, None]
            o = v.dot(v.T)
            if y[i] == y[j]:
              nc = (y == y[i]).sum()
              Sw += Asym[i, j] / nc * o
              Sb += Asym[i, j] * (1.0 / n - 1.0 / nc) * o
            else:
              Sb += o / n
        lam, V = scipy.linalg.eigh(Sb, Sw)
        order = np.argsort(-lam)
        lam, V = lam[order], V[:, order]
        coef = [float(L[r].dot(V[:, r]) / V[:, r].dot(V[:, r])) for r in range(L.shape[0])]
        return {'a': dyv(a), 's': dym(s), 't': dym(t), 'A': dym(A), 'Vt': dym(V.T), 'lam': dyv(lam), 'coef': dyv(coef)}
      ev['doc'] = witnesses(a_doc)
      ev['dev'] = witnesses(a_dev)
    except Exception as e:
      ev['exc'] = type(e).__name__
      ev['exc_msg'] = str(e)[:120]
  return ev


def gen_trace(recipe):
  if recipe.get('suite'):
    import suite
    return suite.regen(recipe, ('CallFitCov', 'CallFitRca'))
  rng = np.random.default_rng(recipe['seed'])
  f = {'cov': cov_case, 'rca': rca_case, 'lfda': lfda_case, 'lfda_small': lambda r: lfda_case(r, True)}[recipe['kind']]
  return {'est': recipe['kind'], 'events': [f(rng) for _ in range(recipe['n'])]}


def signature_of(recipe, tr, clause, pos):
  e = tr['events'][pos - 1] if 0 < pos <= len(tr['events']) else {}
  return {'learner': recipe['kind'].split('_')[0], 'embedding': e.get('embedding', ''), 'reduced': bool(e.get('n_components'))}


def run(ctx):
  ctx.model('MC_Geometry', 'MC_Geometry.cfg')
  rng = np.random.default_rng(ctx.seed + 9)
  rs = []
  for kind, n, per in (('cov', 2, 15), ('rca', 3, 10), ('lfda', 6, 5), ('lfda_small', 3, 4)) if ctx.quick else (('cov', 32, 60), ('rca', 48, 30), ('lfda', 64, 15), ('lfda_small', 32, 15)):
    for i in range(n):
      rs.append(dict(kind=kind, n=per, seed=int(rng.integers(1 << 30))))
  ctx.rule = ('random layouts: Covariance (d 1..5, full-rank / exactly singular covariance, duplicated samples), RCA (unbalanced '
              'chunks, chunk label -1, n_components 1..d), LFDA (d 2..3, 2-3 unbalanced classes, k in {None,1,2,3}, three '
              'embedding types, n_components 1..d); distinct by event content; non-trivial = reduced dimension or singular case')
  ctx.rule += " Plus the executions of the repository's own test suite recorded by the pytest tracing plugin (one case per test / per estimator object; distinct by test id)."
  pairs = core.generate(MOD, rs)
  core.judge(ctx, *SPEC, pairs, signature_of)
  for r, t in pairs:
    for e in t['events']:
      ctx.note_case((e['ev'], str(e['X'])[:100], e.get('k'), e.get('embedding'), e.get('n_components')),
                    nontrivial=bool(e.get('n_components')) or e.get('kind') == 'singular')
  ctx.sample({k: str(v)[:160] for k, v in pairs[0][1]['events'][0].items()})
  # Covariance / RCA fits performed by the repository's own tests (RCA_Supervised included: its call of RCA.fit is recorded)
  import os, suite
  evs, summary = core.record_suite_calls(os.path.join(ctx.work, 'suite'),
                                         files=['test/test_fit_transform.py', 'test/test_base_metric.py', 'test/test_mahalanobis_mixin.py']
                                         if ctx.quick else ['test/'])
  spairs = suite.traces_from(evs, ('CallFitCov', 'CallFitRca'), 40 if ctx.quick else 0, np.random.default_rng(ctx.seed), spec=SPEC)
  if len(spairs) < 5:
    raise core.MachineryError('only %d closed-form fits recorded from the repository tests (%s)' % (len(spairs), summary))
  core.judge(ctx, *SPEC, spairs, lambda r, t, c, p: {'learner': 'suite:' + r['est']}, tag='suite')
  for r, t in spairs:
    ctx.note_case(('suite', r['test']))
  ctx.extra['suite_traces'] = {'pytest_summary': summary, 'tests_validated': len(spairs),
                               'fits_validated': sum(len(t['events']) for _, t in spairs),
                               'learners': sorted({e['cls'] for _, t in spairs for e in t['events']})}
  good = pairs[0][1]

  def wrong_inverse(t):
    e = t['events'][0]
    e['L'] = [[list(x) for x in row] for row in e['L']]
    e['L'][0][0] = [1, 1, [3]]
  core.selftest_binding(ctx, *SPEC, good, wrong_inverse, 'C09.covariance', 'components_not_inverse_covariance')


def replay(path, frozen=False):
  return core.standard_replay(MOD, PID, *SPEC, path, frozen)
