"""C17 - fitting is deterministic, side-effect free and history independent.

The life-cycle machine spec/MetricLearn.tla IS the property.  TLC exhausts it for small constants
(MC_Lifecycle: invariants + action properties "who may change what"), then simulates long behaviours;
every behaviour is executed on real objects of all 17 classes (spec -> code) and the recorded history is
validated by TLC with TR_Lifecycle, which consumes every event with the same action of MetricLearn.tla and
compares the logged projection of ALL live objects, all caller-owned arrays and the call's output with the
values of the abstract terms, defined by reference executions on fresh objects.
"""
import glob
import os
import numpy as np

import core
import gen
import lifecycle
import tlaval

MOD = 'checks.c17'
PID = 'C17'


def spec_for(name):
  return ('TR_Lifecycle', 'TR_Lifecycle_thr.cfg' if name in lifecycle.PAIR_CLASSIFIERS else 'TR_Lifecycle_nothr.cfg')


def gen_trace(recipe):
  # reference values come from a SEPARATE, identically constructed world, so that a reference execution
  # that scribbles over its arguments cannot hide (or fake) a side effect of the history under test
  kw = dict(same_dims=recipe['same_dims'], indexed=bool(recipe.get('indexed')), wide=bool(recipe.get('wide')))
  ref = lifecycle.reference(lifecycle.World(recipe['est'], recipe['seed'], **kw))
  w = lifecycle.World(recipe['est'], recipe['seed'], **kw)
  events = lifecycle.run(w, recipe['ops'])
  return {'est': recipe['est'], 'dims': w.dims, 'canon': w.canon, 'has_threshold': w.has_thr, 'ref': ref, 'events': events,
          'qnames': w.qnames}


def signature_of(recipe, tr, clause, pos):
  e = tr['events'][pos - 1] if 0 < pos <= len(tr['events']) else {}
  return {'estimator': recipe['est'], 'event': e.get('ev')}


def write_cfg(path, has_thr, nq, depth, maxobjs=3, maxh=2, fit_transform=True, crossval=False):
  with open(path, 'w') as f:
    f.write('CONSTANTS Params = {1, 2, 3}\n Data = {1, 2}\n Dim <- DimOf\n Canon <- CanonOf\n HasFitTransform = %s\n HasCrossVal = %s\n Thresholds = {1, 2}\n ValSets = {1, 2}\n' % ('TRUE' if fit_transform else 'FALSE', 'TRUE' if crossval else 'FALSE') +
            ' Strategies = {1, 2}\n Queries = {%s}\n HasThreshold = %s\n MaxObjs = %d\n MaxHandles = %d\n Depth = %d\n'
            % (', '.join(str(i) for i in range(1, nq + 1)), 'TRUE' if has_thr else 'FALSE', maxobjs, maxh, depth))
    f.write('SPECIFICATION Spec\nVIEW View\nCONSTRAINT BoundedDepth\n')
    for i in ['TypeOK', 'NfeatOfLastFit', 'ThresholdNeedsFit', 'FitThresholdIsCurrent', 'PrepOnlyWhenFitted']:
      f.write('INVARIANT %s\n' % i)
    for i in ['OnlyFitChangesModel', 'OnlyThreeActionsChangeThreshold', 'OnlySetParamsChangesParams',
              'OnlyFitAndCalibrateChangePreprocessorInForce',
              'HandlesImmutable', 'ObjectsNeverDisappear', 'FitIsHistoryIndependent', 'RefinesObjLife']:      # + VerboseIsTransparent (invariant)
      f.write('PROPERTY %s\n' % i)
    f.write('CHECK_DEADLOCK FALSE\n')


def histories(ctx, has_thr, nq, num, depth, tag, fit_transform=True, crossval=False):
  cfg = os.path.join(ctx.work, 'SIM_%s.cfg' % tag)
  write_cfg(cfg, has_thr, nq, depth, fit_transform=fit_transform, crossval=crossval)
  simdir = os.path.join(ctx.work, 'sim_' + tag)
  os.makedirs(simdir, exist_ok=True)
  ctx.model('MC_Lifecycle', cfg, workers=1, simulate='file=%s/h,num=%d' % (simdir, num), must_complete=False,
            tag='SIM_' + tag)
  out = []
  for f in sorted(glob.glob(simdir + '/h*')):
    st = tlaval.parse_sim_file(f)
    ops = lifecycle.ops_from_last(st)
    if any(o[0] == 'Fit' for o in ops):
      out.append(ops)
  return out


def group(name):
  if name in lifecycle.PAIR_CLASSIFIERS:
    return 'thr'
  if gen.KIND[name] in ('triplets', 'quadruplets'):
    return 'tuples'
  return 'plain'


def directed_ops(name):
  """directed histories for each clause (so that no clause is exercised by chance only)"""
  h = [['New', 1], ['Fit', 1, 1], ['GetMetric', 1], ['GetMatrix', 1], ['Fit', 1, 2], ['CallHandle', 1],
       ['CallHandle', 2], ['Mutate', 2], ['Query', 1, 1], ['Query', 1, 4], ['Pickle', 1], ['Query', 2, 2],
       ['Clone', 1], ['Fit', 3, 2], ['Query', 3, 3], ['SetParams', 1, 2], ['Fit', 1, 1], ['Fit', 1, 1],
       ['Query', 1, 5], ['New', 2], ['Query', 4, 1], ['New', 3], ['Fit', 5, 1], ['Query', 5, 1], ['Query', 5, 2]]
  if hasattr(gen.CLS[name], 'fit_transform'):
    h += [['FitTransform', 5, 2], ['Query', 5, 1], ['FitTransform', 1, 1]]
  if gen.KIND[name] in ('pairs', 'sup'):
    h += [['CrossValidate', 1, 1], ['CrossValidate', 4, 2], ['Query', 1, 1], ['GridSearch', 1, 2], ['GridSearch', 4, 1], ['Query', 1, 2]]
  if name in lifecycle.PAIR_CLASSIFIERS:
    h += [['SetThreshold', 1, 2], ['Query', 1, 6], ['Calibrate', 1, 1, 2], ['Query', 1, 8], ['Fit', 1, 2],
          ['Query', 1, 6], ['SetThreshold', 4, 1], ['Calibrate', 4, 1, 1]]
  # object 1 (second parameter setting by now, last fitted on the first data set) is fitted on the OTHER data set: nothing
  # an earlier fit derived from its data (a capped neighbourhood size, a default resolved from the data) may survive
  h += [['Fit', 1, 2], ['Query', 1, 1], ['Clone', 1], ['Fit', 6, 2], ['Query', 6, 1]]
  return h


def copies_ops(name):
  """copies of copies: clone of an unpickled object (fresh and fitted), clone of a clone, pickle of a clone"""
  return [['New', 1], ['Pickle', 1], ['Clone', 2], ['Fit', 3, 1], ['Query', 3, 1], ['Fit', 1, 1], ['Pickle', 1], ['Clone', 4],
          ['Fit', 5, 1], ['Query', 5, 1], ['Clone', 3], ['Query', 6, 1], ['Pickle', 5], ['Query', 7, 2]]


def run(ctx):
  depth_mc = 5 if ctx.quick else 6
  for has_thr, nq, tag in [(True, 2, 'thr'), (False, 2, 'nothr')]:
    cfg = os.path.join(ctx.work, 'MC_Lifecycle_%s.cfg' % tag)
    write_cfg(cfg, has_thr, nq, depth_mc, maxobjs=2, maxh=1)
    dump = os.path.join(ctx.work, 'lifecycle_' + tag)
    r = core.run_tlc('MC_Lifecycle', cfg, ctx.work, workers=core.NCPU, extra=['-dump', dump], xmx='6g', tag='MC_Lifecycle_' + tag)
    core.require_model_ok(r, 'MC_Lifecycle')
    ctx.states += r.distinct
    ctx.transitions += r.generated
    ctx.cmds.append(r.cmd)
    ctx.models.append(dict(module='MC_Lifecycle', cfg=tag, distinct=r.distinct, generated=r.generated, depth=r.depth,
                           wall_s=round(r.wall, 1)))
    # vacuity: which actions of the machine were actually taken in the explored state graph (from the `last` variable)
    import re as _re
    heads = _re.findall(r'last = <<"([A-Za-z]+)"(?:, \d+, "([A-Za-z]+)")?', open(dump + '.dump').read())
    cov = ctx.extra.setdefault('action_coverage', {})
    for h, sub in heads:
      k = h if h != 'NotFitted' else 'NotFitted:' + sub
      cov[tag + ':' + k] = cov.get(tag + ':' + k, 0) + 1
  num = 40 if ctx.quick else 400
  depth = 14 if ctx.quick else 22
  hs = {'thr': histories(ctx, True, 8, num, depth, 'thr', fit_transform=False, crossval=True),
        'tuples': histories(ctx, False, 8, num, depth, 'tuples', fit_transform=False),
        'plain': histories(ctx, False, 5, num * 2, depth, 'plain', fit_transform=True)}
  rng = np.random.default_rng(ctx.seed + 17)
  rs = []
  counters = {'thr': 0, 'tuples': 0, 'plain': 0}
  per_est = 6 if ctx.quick else 40
  for name in gen.ALL:
    g = group(name)
    for k in range(per_est):
      ops = hs[g][counters[g] % len(hs[g])]
      counters[g] += 1
      rs.append(dict(est=name, seed=int(rng.integers(1 << 30)), same_dims=bool(k % 3 == 2), indexed=bool(k % 3 == 1),
                     ops=ops, src='tlc'))
    rs.append(dict(est=name, seed=int(rng.integers(1 << 30)), same_dims=False, ops=directed_ops(name), src='directed'))
    rs.append(dict(est=name, seed=int(rng.integers(1 << 30)), same_dims=True, ops=directed_ops(name), src='directed'))
    rs.append(dict(est=name, seed=int(rng.integers(1 << 30)), same_dims=True, indexed=True, ops=directed_ops(name), src='directed'))
  for name in ('NCA', 'LMNN', 'MLKR'):
    for k in range(1 if ctx.quick else 4):
      rs.append(dict(est=name, seed=int(rng.integers(1 << 30)), same_dims=True, wide=True, src='directed',
                     ops=[['New', 1], ['Fit', 1, 1], ['Query', 1, 1], ['Fit', 1, 1], ['Clone', 1], ['Fit', 2, 1], ['Query', 2, 1],
                          ['Pickle', 1], ['Fit', 3, 2], ['Query', 3, 2]]))
  ctx.rule = ('MC_Lifecycle exhaustive to depth %d; behaviours simulated by TLC (depth %d) executed on all 17 estimators '
              '(%d per estimator, every third with same-dimension data sets and array-valued init/prior/basis/weights/'
              'preprocessor parameters, ITML bounds and LSML weights as caller arrays) + 2 directed histories per '
              'estimator; distinct by (estimator, op sequence, world); non-trivial = history contains a refit, a '
              'clone/pickle or a handed-out object used after a refit' % (depth_mc, depth, per_est))
  ctx.rule += " Plus the executions of the repository's own test suite recorded by the pytest tracing plugin (one case per test / per estimator object; distinct by test id)."
  pairs = core.generate(MOD, rs)
  for g, cfgname in (('thr', 'TR_Lifecycle_thr.cfg'), ('nothr', 'TR_Lifecycle_nothr.cfg')):
    sub = [(r, t) for r, t in pairs if (r['est'] in lifecycle.PAIR_CLASSIFIERS) == (g == 'thr')]
    core.judge(ctx, 'TR_Lifecycle', cfgname, sub, signature_of, tag='TR_Lifecycle_' + g)
  for recipe, tr in pairs:
    ops = recipe['ops']
    fits = [o for o in ops if o[0] == 'Fit']
    nontriv = len(fits) >= 2 or any(o[0] in ('Clone', 'Pickle', 'CallHandle') for o in ops)
    ctx.note_case((recipe['est'], str(ops), recipe['same_dims']), nontrivial=nontriv)
  t = pairs[0]
  ctx.sample({'estimator': t[0]['est'], 'ops_from_TLC': t[0]['ops'],
              'first_events': [{k: v for k, v in e.items()} for e in t[1]['events'][:3]]})
  ctx.extra['histories_from_TLC'] = {k: len(v) for k, v in hs.items()}
  ctx.extra['events_validated'] = sum(len(t['events']) for _, t in pairs)
  # ---- the repository's own tests as behaviours of the per-object machine ObjLife (opaque terms): every outermost
  # public call they make, with the projected state before/after, validated by TLC (TR_ObjLife)
  import suite
  for cfgname in ('MC_ObjLife.cfg', 'MC_ObjLife_points.cfg'):
    ctx.model('MC_ObjLife', cfgname, workers=2, tag='MC_ObjLife_' + cfgname[:-4])
  # the same machine over UNBOUNDED digests / thresholds / dimensions: Apalache discharges the inductive invariant
  # (Init => IndInv; IndInv /\ Next => IndInv') and the action invariants from any state satisfying it
  core.run_apalache(ctx, 'ObjLifeApa', 'Init', 'IndInv', 0)
  core.run_apalache(ctx, 'ObjLifeApa', 'IndInit', 'IndInv', 1)
  core.run_apalache(ctx, 'ObjLifeApa', 'IndInit', 'ActionInv', 1)
  evs, summary = core.record_suite_calls(os.path.join(ctx.work, 'suite'), files=None if ctx.quick else ['test/'])
  lp = suite.judge_life(ctx, evs, 400 if ctx.quick else 0)
  ctx.extra['suite_object_histories']['pytest_summary'] = summary

  def query_changes_model(t):
    e = next(e for e in t['events'] if e['act'] in ('transform', 'predict', 'pair_distance', 'pair_score', 'decision_function',
                                                    'get_metric', 'get_mahalanobis_matrix', 'score_pairs', 'score'))
    e['after'] = dict(e['after'], dig=e['after']['dig'] + 1)

  def fit_changes_params(t):
    e = next(e for e in t['events'] if e['act'] == 'fit')
    e['after'] = dict(e['after'], par=e['after']['par'] + 1)
  lgood = next(t for r, t in lp if any(e['act'] == 'fit' for e in t['events'])
               and any(e['act'] not in ('fit', 'set_threshold', 'calibrate_threshold') for e in t['events']))
  core.selftest_binding(ctx, *suite.LIFE_SPEC, lgood, query_changes_model, 'C17.suite_query_leaves_state', 'suite_query_changes_model')
  core.selftest_binding(ctx, *suite.LIFE_SPEC, lgood, fit_changes_params, 'C17.suite_fit_leaves_hyper_parameters', 'suite_fit_changes_params')
  # binding self-tests: a stale n_features_in_, a mutated caller array, a dropped Fit event
  good = next(t for r, t in pairs if r['src'] == 'directed' and r['est'] == 'NCA')

  def stale_nfeat(t):
    for e in t['events']:
      if e['ev'] == 'Fit' and e['data'] == 2:
        e['post'][0][2] = 2
        return

  def mutated_array(t):
    t['events'][5]['arrays'] = 'deadbeef'

  def dropped_fit(t):
    i = [i for i, e in enumerate(t['events']) if e['ev'] == 'Fit'][1]
    del t['events'][i]
  sp = ('TR_Lifecycle', 'TR_Lifecycle_nothr.cfg')
  core.selftest_binding(ctx, *sp, good, stale_nfeat, 'C17.n_features_in', 'stale_n_features_in')
  core.selftest_binding(ctx, *sp, good, mutated_array, 'C17.arguments', 'mutated_caller_array')
  core.selftest_binding(ctx, *sp, good, dropped_fit, 'C17.', 'dropped_fit_event')


def replay(path, frozen=False):
  import json
  body = json.load(open(path))
  return core.standard_replay(MOD, PID, *spec_for(body['recipe']['est']), path, frozen)
