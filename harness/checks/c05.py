"""C05 - indices + preprocessor are interchangeable with formed points / tuples.

Model: MC_Preproc (all small index arrays, tuple sizes 1..4: column-wise formation = point-wise definition).
spec -> code: the index arrays enumerated by TLC (plus random larger ones with repeats, arbitrary order and
every integer dtype) are issued to all 17 estimators, for every data-taking method, in four representations
{formed, ndarray preprocessor, nested-list preprocessor, callable preprocessor}; TLC (TR_Preproc) requires
identical result digests, the callable to be called exactly once per column in order (the expected calls are
computed by the specification), no call for formed data, and PreprocessorError for a raising callable.
"""
import os
import re
import warnings
import numpy as np

import core
import gen
import tlaval
from lifecycle import digest
from metric_learn.exceptions import PreprocessorError

MOD = 'checks.c05'
SPEC = ('TR_Preproc', 'TR_Preproc.cfg')
PID = 'C05'

DTYPES = [np.int64, np.int32, np.int16, np.int8, np.uint8, np.uint16, np.intp]


class Counting:
  def __init__(self, store):
    self.store = store
    self.calls = []

  def __call__(self, idx):
    self.calls.append([int(v) + 1 for v in np.asarray(idx).ravel()])
    return self.store[np.asarray(idx, dtype=int)]


def state_digest(est):
  st = [np.asarray(est.components_)]
  for a in ('threshold_', 'n_iter_', 'bounds_'):
    if a in vars(est):
      st.append(np.asarray(getattr(est, a), dtype=float))
  return digest(st)


def methods_for(name):
  kind = gen.KIND[name]
  m = [('transform', 1), ('pair_distance', 2), ('pair_score', 2)]
  if kind in ('pairs', 'triplets', 'quadruplets'):
    ts = gen.TUPLE_SIZE[kind]
    m += [('predict', ts), ('decision_function', ts), ('score', ts)]
  if kind == 'pairs':
    m += [('calibrate_threshold', 2)]
  return m


def call(est, meth, arg, labels=None):
  with warnings.catch_warnings():
    warnings.simplefilter('ignore')
    if meth == 'score' and labels is not None:
      return est.score(arg, labels)
    if meth == 'calibrate_threshold':
      est.calibrate_threshold(arg, labels)
      return float(est.threshold_)
    return getattr(est, meth)(arg)


def gen_trace(recipe):
  rng = np.random.default_rng(recipe['seed'])
  name = recipe['est']
  kind = gen.KIND[name]
  tr = gen.training(rng, name, d=recipe['d'])
  X = tr['X']
  n = len(X)
  opts = gen.options(rng, name, X.shape[1], len(set(tr['y'].tolist())))
  if name.startswith('SDML'):
    opts['balance_param'] = 2.0 ** -17
  if name == 'RCA_Supervised':
    opts['n_chunks'] = min(6, int(sum(c // 2 for c in np.bincount(tr['y']))))
  store = X
  # the data type of the points: float64, float32 or integers (formed tuples then carry that dtype, so must the tuples
  # formed from indices; a nested list cannot carry a dtype and is left out for the non-float64 stores)
  sdt = recipe.get('store_dtype', 'float64')
  if sdt == 'float32':
    store = store.astype(np.float32)
  elif sdt in ('int64', 'int16'):
    store = np.round(store * 4.0).astype(sdt)
  elif sdt == 'uint8':
    # image-like data: every coordinate in 0..255 (differences of points do not fit the type)
    q = np.round(store * 8.0)
    store = np.clip(q - q.min(axis=0), 0, 255).astype(np.uint8)
  table_fn = None
  if sdt == 'float64':
    # a third of the points get whole-number coordinates (kept distinct), and one more representation: a callable over a
    # table of Python lists - rows of whole numbers are lists of ints -, so the dtype it returns depends on the rows asked for
    k3 = max(1, n // 3)
    R = np.round(store[:k3])
    if len(np.unique(np.vstack([R, store[k3:]]), axis=0)) == n:
      store = store.copy()
      store[:k3] = R
    table = [[int(v) for v in row] if np.all(row == np.round(row)) else [float(v) for v in row] for row in store]
    table_fn = lambda ii, _t=table: np.array([_t[int(i)] for i in np.asarray(ii).ravel()])
  events = []
  # ---- fit under the four representations
  if kind in ('pairs', 'triplets', 'quadruplets'):
    idx = tr['idx']
    rest = tr['fit_args'][1:]
    size = idx.shape[1]
  else:
    idx = rng.permutation(n)
    rest = tuple(np.asarray(a)[idx] for a in tr['fit_args'][1:])
    size = 1
  dt = DTYPES[int(rng.integers(len(DTYPES)))] if n < 120 else np.int64
  reps = {}
  counting = Counting(store)
  preps = {'formed': None, 'array': store, 'list': store.tolist(), 'callable': counting}
  if sdt != 'float64':
    del preps['list']
  if table_fn is not None:
    preps['table'] = table_fn
  ests = {}
  exc = ''
  for rname, prep in preps.items():
    est = gen.CLS[name](**dict(opts, preprocessor=prep))
    arg = store[idx] if rname == 'formed' else idx.astype(dt)
    try:
      gen.fit_quiet(est, arg, *rest)
      reps[rname] = state_digest(est)
    except Exception as e:
      reps[rname] = 'EXC:' + type(e).__name__
      exc = type(e).__name__
    ests[rname] = est
  fit_calls = list(counting.calls)
  c2 = Counting(store)
  estf = gen.CLS[name](**dict(opts, preprocessor=c2))
  try:
    gen.fit_quiet(estf, store[idx], *rest)
  except Exception:
    pass
  Trows = [[int(v) + 1 for v in np.atleast_1d(r)] for r in idx]
  events.append({'ev': 'PreprocCall', 'method': 'fit', 'size': int(size), 'T': Trows, 'digests': reps, 'exc': '',
                 'calls': fit_calls, 'formed_calls': len(c2.calls), 'dtype': np.dtype(dt).name})
  if any(v.startswith('EXC') for v in reps.values()):
    return {'est': name, 'events': events}
  # ---- every other data-taking method on index patterns
  for (meth, size) in methods_for(name):
    pats = list(recipe['patterns'].get(str(size), []))
    # directed: indicators counting from the END (-1 is the last point), as numpy indexing and Python lists understand them
    pats.append([[0 - ((r + c) % min(n, 5)) for c in range(size)] for r in range(3)])          # (1-based: 0 -> -1, -1 -> -2, ...)
    if size >= 2 and table_fn is not None and n // 3 >= 2 and n // 3 + size <= n:
      # directed: the FIRST point of every tuple has whole-number coordinates, the others do not (1-based rows)
      k3 = n // 3
      pats.append([[1 + (r % k3)] + [k3 + 1 + ((r + c) % (n - k3)) for c in range(size - 1)] for r in range(3)])
    for T in pats:
      T = np.array(T, dtype=int) - 1            # TLC indices are 1-based rows of the store
      if T.max() >= n:
        continue
      labels = None
      if meth in ('score', 'calibrate_threshold') and kind == 'pairs':
        labels = np.where(np.arange(len(T)) % 2 == 0, 1, -1)
        if len(T) < 2:
          continue
      dt = DTYPES[int(rng.integers(len(DTYPES)))]
      if T.min() < 0 and np.dtype(dt).kind == 'u':
        dt = np.int64
      forder = bool(rng.integers(2))
      digs = {}
      exc = ''
      counting.calls = []
      for rname, est in ests.items():
        arg = (store[T[:, 0]] if size == 1 else store[T]) if rname == 'formed' else (T[:, 0] if size == 1 else T).astype(dt)
        if rname != 'formed' and size > 1 and forder:
          arg = np.asfortranarray(arg)           # (the index array in Fortran order: the same indices)
        try:
          digs[rname] = digest(np.asarray(call(est, meth, arg, labels)))
        except Exception as e:
          digs[rname] = 'EXC:' + type(e).__name__
      calls = list(counting.calls)
      c2.calls = []
      try:
        call(estf, meth, store[T[:, 0]] if size == 1 else store[T], labels)
      except Exception:
        pass
      events.append({'ev': 'PreprocCall', 'method': meth, 'size': int(size), 'T': [[int(v) + 1 for v in r] for r in T],
                     'digests': digs, 'exc': '', 'calls': calls, 'formed_calls': len(c2.calls),
                     'dtype': np.dtype(dt).name})
  # ---- the same objects again after set_params(preprocessor=<other store>): indices now denote OTHER points
  storeB = gen.grid(store * 1.5 + rng.normal(size=store.shape) * 0.25)
  cB = Counting(storeB)
  storeB = storeB.astype(store.dtype) if sdt != 'float64' else storeB
  cB.store = storeB
  prepsB = {'formed': None, 'array': storeB, 'list': storeB.tolist(), 'callable': cB}
  prepsB = {k: v for k, v in prepsB.items() if k in ests}
  repsB = {}
  for rname, prep in prepsB.items():
    est = ests[rname]
    try:
      est.set_params(preprocessor=prep)
      argB = storeB[idx] if rname == 'formed' else idx
      gen.fit_quiet(est, argB, *rest)
      repsB[rname] = state_digest(est)
    except Exception as e:
      repsB[rname] = 'EXC:' + type(e).__name__
  if not all(v == 'EXC:RuntimeError' for v in repsB.values()):
    events.append({'ev': 'PreprocCall', 'method': 'fit', 'size': int(size), 'T': Trows, 'digests': repsB, 'exc': '',
                   'calls': [], 'formed_calls': 0, 'dtype': 'refit_after_set_params'})
  for rname in ests:                      # back to the original stores for the error cases below
    ests[rname].set_params(preprocessor=preps[rname])
    try:
      gen.fit_quiet(ests[rname], store[idx] if rname == 'formed' else idx, *rest)
    except Exception:
      pass
  # ---- the user's preprocessor OBJECT is updated in place between two fits (a corrected point): the indices denote the
  # points the object holds NOW
  storeC = store.copy()
  listC = store.tolist()
  cC = Counting(storeC)
  prepsC = {'formed': None, 'array': storeC, 'list': listC, 'callable': cC}
  prepsC = {k: v for k, v in prepsC.items() if k in ests}
  repsC = {}
  try:
    for rname, prep in prepsC.items():
      ests[rname].set_params(preprocessor=prep)
      gen.fit_quiet(ests[rname], storeC[idx] if rname == 'formed' else idx, *rest)
    krow = int(np.atleast_1d(idx).ravel()[0])
    newrow = (store[krow] + (store[(krow + 1) % n] - store[krow]) // 2) if store.dtype.kind in 'iu' else gen.grid(store[krow] * 0.5 + store[(krow + 1) % n] * 0.5 + 0.25).astype(store.dtype)
    storeC[krow] = newrow
    if 'list' in prepsC:
      listC[krow] = [float(v) for v in newrow]
    for rname in prepsC:
      try:
        gen.fit_quiet(ests[rname], storeC[idx] if rname == 'formed' else idx, *rest)
        repsC[rname] = state_digest(ests[rname])
      except Exception as e:
        repsC[rname] = 'EXC:' + type(e).__name__
    if not all(v == 'EXC:RuntimeError' for v in repsC.values()):
      events.append({'ev': 'PreprocCall', 'method': 'fit', 'size': int(size), 'T': Trows, 'digests': repsC, 'exc': '',
                     'calls': [], 'formed_calls': 0, 'dtype': 'refit_after_in_place_update_of_the_preprocessor'})
  except RuntimeError:
    pass
  for rname in ests:
    ests[rname].set_params(preprocessor=preps[rname])
    try:
      gen.fit_quiet(ests[rname], store[idx] if rname == 'formed' else idx, *rest)
    except Exception:
      pass
  # ---- an exception raised inside a preprocessor - of ANY class: a lookup error, a failing loader (OSError), a
  # run-time error, a user-defined one - surfaces as PreprocessorError, at fit and at query time
  class LoaderFailed(Exception):
    pass
  excs = [KeyError('boom'), IndexError('boom'), RuntimeError('boom'), FileNotFoundError('boom'), AttributeError('boom'),
          ZeroDivisionError('boom'), LoaderFailed('boom')]

  class Flaky:
    def __init__(self, st):
      self.st, self.fail = st, None

    def __call__(self, ii):
      if self.fail is not None:
        raise self.fail
      return self.st[np.asarray(ii, dtype=int)]
  fl = Flaky(store)
  est_f = gen.CLS[name](**dict(opts, preprocessor=fl))
  fitted_ok = True
  try:
    gen.fit_quiet(est_f, idx, *rest)
  except Exception:
    fitted_ok = False
  for (meth, msize) in [('fit', size)] + (methods_for(name)[:4] if fitted_ok else []):
    fl.fail = excs[int(rng.integers(len(excs)))]
    ev = {'ev': 'PreprocError', 'method': meth, 'exc': '', 'raised_inside': type(fl.fail).__name__}
    try:
      if meth == 'fit':
        gen.fit_quiet(gen.CLS[name](**dict(opts, preprocessor=fl)), idx, *rest)
      else:
        T = np.zeros((2, msize), dtype=int)
        labels = np.array([1, -1]) if (meth in ('score', 'calibrate_threshold') and kind == 'pairs') else None
        call(est_f, meth, T[:, 0] if msize == 1 else T, labels)
    except PreprocessorError:
      ev['exc'] = 'PreprocessorError'
    except Exception as e:
      ev['exc'] = type(e).__name__
    events.append(ev)
  return {'est': name, 'events': events}


def signature_of(recipe, tr, clause, pos):
  e = tr['events'][pos - 1] if 0 < pos <= len(tr['events']) else {}
  return {'estimator': recipe['est'], 'method': e.get('method')}


def load_patterns(ctx, npts, maxrows):
  cfgp = os.path.join(ctx.work, 'MC_Preproc.cfg')
  with open(cfgp, 'w') as f:
    f.write('CONSTANTS NPts = %d\n MaxRows = %d\n Sizes = {1, 2, 3, 4}\nINIT Init\nNEXT Next\n' % (npts, maxrows))
    for i in ['ColumnWiseIsPointWise', 'OneCallPerColumn', 'OrderPreserved']:
      f.write('INVARIANT %s\n' % i)
    f.write('CHECK_DEADLOCK FALSE\n')
  dump = os.path.join(ctx.work, 'patterns')
  r = core.run_tlc('MC_Preproc', cfgp, ctx.work, workers=8, extra=['-dump', dump])
  core.require_model_ok(r, 'MC_Preproc')
  ctx.states += r.distinct
  ctx.transitions += r.generated
  ctx.cmds.append(r.cmd)
  ctx.models.append(dict(module='MC_Preproc', distinct=r.distinct, generated=r.generated, wall_s=round(r.wall, 1)))
  pats = {}
  for m in re.finditer(r'State \d+:\s*\n(.*?)(?=\n\s*\n|\Z)', open(dump + '.dump').read(), re.S):
    st = tlaval.parse_state(m.group(1))
    pats.setdefault(str(st['size']), []).append(st['T'])
  return pats, r.distinct


def run(ctx):
  pats, npat = load_patterns(ctx, 3, 2)
  rng = np.random.default_rng(ctx.seed + 5)
  # random larger patterns: repeats, arbitrary order
  for size in (1, 2, 3, 4):
    for _ in range(10 if ctx.quick else 150):
      rows = int(rng.integers(3, 9))
      pats[str(size)].append(rng.integers(1, 9, size=(rows, size)).tolist())
  rs = []
  n_tr = 3 if ctx.quick else 40
  per = 14 if ctx.quick else 60
  for name in gen.ALL:
    for k in range(n_tr):
      sub = {}
      for size, lst in pats.items():
        pick = rng.choice(len(lst), size=min(per, len(lst)), replace=False)
        sub[size] = [lst[int(i)] for i in pick]
      rs.append(dict(est=name, d=int(rng.integers(2, 5)), seed=int(rng.integers(1 << 30)), patterns=sub,
                     store_dtype=['float64', 'float32', 'uint8', 'int64', 'int16', 'float64', 'uint8', 'int64'][(k + gen.ALL.index(name)) % 8]))
  ctx.rule = ('index arrays enumerated by TLC from MC_Preproc (%d patterns: <= 2 rows over 3 points, tuple sizes 1..4) plus '
              'random patterns with repeats up to 8 rows, sampled %d per size per trace, issued to all 17 estimators x every '
              'data-taking method x 4 representations x random integer dtypes; fit with permuted / tuple index arrays; '
              'distinct by (estimator, method, pattern, dtype); non-trivial = pattern with a repeated or out-of-order index'
              % (npat, per))
  pairs = core.generate(MOD, rs)
  core.judge(ctx, *SPEC, pairs, signature_of)
  for r, t in pairs:
    for e in t['events']:
      if e['ev'] == 'PreprocCall':
        flat = [v for row in e['T'] for v in row]
        ctx.note_case((r['est'], e['method'], str(e['T']), e.get('dtype')),
                      nontrivial=(len(set(flat)) < len(flat) or flat != sorted(flat)))
  ctx.sample({'estimator': pairs[0][1]['est'], 'events': pairs[0][1]['events'][:2]})
  ctx.extra['methods_covered'] = sorted({e['method'] for _, t in pairs for e in t['events']})
  good = next((t for r, t in pairs if any(e['ev'] == 'PreprocCall' and e['method'] != 'fit' and e['size'] >= 2 and len(e['calls']) >= 2
                                         and e['calls'][0] != e['calls'][1] for e in t['events'])), pairs[0][1])

  def swap_cols(t):
    for e in t['events']:
      if e['ev'] == 'PreprocCall' and e['method'] != 'fit' and e['size'] >= 2 and len(e['calls']) >= 2 and e['calls'][0] != e['calls'][1]:
        e['calls'][0], e['calls'][1] = e['calls'][1], e['calls'][0]
        return
  core.selftest_binding(ctx, *SPEC, good, swap_cols, 'X05.preprocessor_called', 'columns_swapped')

  def differ(t):
    t['events'][1]['digests']['callable'] = 'deadbeef'
  core.selftest_binding(ctx, *SPEC, good, differ, 'C05.same_result', 'callable_result_differs')


def replay(path, frozen=False):
  return core.standard_replay(MOD, PID, *SPEC, path, frozen)
