"""C03 - fit on well-formed input yields a valid Mahalanobis model of the right shape.

TLC enumerates the documented option product (MC_Options, Options.tla) as states; every state is
turned into real fits of /repo on generated well-formed training sets (and, where the same
configuration exists for another dimensionality, a REFIT of the same object on data of that
dimensionality); each fit is recorded as a 'Fit' event and TLC evaluates the postcondition
ObsFit!FitFails (returns self, real finite 2-D float components_ of the expected shape,
n_features_in_ of the last fit, transform shape, M symmetric PSD).
"""
import os
import re
import warnings
import numpy as np

import core
import gen
import tlaval
from num import dy, dyv, dym

MOD = 'checks.c03'
SPEC = ('TR_MetricLearn', 'TR_MetricLearn.cfg')
PID = 'C03'


def spd(rng, d):
  A = rng.normal(size=(d, d))
  return gen.grid(A.T.dot(A) + np.eye(d))


def build(cfg, rng, tr, default_n_constraints=False):
  """estimator for an enumerated configuration (concrete arrays / in-range hyper-parameters chosen here)"""
  name, d = cfg['cls'], cfg['d']
  o = dict(gen.FAST[name])
  nc = cfg['nc'] or None
  if default_n_constraints and name in ('ITML_Supervised', 'MMC_Supervised', 'LSML_Supervised'):
    o['n_constraints'] = None          # the documented default: 20 * n_classes ** 2
  if name in ('LFDA', 'LMNN', 'NCA', 'MLKR', 'RCA', 'RCA_Supervised'):
    o['n_components'] = nc
  if name in ('LMNN', 'NCA', 'MLKR'):
    o['init'] = gen.grid(rng.normal(size=(nc or d, d))) if cfg['opt'] == 'array' else cfg['opt']
    o['random_state'] = 5
  if name == 'LFDA':
    o['embedding_type'] = cfg['emb']
    o['k'] = cfg['k'] or None
  if name in ('ITML', 'ITML_Supervised', 'LSML', 'LSML_Supervised', 'SDML', 'SDML_Supervised'):
    o['prior'] = spd(rng, d) if cfg['opt'] == 'array' else cfg['opt']
    o['random_state'] = 5
  if name in ('MMC', 'MMC_Supervised'):
    o['init'] = spd(rng, d) if cfg['opt'] == 'array' else cfg['opt']
    o['random_state'] = 5
  if name in ('SCML', 'SCML_Supervised'):
    if cfg['opt'] == 'array':
      B = rng.normal(size=(4 * d, d))
      o['basis'] = B / np.linalg.norm(B, axis=1, keepdims=True)
      o['n_basis'] = None
    else:
      o['basis'] = cfg['opt']
      o['n_basis'] = 8 * d if cfg['opt'] == 'triplet_diffs' else None
  if name == 'RCA_Supervised':
    cap = int(sum(c // 2 for c in np.unique(tr['y'], return_counts=True)[1]))
    # in range: enough chunked points for an invertible within-chunk covariance (n_chunks * (chunk_size - 1) >= d,
    # otherwise RCA_Supervised itself warns that the transformation will contain NaN)
    o['n_chunks'] = min(cap, max(6, d + 2))
  if name in ('SDML', 'SDML_Supervised'):
    # keep the graphical-lasso input positive definite (the stated quantifier): balance_param is
    # chosen from a norm bound that holds for ANY pair subset of the data
    from sklearn.datasets import make_spd_matrix
    X = tr['X']
    if cfg['opt'] == 'identity':
      lam = 1.0
    elif cfg['opt'] == 'covariance':
      lam = float(np.linalg.eigvalsh(np.atleast_2d(np.cov(X, rowvar=False))).min())
    elif cfg['opt'] == 'random':
      lam = 1.0 / float(np.linalg.eigvalsh(make_spd_matrix(d, random_state=np.random.RandomState(5))).max())
    else:
      lam = 1.0 / float(np.linalg.eigvalsh(o['prior']).max())
    diam2 = float(((X.max(0) - X.min(0)) ** 2).sum())
    npairs = 2 * o.get('n_constraints', 20) if name.endswith('Supervised') else len(tr['idx'])
    o['balance_param'] = float(2.0 ** np.floor(np.log2(0.25 * lam / (npairs * diam2))))
  return gen.CLS[name](**o), o


def fit_event(est, cfg, tr, rng):
  X = tr['X']
  n, d = X.shape
  ev = {'ev': 'Fit', 'cfg': cfg, 'd': int(d), 'n': int(n), 'exc': '', 'returned_self': False, 'dtype_kind': '?',
        'ndim': -1, 'L': [], 'nfeat': -1, 'tshape': [], 'M': [], 'lowrank_warning': False, 'probes': []}
  with warnings.catch_warnings(record=True) as w:
    warnings.simplefilter('always')
    try:
      import contextlib, io
      with contextlib.redirect_stdout(io.StringIO()):
        ret = est.fit(*tr['fit_args'])
    except Exception as e:
      ev['exc'] = type(e).__name__
      ev['exc_msg'] = str(e)[:200]
      return ev
  ev['lowrank_warning'] = any('reduces the dimension' in str(x.message) for x in w)
  ev['returned_self'] = ret is est
  L = np.asarray(est.components_)
  ev['dtype_kind'] = L.dtype.kind
  ev['ndim'] = int(L.ndim)
  ev['L'] = dym(L) if L.ndim == 2 else []
  ev['nfeat'] = int(getattr(est, 'n_features_in_', -1))
  try:
    ev['tshape'] = [int(v) for v in est.transform(X).shape]
  except Exception as e:
    ev['tshape'] = [-1, -1]
  M = np.asarray(est.get_mahalanobis_matrix())
  ev['M'] = dym(M)
  probes = [np.eye(d)[i] for i in range(d)] + [rng.normal(size=d) for _ in range(3)]
  ev['probes'] = [dyv(p) for p in probes]
  return ev


def gen_trace(recipe):
  rng = np.random.default_rng(recipe['seed'])
  events = []
  est = None
  for cfg in recipe['cfgs']:
    name = cfg['cls']
    per = max(4, int(np.ceil(4.0 * cfg['d'] / cfg['ncls'])) + 1)
    # (class layouts: balanced, or one small class of the minimum size next to 2-3 times larger ones)
    X, y = gen.dataset(rng, d=cfg['d'], n_classes=cfg['ncls'], per_class=per, unbalanced=bool(recipe.get('unbalanced')))
    if recipe.get('relabel') and gen.KIND[name] == 'sup':
      y = gen.relabel(rng, y)         # class ids with gaps / not starting at 0
    tr = gen.training(rng, name, X=X, y=y)
    if est is None:
      est, opts = build(cfg, rng, tr, default_n_constraints=bool(recipe.get('unbalanced')))
      if recipe.get('verbose') and 'verbose' in est.get_params():
        est.set_params(verbose=True)        # (a documented option value: progress messages must not change what fit does)
    else:
      # refit of the SAME object on data of another dimensionality (same parameters)
      if name == 'RCA_Supervised':
        est.set_params(n_chunks=min(int(sum(c // 2 for c in np.unique(tr['y'], return_counts=True)[1])), max(6, cfg['d'] + 2)))
      if name in ('SDML', 'SDML_Supervised'):
        _, o2 = build(cfg, np.random.default_rng(1), tr)
        est.set_params(balance_param=min(est.balance_param, o2['balance_param']))
      if name == 'SCML' and cfg['opt'] == 'triplet_diffs':
        est.set_params(n_basis=8 * cfg['d'])
    events.append(fit_event(est, cfg, tr, rng))
  return {'est': recipe['cfgs'][0]['cls'], 'events': events}


def signature_of(recipe, tr, clause):
  c = recipe['cfgs'][0]
  sig = {'estimator': c['cls'], 'opt': c['opt']}
  if clause in ('C03.real_float_2d', 'C03.n_rows'):
    sig['n_components_given'] = bool(c['nc'])
    sig['reduced'] = bool(c['nc']) and c['nc'] < c['d']
  if clause == 'C03.n_features_in':
    failing = [i for i, e in enumerate(tr['events']) if e.get('exc') == '' and e.get('nfeat') != e.get('d')]
    sig['refit'] = bool(failing and failing[0] > 0)
  return sig


def enumerate_configs(ctx, dmin, dmax):
  cfgp = os.path.join(ctx.work, 'MC_Options.cfg')
  with open(cfgp, 'w') as f:
    f.write('CONSTANTS DMin = %d\n DMax = %d\nINIT Init\nNEXT Next\n' % (dmin, dmax))
    for i in ['KInRange', 'LdaRule', 'TypeOK', 'AutoTotal', 'AutoLdaOK']:
      f.write('INVARIANT %s\n' % i)
    f.write('CHECK_DEADLOCK FALSE\n')
  dump = os.path.join(ctx.work, 'options')
  r = core.run_tlc('MC_Options', cfgp, ctx.work, workers=4, extra=['-dump', dump])
  core.require_model_ok(r, 'MC_Options')
  ctx.states += r.distinct
  ctx.transitions += r.generated
  ctx.cmds.append(r.cmd)
  ctx.models.append(dict(module='MC_Options', distinct=r.distinct, generated=r.generated, wall_s=round(r.wall, 1)))
  txt = open(dump + '.dump').read()
  cfgs = []
  for m in re.finditer(r'State \d+:\s*\n(.*?)(?=\n\s*\n|\Z)', txt, re.S):
    st = tlaval.parse_state('/\\ ' + m.group(1).strip())
    cfgs.append(st['cfg'])
  if len(cfgs) != r.distinct:
    raise core.MachineryError('parsed %d configurations, TLC reports %d' % (len(cfgs), r.distinct))
  return cfgs


def run(ctx):
  dmax = 4 if ctx.quick else 8
  cfgs = enumerate_configs(ctx, 2, dmax)
  key = lambda c: (c['cls'], c['ncls'], c['nc'], c['opt'], c['emb'], c['k'])
  index = {}
  for c in cfgs:
    index.setdefault(key(c), {})[c['d']] = c
  rng = np.random.default_rng(ctx.seed + 3)
  reps = 1 if ctx.quick else 3
  rs = []
  for c in cfgs:
    for rep in range(reps):
      seq = [c]
      # a refit on another dimensionality, when TLC enumerated the same configuration for it and no
      # parameter is a dimension-specific array
      if c['opt'] != 'array':
        others = [d for d in index[key(c)] if d != c['d']]
        if others:
          d2 = others[int(rng.integers(len(others)))]
          seq.append(index[key(c)][d2])
      rs.append(dict(cfgs=seq, seed=int(rng.integers(1 << 30)), relabel=bool(rng.integers(2)), unbalanced=bool(rng.integers(3) == 0),
                     verbose=bool(rng.integers(4) == 0)))
  ctx.rule = ('every configuration enumerated by TLC from Options.tla (17 estimators x init/prior/basis x '
              'embedding_type x k x n_components x n_features %d..%d x n_classes 2..3) is fitted on a generated '
              'well-formed training set, %d time(s), plus a refit of the same object on another dimensionality; '
              'distinct = distinct configuration sequences; non-trivial = the fit was attempted on the real code'
              % (2, dmax, reps))
  ctx.rule += " Plus the executions of the repository's own test suite recorded by the pytest tracing plugin (one case per test / per estimator object; distinct by test id)."
  ctx.exhaustive = True
  pairs = core.generate(MOD, rs)
  core.judge(ctx, *SPEC, pairs, signature_of)
  for recipe, tr in pairs:
    ctx.note_case(str([sorted(c.items()) for c in recipe['cfgs']]))
  ctx.sample({'configuration_sequence': pairs[len(pairs) // 2][0]['cfgs'],
              'fit_events': [{k: (str(v)[:160]) for k, v in e.items()} for e in pairs[len(pairs) // 2][1]['events']]})
  ctx.extra['configurations_enumerated_by_TLC'] = len(cfgs)
  ctx.extra['fits_executed'] = sum(len(t['events']) for _, t in pairs)
  ctx.extra['exceptions_by_class'] = {}
  for _, t in pairs:
    for e in t['events']:
      if e['exc']:
        k = t['est'] + ':' + e['exc']
        ctx.extra['exceptions_by_class'][k] = ctx.extra['exceptions_by_class'].get(k, 0) + 1
  # fits performed by the repository's own tests: postcondition of ObjLife!Fit (fitted, n_features_in_ = features of
  # the data handed to fit, returns self) on every one of them
  import suite
  evs, summary = core.record_suite_calls(os.path.join(ctx.work, 'suite'),
                                         files=['test/test_fit_transform.py', 'test/test_mahalanobis_mixin.py'] if ctx.quick else ['test/'])
  lp = suite.judge_life(ctx, evs, 300 if ctx.quick else 0)
  ctx.extra['suite_object_histories']['pytest_summary'] = summary

  def stale_suite_nfeat(t):
    e = next(e for e in t['events'] if e['act'] == 'fit' and e['exc'] == '' and e['d'] != -1)
    e['after'] = dict(e['after'], nfeat=e['d'] + 1)
  lgood = next(t for r, t in lp if any(e['act'] == 'fit' and e['exc'] == '' and e['d'] != -1 for e in t['events']))
  core.selftest_binding(ctx, *suite.LIFE_SPEC, lgood, stale_suite_nfeat, 'C03.suite_fit_postcondition', 'suite_stale_n_features_in')
  good = next(t for r, t in pairs if all(e['exc'] == '' for e in t['events']))

  def corrupt_nfeat(t):
    t['events'][-1]['nfeat'] = t['events'][-1]['nfeat'] + 1

  def corrupt_rows(t):
    t['events'][0]['L'] = t['events'][0]['L'] + [t['events'][0]['L'][0]]
  core.selftest_binding(ctx, *SPEC, good, corrupt_nfeat, 'C03.n_features_in', 'stale_n_features_in')
  core.selftest_binding(ctx, *SPEC, good, corrupt_rows, 'C03.n_rows', 'extra_component_row')


def replay(path, frozen=False):
  return core.standard_replay(MOD, PID, *SPEC, path, frozen)
