"""C06 - malformed input is always rejected with ValueError; equivalent array-likes are equivalent.

TLC enumerates the descriptor grammar of spec/Validate.tla per (estimator kind, method) (MC_Validate,
documented form with up to 2 simultaneous deviations, with / without preprocessor).  Each state is
materialised into a concrete argument (harness, this file: pure synthesis from the structural
descriptor) and the method is called on a fitted (for fit: fresh) estimator of every class of that
kind; TLC (TR_Validate) compares the outcome with Validate!Outcome and, for well-formed arguments,
the result digests under list / integer / Fortran / non-contiguous / index+preprocessor forms.
"""
import os
import re
import warnings
import numpy as np

import core
import gen
import tlaval
from lifecycle import digest
from num import dyv

MOD = 'checks.c06'
SPEC = ('TR_Validate', 'TR_Validate.cfg')
PID = 'C06'

KIND_CLASSES = {
    (0, 'none', False): ['Covariance'],
    (0, 'class', True): ['LFDA', 'LMNN', 'NCA', 'RCA_Supervised'],
    (0, 'class', False): ['ITML_Supervised', 'MMC_Supervised', 'SDML_Supervised', 'LSML_Supervised', 'SCML_Supervised'],
    (0, 'real', True): ['MLKR'],
    (0, 'chunks', True): ['RCA'],
    (2, 'pair', False): ['ITML', 'MMC', 'SDML'],
    (3, 'none', False): ['SCML'],
    (4, 'none', False): ['LSML'],
}


def kind_key(k):
  return (k['tsize'], k['labels'], bool(k['ncomp']))


def int_dataset(rng, d):
  """well-formed data with INTEGER-valued coordinates (so that an int array holds the same numbers)"""
  while True:
    X, y = gen.dataset(rng, d=d, n_classes=2, per_class=max(5, 2 * d + 1), sep=6.0, bits=0)
    X = X * 1.0
    if len(np.unique(X, axis=0)) == len(X):
      return X, y


class Bench:
  """per (class, seed): training input, a fitted estimator with and without preprocessor"""
  def __init__(self, name, seed):
    rng = np.random.default_rng(seed)
    self.name = name
    self.rng = rng
    d = 3
    X, y = int_dataset(rng, d)
    self.tr = gen.training(rng, name, X=X, y=y)
    if gen.KIND[name] == 'reg':
      self.tr['fit_args'] = (X, np.round(self.tr['yreg'] * 4) / 4)
    if gen.KIND[name] == 'chunks':
      # both chunk layouts: some points outside every chunklet (label -1) / every point in a chunklet
      self.tr['fit_args'] = (X, gen.chunks_from(rng, y, with_unknown=bool(seed % 2)))
    self.X = X
    self.d = d
    self.store = X
    self.opts = dict(gen.FAST[name])
    if name.startswith('SDML'):
      self.opts['balance_param'] = 2.0 ** -20
      self.opts['prior'] = 'identity'           # (keeps the graphical-lasso input well conditioned on integer data)
    if name == 'RCA_Supervised':
      self.opts['n_chunks'] = min(6, int(sum(c // 2 for c in np.bincount(y))))
    if 'random_state' in gen.CLS[name]().get_params():
      self.opts['random_state'] = 11
    self.fitted = {}
    for prep in (False, True):
      est = gen.CLS[name](**dict(self.opts, preprocessor=(self.store if prep else None)))
      gen.fit_quiet(est, *self.tr['fit_args'])
      self.fitted[prep] = est

  def base(self, m, k, rng):
    """well-formed formed argument and labels for method m"""
    X = self.X
    ts = {'pair_distance': 2, 'pair_score': 2, 'score_pairs': 2, 'calibrate_threshold': 2}.get(m, k['tsize'])
    if m == 'fit':
      a = self.tr['fit_args']
      idx = self.tr['idx'] if self.tr['idx'] is not None else np.arange(len(X))
      return a[0], (a[1] if len(a) > 1 else None), idx
    if m == 'transform':
      idx = np.arange(4)
      return X[idx], None, idx
    n = 6
    idx = np.array([[(i + j * 3) % len(X) for j in range(ts)] for i in range(n)])
    labels = np.array([1, -1, 1, -1, 1, -1]) if (m in ('calibrate_threshold',) or (m == 'score' and ts == 2)) else None
    return X[idx], labels, idx


def materialise(bench, k, m, c, rng):
  formed, labels, idx = bench.base(m, k, rng)
  formed_ndim = formed.ndim
  prep = bool(c['prep'])
  nd = c['ndim']
  indexed = prep and nd == formed_ndim - 1
  if nd == formed_ndim:
    arr = formed.copy()
  elif indexed:
    arr = np.asarray(idx).copy()
  elif nd == 0:
    # a 0-D input in any of its spellings: Python number, numpy scalar, 0-d ndarray
    arr = [1.0, np.float64(1.0), np.array(1.0), np.zeros(())][int(rng.integers(4))]
  elif nd == 1:
    arr = np.arange(4) if prep else np.array([1.0, 2.0, 3.0, 4.0])
  elif nd == 2:
    arr = bench.X[:4].copy()
  elif nd == 3:
    arr = np.stack([bench.X[:4], bench.X[1:5]], axis=1)
  else:
    arr = np.stack([formed, formed], axis=-1) if formed.ndim == 3 else np.stack([bench.X[:4]] * 2, axis=1)[..., None].repeat(2, -1)
  structured = (nd == formed_ndim) or indexed
  if structured:
    # tuple axis
    if formed_ndim == 3:
      tcur = arr.shape[1]
      if c['t'] != tcur:
        arr = np.take(arr, [j % tcur for j in range(c['t'])], axis=1)
    # features
    if not indexed:
      if c['drel'] == 'less':
        arr = arr[..., :-1]
      elif c['drel'] == 'more':
        arr = np.concatenate([arr, arr[..., :1] + 1.0], axis=-1)
      elif c['drel'] == 'one':
        arr = arr[..., :1]                  # a single feature (the benches are fitted on >= 2)
    if c['empty'] == 'samples':
      arr = arr[:0]
      if labels is not None:
        labels = labels[:0]
    elif c['empty'] == 'features':
      arr = arr[..., :0]
    if indexed:
      # indicators are integers; the descriptor's dtype class only selects the integer width
      arr = np.asarray(arr).astype(np.int32 if c['dtype'] == 'int' else np.int64)
    elif c['dtype'] == 'int':
      arr = np.asarray(arr).astype(np.int64)
    elif c['dtype'] == 'float':
      arr = np.asarray(arr).astype(float)
    elif c['dtype'] == 'str':
      arr = np.asarray(arr).astype(object)
      if arr.size:
        arr.flat[arr.size // 2] = 'abc'          # a non-numeric entry
      arr = arr.astype(str)
    elif c['dtype'] == 'none':
      arr = np.asarray(arr).astype(object)
      if arr.size:
        arr.flat[0] = None
    if c['bad'] != 'none' and arr.size:
      arr = np.asarray(arr, dtype=float)
      val = {'nan': np.nan, 'inf': np.inf, 'neginf': -np.inf}[c['bad'].split('_')[0]]
      pos = {'first': 0, 'last': arr.size - 1, 'mid': arr.size // 2}[c['bad'].split('_')[1]]
      arr.flat[pos] = val
  if labels is not None:
    labels = np.array(labels, dtype=float) if c['lab'] == 'half' else np.array(labels)
    if c['lab'] == 'str' and len(labels):
      # a non-numeric entry among the pair labels (the array then holds strings)
      labels = np.array([str(int(v)) for v in labels], dtype=object)
      labels[0] = 'abc'
      labels = labels.astype(str) if rng.random() < 0.5 else labels
    if len(labels):
      if c['lab'] == 'zero':
        labels[0] = 0
      elif c['lab'] == 'two':
        labels[-1] = 2
      elif c['lab'] == 'half':
        labels[0] = 0.5
    if c['lenrel'] == 'shorter':
      labels = labels[:-1]
    elif c['lenrel'] == 'longer':
      labels = np.concatenate([labels, labels[:1]])
  return arr, labels


def ncomp_value(c, d):
  return {'na': None, 'none': None, 'one': 1, 'd': d, 'zero': 0, 'dplus1': d + 1, 'minus1': -1, 'minusd': -d}[c['ncomp']]


def invoke(bench, k, m, c, arr, labels, fresh_opts=None):
  """returns (outcome, result digest)"""
  name = bench.name
  prep = bool(c['prep'])
  with warnings.catch_warnings():
    warnings.simplefilter('ignore')
    try:
      if m == 'fit':
        o = dict(bench.opts, preprocessor=(bench.store if prep else None))
        if c['ncomp'] != 'na':
          o['n_components'] = ncomp_value(c, bench.d)
        est = gen.CLS[name](**o)
        args = (arr,) if labels is None else (arr, labels)
        est.fit(*args)
        vals = list(np.asarray(est.components_, dtype=float).ravel())
        if 'threshold_' in vars(est):
          vals.append(float(est.threshold_))
        if np.ndim(arr) == 2 and not prep:
          # the usual idiom est.fit(A, ...).transform(A): the same numbers whatever array-like A is
          vals.extend(np.asarray(est.transform(arr), dtype=float)[:3].ravel())
        return 'ok', dyv(vals)
      est = bench.fitted[prep]
      if m == 'score' and labels is not None:
        res = est.score(arr, labels)
      elif m == 'calibrate_threshold':
        est.calibrate_threshold(arr, labels)
        res = float(est.threshold_)
      else:
        res = getattr(est, m)(arr)
      return 'ok', dyv(np.asarray(res, dtype=float).ravel())
    except Exception as e:
      return type(e).__name__, []


def variants(arr):
  """equivalent array-likes holding the same numbers"""
  a = np.asarray(arr)
  out = [a.tolist(), np.asfortranarray(a)]
  big = np.zeros(tuple(2 * s for s in a.shape), dtype=a.dtype)
  sl = tuple(slice(None, None, 2) for _ in a.shape)
  big[sl] = a
  out.append(big[sl])
  if a.dtype.kind == 'f' and np.all(a == np.round(a)):
    out.append(a.astype(np.int64))
    out.append(a.astype(np.int32))
    # every integer type that HOLDS the numbers (narrow and unsigned ones included: image data is uint8)
    for dt in (np.int16, np.int8, np.uint8, np.uint16, np.uint32, np.uint64):
      info = np.iinfo(dt)
      if a.size and a.min() >= info.min and a.max() <= info.max:
        out.append(a.astype(dt))
  return out


def gen_trace(recipe):
  rng = np.random.default_rng(recipe['seed'])
  bench = Bench(recipe['est'], recipe['seed'])
  events = []
  for (k, m, c) in recipe['cases']:
    arr, labels = materialise(bench, k, m, c, rng)
    outcome, dg = invoke(bench, k, m, c, arr, labels)
    ev = {'ev': 'ValidateCall', 'k': k, 'm': m, 'c': c, 'outcome': outcome, 'base_vals': [], 'vals': [],
          'shape': list(np.shape(arr)), 'dtype': str(np.asarray(arr).dtype)}
    if outcome == 'ok':
      # reference: the documented float64 C-ordered formed argument of the same abstract call
      cdef = dict(c, ndim=(2 if (m == 'transform' or (m == 'fit' and k['tsize'] == 0)) else 3), dtype='float')
      a0, l0 = materialise(bench, k, m, cdef, rng)
      o0, d0 = invoke(bench, k, m, cdef, a0, l0)
      ev['base_vals'] = d0 if o0 == 'ok' else []
      ev['base_raised'] = o0 if o0 != 'ok' else ''
      ds = [dg]
      for v in variants(arr):
        o1, d1 = invoke(bench, k, m, c, v, labels)
        ds.append(d1 if o1 == 'ok' else [])
        if o1 != 'ok':
          ev['variant_raised'] = o1
      ev['vals'] = ds
      # the LABELS as equivalent array-likes too (list, tuple, float array holding the same numbers)
      if labels is not None and np.ndim(labels) == 1 and len(labels):
        lab = np.asarray(labels)
        lvs = [lab.tolist(), tuple(lab.tolist())]
        if lab.dtype.kind in 'iuf' and np.all(lab == np.round(lab)) and np.abs(lab).max() < 100:
          lvs += [lab.astype(float), lab.astype(np.int8)]           # (whole-number labels: any numeric type holds them)
        for lv in lvs:
          o1, d1 = invoke(bench, k, m, c, arr, lv)
          ds.append(d1 if o1 == 'ok' else [])
          if o1 != 'ok':
            ev['variant_raised'] = o1
    events.append(ev)
    if outcome == 'ok' and m == 'calibrate_threshold' and labels is not None and not c['prep']:
      # ... and under every calibration strategy: the stored threshold must not depend on how data and labels are spelled
      est = bench.fitted[False]
      lab = np.asarray(labels)
      for kw in (dict(strategy='max_tpr', min_rate=0.3), dict(strategy='max_tpr', min_rate=0.8), dict(strategy='max_tnr', min_rate=0.4),
                 dict(strategy='f_beta', beta=2.0)):
        def thr(a, l):
          with warnings.catch_warnings():
            warnings.simplefilter('ignore')
            try:
              est.calibrate_threshold(a, l, **kw)
              return dyv([float(est.threshold_)])
            except Exception:
              return []
        e2 = dict(ev, base_vals=thr(arr, lab), strategy=kw['strategy'])
        e2['vals'] = [thr(np.asarray(arr).tolist(), lab), thr(arr, lab.tolist()), thr(arr, tuple(lab.tolist())), thr(arr, lab.astype(float)),
                      thr(np.asfortranarray(arr), lab.tolist())]
        if e2['base_vals'] and np.all(np.isfinite([__import__('num').to_float(x) for x in e2['base_vals']])):
          events.append(e2)
  return {'est': recipe['est'], 'events': events}


def signature_of(recipe, tr, clause, pos):
  e = tr['events'][pos - 1] if 0 < pos <= len(tr['events']) else {}
  c, k, m = e.get('c', {}), e.get('k', {}), e.get('m')
  dev = []
  if c:
    default = {'empty': 'no', 'drel': 'fit', 'dtype': 'float', 'bad': 'none'}
    dev = sorted([f + '=' + str(c[f]) for f in default if c[f] != default[f]] +
                 ['lab=' + c['lab']] * (c['lab'] not in ('na', 'ok')) +
                 ['lenrel=' + c['lenrel']] * (c['lenrel'] not in ('na', 'eq')) +
                 ['ncomp=' + c['ncomp']] * (c['ncomp'] in ('zero', 'dplus1', 'minus1', 'minusd')) +
                 ['ndim=' + str(c['ndim'])])
  return {'method': m, 'deviation': dev, 'outcome': e.get('outcome'), 'tsize': k.get('tsize')}


def load_cases(ctx, maxdev):
  cfgp = os.path.join(ctx.work, 'MC_Validate.cfg')
  with open(cfgp, 'w') as f:
    f.write('CONSTANTS MaxDev = %d\nINIT Init\nNEXT Next\nINVARIANT OutcomeTotal\n'
            'INVARIANT WellFormedIffNoDeviationOrIndexed\nINVARIANT SingleDeviationRejected\nCHECK_DEADLOCK FALSE\n' % maxdev)
  dump = os.path.join(ctx.work, 'grammar')
  r = core.run_tlc('MC_Validate', cfgp, ctx.work, workers=core.NCPU, extra=['-dump', dump], xmx='8g')
  core.require_model_ok(r, 'MC_Validate')
  ctx.states += r.distinct
  ctx.transitions += r.generated
  ctx.cmds.append(r.cmd)
  ctx.models.append(dict(module='MC_Validate', MaxDev=maxdev, distinct=r.distinct, generated=r.generated,
                         wall_s=round(r.wall, 1)))
  cases = []
  for mm in re.finditer(r'State \d+:\s*\n(.*?)(?=\n\s*\n|\Z)', open(dump + '.dump').read(), re.S):
    st = tlaval.parse_state(mm.group(1))
    cases.append((st['k'], st['m'], st['c']))
  if len(cases) != r.distinct:
    raise core.MachineryError('parsed %d descriptors, TLC reports %d' % (len(cases), r.distinct))
  return cases


def run(ctx):
  cases = load_cases(ctx, 2)
  rng = np.random.default_rng(ctx.seed + 6)
  by_kind = {}
  for (k, m, c) in cases:
    by_kind.setdefault(kind_key(k), []).append((k, m, c))
  rs = []
  total = 0
  for kk, lst in sorted(by_kind.items()):
    names = KIND_CLASSES[kk]
    single = [x for x in lst if sum(1 for _ in [0]) and True]
    for name in names:
      if ctx.quick:
        # all single-deviation and well-formed descriptors, and a sample of the double deviations
        pick = [x for x in lst if deviations(x) <= 1]
        dbl = [x for x in lst if deviations(x) == 2]
        sel = rng.choice(len(dbl), size=min(len(dbl), 150), replace=False) if dbl else []
        pick = pick + [dbl[int(i)] for i in sel]
      else:
        pick = list(lst)
      total += len(pick)
      for i in range(0, len(pick), 120):
        rs.append(dict(est=name, seed=int(rng.integers(1 << 30)), cases=pick[i:i + 120]))
  ctx.rule = ('all %d descriptors of the grammar (MC_Validate, <= 2 simultaneous deviations from the documented form, with '
              'and without preprocessor) per (kind, method); %s are materialised and executed on every class of the '
              'kind (%d calls); distinct by (class, method, descriptor); non-trivial = a malformed descriptor'
              % (len(cases), 'all single deviations + 150 sampled double deviations per class' if ctx.quick else 'all', total))
  ctx.exhaustive = not ctx.quick
  pairs = core.generate(MOD, rs)
  core.judge(ctx, *SPEC, pairs, signature_of)
  outcomes = {}
  for r, t in pairs:
    for e in t['events']:
      ctx.note_case((r['est'], e['m'], str(sorted(e['c'].items()))), nontrivial=True)
      outcomes[e['outcome']] = outcomes.get(e['outcome'], 0) + 1
  ctx.extra['outcome_counts'] = outcomes
  ctx.sample({'estimator': pairs[0][1]['est'], 'event': pairs[0][1]['events'][0]})
  good = pairs[0][1]

  def accept_bad(t):
    for e in t['events']:
      if e['outcome'] == 'ValueError':
        e['outcome'] = 'ok'
        return
  core.selftest_binding(ctx, *SPEC, good, accept_bad, 'C06.malformed', 'malformed_input_accepted')


def deviations(x):
  k, m, c = x
  n = 0
  n += c['empty'] != 'no'
  n += c['drel'] != 'fit'
  n += c['dtype'] != 'float'
  n += c['bad'] != 'none'
  n += c['lab'] not in ('na', 'ok')
  n += c['lenrel'] not in ('na', 'eq')
  n += c['ncomp'] not in ('na', 'none')
  formed = 2 if (m == 'transform' or (m == 'fit' and k['tsize'] == 0)) else 3
  n += c['ndim'] != formed
  ts = 2 if m in ('pair_distance', 'pair_score', 'score_pairs', 'calibrate_threshold') else k['tsize']
  n += (formed == 3 and c['t'] != ts)
  return n


def replay(path, frozen=False):
  return core.standard_replay(MOD, PID, *SPEC, path, frozen)
