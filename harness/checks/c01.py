"""C01 - the learned distance is a finite pseudo-metric; pair_score is exactly the negated distance.

Pipeline: (1) TLC exhausts MC_Metric (the DEFINITION is a pseudo-metric on small exact domains);
(2) TLC simulates MC_Metric and the generated (L, x, y, z) are injected into real estimators through
documented options (spec -> code); (3) all 17 estimators are fitted on generated well-formed inputs
and queried on directed triples (code -> spec); (4) TLC validates every recorded behaviour with
TR_MetricLearn (clauses C01.*).
"""
import glob
import os
import numpy as np

import core
import gen
import obs
import tlaval

MOD = 'checks.c01'
SPEC = ('TR_MetricLearn', 'TR_MetricLearn.cfg')
PID = 'C01'

KINDS = ['train', 'dup_xy', 'dup_yz', 'all_same', 'collinear', 'tiny', 'huge', 'far', 'random', 'mixed_scale', 'nullspace', 'huge_f32', 'tiny_f32',
         'nullspace']
BIG = 2.0 ** 332        # ~ 1e100, an exact scaling


def null_direction(L):
  """a direction that the learned transformation (nearly) annihilates: the right singular vector of the smallest
  singular value (exactly in the null space for rank-deficient L)"""
  L = np.atleast_2d(np.asarray(L, float))
  d = L.shape[1]
  if L.shape[0] == 0:
    return np.eye(d)[0]
  _, _, vt = np.linalg.svd(L, full_matrices=True)
  return vt[-1]


def make_triple(rng, X, kind, L=None):
  n, d = X.shape
  i, j, k = (int(v) for v in rng.choice(n, size=3, replace=False))
  x, y, z = X[i].copy(), X[j].copy(), X[k].copy()
  if kind == 'dup_xy':
    y = x.copy()
  elif kind == 'dup_yz':
    z = y.copy()
  elif kind == 'all_same':
    y = x.copy(); z = x.copy()
  elif kind == 'collinear':
    y = (x + z) / 2.0          # exact on the dyadic grid
  elif kind == 'tiny':
    x, y, z = x / BIG, y / BIG, z / BIG
  elif kind == 'huge':
    x, y, z = x * BIG, y * BIG, z * BIG
  elif kind in ('huge_f32', 'tiny_f32'):
    # single-precision query points of large / small magnitude (exactly representable: few-bit grid values times 2^+-70)
    f = 2.0 ** 70 if kind == 'huge_f32' else 2.0 ** -70
    x, y, z = (np.round(v * 64.0) / 64.0 * f for v in (x, y, z))
  elif kind == 'far':
    off = np.round(rng.normal(size=d) * 2.0 ** 20)
    x, y, z = x + off, y + off * 3, z - off
  elif kind == 'random':
    x, y, z = rng.normal(size=d), rng.normal(size=d) * 10, rng.normal(size=d) * 0.01
  elif kind == 'mixed_scale':
    x, y, z = x / BIG, y, z * 2.0 ** 100
  elif kind == 'nullspace' and L is not None:
    # distinct points that the learned pseudo-metric identifies (rank-deficient models: n_components < n_features,
    # low-rank SCML, singular metrics): y - x lies in the (numerical) null space of L
    v = null_direction(L)
    y = x + v * float(rng.choice([1.0, 37.5, 1e3]))
    z = y + v * float(rng.choice([0.5, 8.0]))
  return x, y, z


def gen_trace(recipe):
  rng = np.random.default_rng(recipe['seed'])
  name = recipe['est']
  if recipe['src'] == 'grid':
    # spec -> code: an integer L produced by TLC is installed through documented options
    L0 = np.array(recipe['L'], float)
    k, d = L0.shape
    Xtr, ytr = gen.dataset(rng, d=d, n_classes=2, per_class=max(4, 2 * d))
    if name == 'NCA':
      est = gen.NCA(init=L0, n_components=k, tol=1e10, max_iter=1)
      est.fit(Xtr, ytr)
    elif name == 'MLKR':
      est = gen.MLKR(init=L0, n_components=k, tol=1e10, max_iter=1)
      est.fit(Xtr, gen.grid(Xtr[:, 0] + 0.25 * ytr))
    else:
      est = gen.LMNN(init=L0, n_components=k, max_iter=1, n_neighbors=1)
      est.fit(Xtr, ytr)
    events = [obs.model_event(est)]
    events[0]['injected'] = [[int(v) for v in row] for row in L0.tolist()]
    for (x, y, z) in recipe['triples']:
      events.append(obs.triple_event(est, x, y, z))
    return {'est': name, 'events': events}
  if recipe.get('store'):
    # query points kept in the estimator's preprocessor array, of an INTEGER type, and addressed by index pairs
    dt = np.dtype(recipe['store'])
    tr = gen.training(rng, name, d=recipe['d'])
    X = tr['X']
    info = np.iinfo(dt)
    lo = max(int(info.min), -(2 ** 20))
    span = min(int(info.max) - lo, 4000)
    rows = rng.choice(len(X), size=10, replace=len(X) < 10)
    store = (np.round((X[rows] - X.min()) / (X.max() - X.min()) * span) + lo).astype(dt)
    store[1] = store[0]                                        # a duplicated point
    opts = gen.options(rng, name, recipe['d'], len(set(tr['y'].tolist())))
    opts['preprocessor'] = store
    est, tr, opts = gen.fitted(rng, name, opts=opts, train=tr)
    events = [obs.model_event(est)]
    metric = est.get_metric()
    for _ in range(recipe['n']):
      i, j, k = (int(v) for v in rng.choice(len(store), size=3, replace=False))
      e = obs.index_triple_event(est, store, i, j, k, metric)
      e['kind'] = 'index_' + recipe['store']
      events.append(e)
    return {'est': name, 'opts': {'preprocessor': recipe['store']}, 'shape': list(est.components_.shape), 'events': events}
  est, tr, opts = gen.fitted(rng, name, d=recipe['d'])
  events = [obs.model_event(est)]
  metric = est.get_metric()
  kinds = recipe['kinds']
  for kind in kinds:
    x, y, z = make_triple(rng, tr['X'], kind, est.components_)
    e = obs.triple_event(est, x, y, z, metric, dtype=np.float32 if kind.endswith('_f32') else None)
    e['kind'] = kind
    events.append(e)
  return {'est': name, 'opts': {k: (v if isinstance(v, (int, float, str, bool, type(None))) else 'array')
                                for k, v in opts.items()},
          'shape': list(est.components_.shape), 'events': events}


def signature_of(recipe, tr, clause):
  return {'estimator': recipe['est'], 'src': recipe['src']}


def recipes(ctx):
  rng = np.random.default_rng(ctx.seed)
  n_cfg = 2 if ctx.quick else 8
  n_tri = 10 if ctx.quick else 30
  out = []
  for name in gen.ALL:
    for c in range(n_cfg):
      kinds = list(KINDS) + [KINDS[int(v)] for v in rng.integers(len(KINDS), size=max(0, n_tri - len(KINDS)))]
      out.append(dict(src='fit', est=name, d=int(rng.integers(2, 5 if ctx.quick else 9)),
                      seed=int(rng.integers(1 << 30)), kinds=kinds))
    # the query points live in an integer-typed preprocessor array and are addressed by index
    for c in range(1 if ctx.quick else 4):
      out.append(dict(src='fit', est=name, d=int(rng.integers(2, 5)), seed=int(rng.integers(1 << 30)), kinds=[],
                      store=str(rng.choice(['uint8', 'int8', 'uint16', 'int16', 'uint32', 'int64', 'uint64'])), n=6 if ctx.quick else 12))
  return out


MC_CFGS = {
    'quick': [(1, 2, 2, 1), (2, 2, 1, 1), (1, 3, 1, 1)],
    'thorough': [(1, 2, 2, 2), (2, 2, 2, 1), (1, 3, 2, 1), (2, 3, 1, 1), (2, 2, 1, 2)],
}
INVS = ['NonNegative', 'ZeroSelf', 'Symmetric', 'Triangle', 'ViewM', 'ViewEmbed', 'MSymmetric', 'MPSD',
        'TriangleFormOK']


def write_mc_cfg(path, K, D, R, P):
  with open(path, 'w') as f:
    f.write('CONSTANTS K = %d\n D = %d\n R = %d\n P = %d\nINIT Init\nNEXT Next\n' % (K, D, R, P))
    for i in INVS:
      f.write('INVARIANT %s\n' % i)
    f.write('CHECK_DEADLOCK FALSE\n')


def model_phase(ctx):
  for (K, D, R, P) in MC_CFGS[ctx.tier]:
    cfg = os.path.join(ctx.work, 'MC_Metric_%d%d%d%d.cfg' % (K, D, R, P))
    write_mc_cfg(cfg, K, D, R, P)
    ctx.model('MC_Metric', cfg, tag='MC_Metric_%d%d%d%d' % (K, D, R, P))


def grid_recipes(ctx):
  """simulate MC_Metric; every behaviour (L, then a triple) becomes a case for the real code"""
  out = []
  ests = ['NCA', 'LMNN', 'MLKR']
  for gi, (K, D, R, P) in enumerate([(1, 2, 2, 2), (2, 2, 2, 2), (2, 3, 2, 2)]):
    cfg = os.path.join(ctx.work, 'SIM_Metric_%d%d.cfg' % (K, D))
    write_mc_cfg(cfg, K, D, R, P)
    simdir = os.path.join(ctx.work, 'sim%d' % gi)
    os.makedirs(simdir, exist_ok=True)
    num = 60 if ctx.quick else 400
    ctx.model('MC_Metric', cfg, workers=1, simulate='file=%s/b,num=%d' % (simdir, num),
              must_complete=False, tag='SIM_Metric_%d%d' % (K, D))
    byL = {}
    for fpath in sorted(glob.glob(simdir + '/b*')):
      states = tlaval.parse_sim_file(fpath)
      if len(states) < 4:
        continue
      s = states[3][1]
      byL.setdefault(str(s['L']), (s['L'], []))[1].append((s['x'], s['y'], s['z']))
    for i, (key, (L, triples)) in enumerate(sorted(byL.items())):
      out.append(dict(src='grid', est=ests[i % 3], L=L, triples=triples[:6], seed=1000 + i))
  return out


def run(ctx):
  ctx.rule = ('MC: all integer L in -R..R^(KxD) x all point triples on -P..P^D. Conformance: one trace per '
              'fitted model (17 estimators x sampled documented options) with directed query triples '
              '(training points, duplicates, collinear, 2^+-332 scaling, far, random, mixed scales); a case is '
              'distinct by (estimator, options, dimension, triple kind) and non-trivial when the model has '
              'a non-zero transformation')
  model_phase(ctx)
  rs = grid_recipes(ctx) + recipes(ctx)
  pairs = core.generate(MOD, rs)
  verdicts, _ = core.judge(ctx, *SPEC, pairs, signature_of)
  for recipe, tr in pairs:
    for e in tr['events'][1:]:
      nz = any(v[0] != 0 for row in tr['events'][0]['L'] for v in row)
      ctx.note_case((recipe['est'], recipe['src'], str(tr.get('opts')), e.get('kind', 'grid'),
                     str(e['x'])[:80]), nontrivial=nz)
  ctx.sample({'estimator': pairs[-1][1]['est'], 'opts': pairs[-1][1].get('opts'),
              'first_triple_event': {k: str(v)[:200] for k, v in pairs[-1][1]['events'][1].items()}})
  ctx.sample({'grid_case_from_TLC': {'L': pairs[0][0].get('L'), 'triples': pairs[0][0].get('triples')}})
  ctx.extra['estimators_covered'] = sorted({r['est'] for r, _ in pairs})
  ctx.extra['rank_deficient_models'] = sum(1 for r, t in pairs if t.get('shape') and t['shape'][0] < t['shape'][1])
  # binding self-test: corrupt one logged distance / break exact symmetry
  good = next(t for r, t in pairs if r['src'] == 'fit')

  def corrupt_sym(t):
    e = t['events'][1]
    e['pd'][1] = list(e['pd'][4])     # d(y,x) := d(x,z)

  def corrupt_score(t):
    e = t['events'][1]
    e['ps'][0] = list(e['pd'][0])     # pair_score not negated
  core.selftest_binding(ctx, *SPEC, good, corrupt_sym, 'C01.pair_distance', 'asymmetric_distance')
  core.selftest_binding(ctx, *SPEC, good, corrupt_score, 'C01.pair_score', 'score_not_negated')


def replay(path, frozen=False):
  return core.standard_replay(MOD, PID, *SPEC, path, frozen)
