"""C02 - all views of the learned metric agree with M = L^T L.

Model: MC_Metric invariants ViewM / ViewEmbed / MSymmetric / MPSD (exhaustive on the integer grid).
Conformance: per fitted model one 'Views' event holding, for the same abstract query, the outputs of
transform, get_mahalanobis_matrix, pair_distance, pair_score, score_pairs (+FutureWarning), get_metric
(plain and squared) and of the same query issued as list / Fortran / non-contiguous / integer dtype /
single-pair batches / indices through an array or callable preprocessor.  TLC recomputes everything
from the logged components_ alone (ObsMetric!ViewsFails).
"""
import os
import numpy as np

import core
import gen
import obs
import suite
from checks import c01

MOD = 'checks.c02'
SPEC = ('TR_MetricLearn', 'TR_MetricLearn.cfg')
PID = 'C02'


def reprs_for(store_offset, integer):
  def as_list(X, pairs):
    return X.tolist(), pairs.tolist()

  def fortran(X, pairs):
    return np.asfortranarray(X), np.asfortranarray(pairs)

  def noncontig(X, pairs):
    bx = np.zeros((2 * len(X), X.shape[1] * 2))
    bx[::2, ::2] = X
    bp = np.zeros((2 * len(pairs), 2, pairs.shape[2] * 2))
    bp[::2, :, ::2] = pairs
    return bx[::2, ::2], bp[::2, :, ::2]

  def int64(X, pairs):
    return X.astype(np.int64), pairs.astype(np.int64)

  def int32_list(X, pairs):
    return [[int(v) for v in r] for r in X], [[[int(v) for v in p] for p in pr] for pr in pairs]

  out = [('list', as_list), ('fortran', fortran), ('noncontiguous', noncontig)]
  if integer:
    out += [('int64', int64), ('python_int_list', int32_list)]
  return out


class _SinglePair:
  """est.pair_distance called once per pair (single-pair batches)"""
  pass


SUITE_KINDS = ('CallPairs', 'CallTransform', 'CallMatrix')


def gen_trace(recipe):
  if recipe.get('suite'):
    return suite.regen(recipe, SUITE_KINDS)
  rng = np.random.default_rng(recipe['seed'])
  name = recipe['est']
  tr = gen.training(rng, name, d=recipe['d'])
  Xtr = tr['X']
  d = Xtr.shape[1]
  # query points: training points, a duplicate, random off-grid points, integer points
  nq = 6
  if recipe['qkind'] == 'integer':
    Xq = np.round(rng.normal(size=(nq, d)) * 4.0)
  elif recipe['qkind'] == 'train':
    Xq = Xtr[rng.choice(len(Xtr), size=nq, replace=False)].copy()
  elif recipe['qkind'] == 'offset':
    # points with a LARGE common offset and small exact differences (time stamps, map coordinates): x - x' is exact
    Xq = 2.0 ** 40 * np.round(rng.normal(size=d) * 3.0) + np.round(rng.normal(size=(nq, d)) * 64.0) / 1024.0
  else:
    Xq = rng.normal(size=(nq, d)) * (10.0 ** rng.integers(-3, 4))
  Xq[1] = Xq[0]
  if recipe['qkind'] != 'integer':
    # a NEAR duplicate (distinct points agreeing to ~6 digits): its distance is small, not zero
    Xq[5] = Xq[4] * (1.0 + 2.0 ** -19) + 2.0 ** -30
  store = np.vstack([Xtr, Xq])
  off = len(Xtr)
  prep = store if recipe['prep'] == 'array' else (lambda idx, _s=store: _s[np.asarray(idx, dtype=int)])
  opts = gen.options(rng, name, d, len(set(tr['y'].tolist())))
  opts['preprocessor'] = prep
  est, tr, opts = gen.fitted(rng, name, opts=opts, train=tr)
  if recipe.get('refit'):
    # the SAME object is then fitted on other data of the same dimensionality, every view is used, and it is fitted back on
    # the first data: the views of a model are those of its current components_ (nothing may survive a refit)
    import warnings as _w
    rng2 = np.random.default_rng(recipe['seed'] + 1)
    tr2 = gen.training(rng2, name, d=d)
    with _w.catch_warnings():
      _w.simplefilter('ignore')
      try:
        est.fit(*tr2['fit_args'], **tr2['fit_kwargs'])
        est.get_mahalanobis_matrix(); est.get_metric(); est.transform(tr2['X'][:3]); est.pair_distance(tr2['X'][:4].reshape(2, 2, -1))
      except (RuntimeError, ValueError):
        pass          # (this data does not suit the sampled options, e.g. SDML's solver: the first data is fitted again anyway)
      est.fit(*tr['fit_args'], **tr['fit_kwargs'])
  if recipe['qkind'] == 'random':
    # two query points whose difference the learned transformation annihilates (rank-deficient models)
    v = c01.null_direction(est.components_)
    store[off + 3] = store[off + 2] + v * 12.5
    Xq[3] = store[off + 3]
  P = [(0, 1), (0, 2), (2, 0), (3, 4), (4, 5), (5, 5), (1, 3), (2, 5), (2, 3), (3, 2)]
  rl = reprs_for(off, recipe['qkind'] == 'integer')
  ev = obs.views_event(est, Xq, P, rl)
  # one LARGE batch (more pairs / points than any buffer or chunk size a vectorised implementation is likely to use): the
  # query pairs sit at the start, around 2^16 and at the very end of 70 001 pairs; the outputs at those positions are logged
  pairs = Xq[np.asarray(P)]
  nbig = 70001
  pos = [0, 1, 2, 65535, 65536, 65537, nbig - 4, nbig - 3, nbig - 2, nbig - 1][:len(P)]
  big = np.repeat(pairs[:1], nbig, axis=0)
  big[pos] = pairs[:len(pos)]
  bigX = np.repeat(Xq[:1], nbig, axis=0)
  xpos = [0, 65535, 65536, nbig - 3, nbig - 2, nbig - 1][:nq]
  bigX[xpos] = Xq[:len(xpos)]
  pd_big = np.asarray(est.pair_distance(big))
  t_big = np.asarray(est.transform(bigX))
  if len(pos) == len(P) and len(xpos) == nq:
    ev['reprs'].append({'name': 'large_batch', 'pd': obs.dyv(pd_big[pos]), 'transform': obs.dym(t_big[xpos])})
  if recipe['qkind'] == 'integer':
    # pairs as UNSIGNED / narrow integer arrays (translated into the type's range: distances are translation invariant)
    for dt in (np.uint64, np.uint8, np.int8):
      info = np.iinfo(dt)
      shift = (np.floor(-Xq.min(axis=0)) + 3) if info.min == 0 else np.zeros(d)
      Q = Xq + shift
      if Q.min() >= info.min and Q.max() <= info.max:
        Qi = Q.astype(dt)
        ev['reprs'].append({'name': 'pairs_as_%s' % np.dtype(dt).name, 'pd': obs.dyv(est.pair_distance(Qi[np.asarray(P)])),
                            'transform': obs.dym(est.transform(Xq))})
    # the get_metric() function on integer VECTORS of narrow / unsigned types (the points translated into the type's range:
    # the learned distance is translation invariant)
    metric = est.get_metric()
    for dt in (np.uint8, np.uint16, np.int8):
      info = np.iinfo(dt)
      shift = np.floor(-Xq.min(axis=0)) + (3 if info.min == 0 else 0) if info.min == 0 else np.zeros(d)
      Q = Xq + shift
      if Q.min() >= info.min and Q.max() <= info.max:
        Qi = Q.astype(dt)
        ev['reprs'].append({'name': 'get_metric_on_%s_vectors' % np.dtype(dt).name,
                            'pd': obs.dyv([metric(Qi[i], Qi[j]) for i, j in P]), 'transform': obs.dym(est.transform(Xq))})
    # the query points kept in an INTEGER-typed preprocessor array and addressed by index (a second estimator with the same
    # options fitted on the same formed training data: the same model, C17)
    import warnings as _w2
    for dt in (np.uint8, np.uint16, np.int8, np.uint64):
      info = np.iinfo(dt)
      shift = (np.floor(-Xq.min(axis=0)) + 3) if info.min == 0 else np.zeros(d)
      Q = Xq + shift
      if not (Q.min() >= info.min and Q.max() <= info.max) or not isinstance(opts.get('preprocessor'), np.ndarray):
        continue
      est_i = gen.CLS[name](**dict(opts, preprocessor=Q.astype(dt)))
      try:
        with _w2.catch_warnings():
          _w2.simplefilter('ignore')
          est_i.fit(*tr['fit_args'], **tr['fit_kwargs'])
      except Exception:
        continue
      if est_i.components_.shape == est.components_.shape and np.array_equal(est_i.components_, est.components_):
        ev['reprs'].append({'name': 'indices_into_%s_store' % np.dtype(dt).name, 'pd': obs.dyv(est_i.pair_distance(np.asarray(P))),
                            'transform': obs.dym(est.transform(Xq))})       # (the embedding is not translation invariant: not compared)
  # single-pair batches
  single = np.concatenate([est.pair_distance(pairs[i:i + 1]) for i in range(len(P))])
  tsingle = np.vstack([est.transform(Xq[i:i + 1]) for i in range(nq)])
  ev['reprs'].append({'name': 'single_batches', 'pd': obs.dyv(single), 'transform': obs.dym(tsingle)})
  # indices through the preprocessor
  idxp = np.asarray(P) + off
  idxx = np.arange(nq) + off
  for nm, conv in (('indices_int64', lambda a: a.astype(np.int64)), ('indices_int32', lambda a: a.astype(np.int32)),
                   ('indices_list', lambda a: a.tolist()),
                   # the index array in any memory layout: Fortran-ordered, or the transposed view np.array([left, right]).T
                   ('indices_fortran', lambda a: np.asfortranarray(a.astype(np.int64))),
                   ('indices_transposed_view', lambda a: (np.ascontiguousarray(a.T.astype(np.int64)).T if a.ndim == 2 else a.astype(np.int64)))):
    ev['reprs'].append({'name': nm + '_' + recipe['prep'], 'pd': obs.dyv(est.pair_distance(conv(idxp))),
                        'transform': obs.dym(est.transform(conv(idxx)))})
  ev['qkind'] = recipe['qkind']
  o = {k: (v if isinstance(v, (int, float, str, bool, type(None))) else 'array/callable') for k, v in opts.items()}
  return {'est': name, 'opts': o, 'shape': list(est.components_.shape), 'events': [obs.model_event(est), ev]}


def signature_of(recipe, tr, clause):
  return {'estimator': recipe['est']}


def recipes(ctx):
  rng = np.random.default_rng(ctx.seed + 2)
  n_cfg = 4 if ctx.quick else 12
  out = []
  for name in gen.ALL:
    for c in range(n_cfg):
      out.append(dict(est=name, d=int(rng.integers(2, 5 if ctx.quick else 9)), seed=int(rng.integers(1 << 30)),
                      qkind=['integer', 'train', 'random', 'offset'][c % 4], prep=['array', 'callable'][(c // 3 + c) % 2],
                      refit=bool(c % 2)))
  return out


def run(ctx):
  ctx.rule = ('MC: MC_Metric view invariants on the integer grid. Conformance: one Views event per fitted model '
              '(17 estimators x sampled options x query kind {integer, training, random off-grid} x preprocessor kind), '
              '8 query pairs incl. identical points, 8-10 representations each; distinct by (estimator, options, '
              'query kind, preprocessor kind); non-trivial when components_ is non-zero. Plus: every outermost public call '
              '(pair_distance/pair_score/score_pairs/decision_function/transform/get_mahalanobis_matrix) made by the repository\'s own tests '
              '(5 test files, recorded by a pytest plugin) validated against the same definitions')
  c01.model_phase(ctx)
  pairs = core.generate(MOD, recipes(ctx))
  core.judge(ctx, *SPEC, pairs, signature_of)
  for recipe, tr in pairs:
    nz = any(v[0] != 0 for row in tr['events'][0]['L'] for v in row)
    ctx.note_case((recipe['est'], str(tr['opts']), recipe['qkind'], recipe['prep'], recipe['d']), nontrivial=nz)
  # behaviours of the repository's own test suite, validated against the same specification
  evs, summary = core.record_suite_calls(os.path.join(ctx.work, 'suite'))
  spairs = suite.traces_from(evs, SUITE_KINDS, 160 if ctx.quick else 0, np.random.default_rng(ctx.seed))
  if len(spairs) < 50:
    raise core.MachineryError('only %d traces recorded from the repository test suite (%s)' % (len(spairs), summary))
  core.judge(ctx, *SPEC, spairs, signature_of, tag='suite')
  for recipe, tr in spairs:
    ctx.note_case(('suite', recipe['test']))
  ctx.extra['suite_traces'] = {'pytest_summary': summary, 'calls_recorded': len(evs), 'tests_validated': len(spairs),
                               'events_validated': sum(len(t['events']) for _, t in spairs),
                               'estimators': sorted({r['est'] for r, _ in spairs})}
  def halve_suite(t):
    e = t['events'][0]
    if e['ev'] == 'CallTransform':
      e['out'] = [[[v[0], v[1] - 1, v[2]] if v[0] else [1, 0, [1]] for v in row] for row in e['out']]
    else:
      e['out'] = [[v[0], v[1] - 1, v[2]] if v[0] else [1, 0, [1]] for v in e['out']]
  sgood = next(t for r, t in spairs if any(v[0] != 0 for row in t['events'][0]['L'] for v in row))
  core.selftest_binding(ctx, *SPEC, sgood, halve_suite, 'C02.suite_call_', 'suite_output_rescaled')
  t = pairs[0][1]
  ctx.sample({'estimator': t['est'], 'opts': t['opts'], 'views_event_keys': sorted(t['events'][1].keys()),
              'representations': [r['name'] for r in t['events'][1]['reprs']],
              'pairs': t['events'][1]['pairs'], 'pd': str(t['events'][1]['pd'])[:300]})
  ctx.extra['estimators_covered'] = sorted({r['est'] for r, _ in pairs})
  ctx.extra['rank_deficient_models'] = sum(1 for r, t in pairs if t['shape'][0] < t['shape'][1])
  good = pairs[0][1]

  def corrupt_transpose(t):
    e = t['events'][1]
    e['M'] = [list(r) for r in zip(*e['transform'])][:len(e['M'])] if False else [row[::-1] for row in e['M']]

  def corrupt_squared(t):
    e = t['events'][1]
    e['gq'] = list(e['gm'])          # squared flag ignored
  core.selftest_binding(ctx, *SPEC, good, corrupt_squared, 'C02.get_metric_squared', 'squared_flag_ignored')
  core.selftest_binding(ctx, *SPEC, good, corrupt_transpose, 'C02.M_is_LtL', 'M_columns_reversed')


def replay(path, frozen=False):
  return core.standard_replay(MOD, PID, *SPEC, path, frozen)
