"""C15 - SCML learns a non-negative combination of its basis by the documented scheme.

Model: MC_SCML (best-checkpoint bookkeeping: the first lowest checkpoint wins).  Conformance: real SCML /
SCML_Supervised fits; the basis and best weights handed to the components builder and the distance-difference
matrix are observed by wrapping the helpers (no source change), the mini-batches are regenerated from the integer
seed; TLC (TR_SCML) checks M = sum w_i b_i b_i^T, w >= 0, the basis and low-rank clauses, and re-executes the
dual-averaging scheme step by step (witnessed roots / quotients verified, hinge decisions taken by TLC) to decide
that the reported weights are those of the first checkpoint with the lowest objective.
"""
import warnings
import numpy as np

import core
import gen
import metric_learn.scml as scml_mod
from num import dy, dyv, dym

MOD = 'checks.c15'
SPEC = ('TR_SCML', 'TR_SCML.cfg')
PID = 'C15'


class Probe:
  def __init__(self):
    self.o1 = scml_mod._BaseSCML._components_from_basis_weights
    self.o2 = scml_mod._BaseSCML._compute_dist_diff
    self.basis = self.w = self.dd = None

  def __enter__(self):
    pr = self

    def cfb(self_, basis, w):
      pr.basis, pr.w = np.array(basis, float).copy(), np.array(w, float).copy().ravel()
      return pr.o1(self_, basis, w)

    def cdd(self_, triplets, X, basis):
      out = pr.o2(self_, triplets, X, basis)
      # the DOCUMENTED distance differences, computed here from the arguments (not read from the library's result): per
      # triplet (a, b, c) and basis element e,  (e . (x_a - x_b))^2 - (e . (x_a - x_c))^2
      T = np.asarray(triplets)
      XB = np.matmul(np.asarray(X, float), np.asarray(basis, float).T)
      pr.dd = np.square(XB[T[:, 0]] - XB[T[:, 1]]) - np.square(XB[T[:, 0]] - XB[T[:, 2]])
      pr.dd_lib_equal = bool(np.shape(out) == pr.dd.shape and np.allclose(out, pr.dd, rtol=1e-12, atol=0))
      return out
    scml_mod._BaseSCML._components_from_basis_weights = cfb
    scml_mod._BaseSCML._compute_dist_diff = cdd
    return self

  def __exit__(self, *a):
    scml_mod._BaseSCML._components_from_basis_weights = self.o1
    scml_mod._BaseSCML._compute_dist_diff = self.o2


def transcription(D, batches, beta, gamma, bsz, max_iter):
  """untrusted witnesses: per iteration r = sqrt(Q) and w; the hinge decisions are re-taken by TLC"""
  nb = D.shape[1]
  w = np.zeros(nb); S = np.zeros(nb); Q = np.zeros(nb)
  steps = []
  for t in range(max_iter):
    idx = batches[t]
    slack = 1 + D[idx].dot(w)
    raw = D[idx[slack > 0]].sum(axis=0) if (slack > 0).any() else np.zeros(nb)
    S = S + raw
    Q = Q + raw ** 2
    r = np.sqrt(Q)
    numer = np.maximum(-(S + bsz * (t + 1) * beta), 0.0)
    w = numer / (gamma * (bsz * 0.001 + r))
    steps.append({'r': dyv(r), 'w': dyv(w)})
  return steps


def gen_case(rng, supervised, lda_tail=False):
  d = int(rng.integers(2, 4))
  ncls = 3 if lda_tail else int(rng.integers(2, 4))
  sep = float(rng.choice([1.0, 3.0, 3.0]))        # well-separated classes activate bases; overlapping ones keep w = 0
  X, y = gen.dataset(rng, d=d, n_classes=ncls, per_class=int(rng.integers(5, 8)), bits=4, sep=sep)
  seed = int(rng.integers(1000))
  max_iter = int(rng.choice([12, 24, 40]))
  output_iter = int(rng.choice([1, 4, 6, 12]))
  bsz = int(rng.integers(1, 5))
  few_triplets = (not supervised) and rng.random() < 0.25
  disjoint = (not supervised) and (not few_triplets) and rng.random() < 0.3
  if few_triplets:
    bsz = int(rng.integers(6, 11))                   # (10 is the documented default)
  beta = float(rng.choice([1e-5, 1e-3, 1e-2]))
  # (weights scale like 1 / gamma: a huge gamma gives strictly positive weights of order 1e-10 - still ACTIVE bases)
  gamma = float(rng.choice([5e-3, 5e-2, 0.5, 0.5, 2.0 ** 33]))
  bkind = 'lda' if lda_tail else str(rng.choice(['triplet_diffs', 'array'] + (['lda'] if supervised else [])))
  # (odd values: with two LDA directions per region the last region then contributes only part of its directions)
  nbasis = int(rng.choice([7, 9, 13])) if lda_tail else int(rng.choice([6, 7, 9, 10, 13, 16]))
  kw = dict(beta=beta, gamma=gamma, max_iter=max_iter, output_iter=output_iter, batch_size=bsz, random_state=seed)
  if bkind == 'array':
    Bm = rng.normal(size=(nbasis, d))
    kw['basis'] = gen.grid(Bm / np.linalg.norm(Bm, axis=1, keepdims=True), bits=6)
    kw['n_basis'] = None
  else:
    kw['basis'] = bkind
    kw['n_basis'] = nbasis
  ev = {'ev': 'ScmlFit', 'supervised': bool(supervised), 'basis_kind': bkind, 'exc': '', 'L': [], 'basis': [], 'w_reported': [],
        'D': [], 'batches': [], 'steps': [], 'beta': dy(beta), 'gamma': dy(gamma), 'batch_size': bsz, 'output_iter': output_iter,
        'max_iter': max_iter, 'lowrank_warning': False, 'generated_basis': bkind != 'array', 'n_basis': nbasis, 'probes_ok': False}
  with warnings.catch_warnings(record=True) as wrn:
    warnings.simplefilter('always')
    try:
      with Probe() as pr:
        if supervised:
          est = gen.SCML_Supervised(k_genuine=2, k_impostor=3, **kw).fit(X, y)
        else:
          ntrip = int(rng.integers(max(d, 8), 20))
          if few_triplets:
            ntrip = int(rng.integers(d, 6))          # fewer triplets than the mini-batch holds (sampling is with replacement)
          idx = gen.triplets_from(rng, X, y, ntrip)
          if disjoint and len(X) >= 3 * max(d, 3):
            # every triplet brings its own three points (more distinct points than triplets; point numbers beyond the count)
            pm = rng.permutation(len(X))
            idx = pm[:len(X) // 3 * 3].reshape(-1, 3)
          est, ev['how'] = gen.fit_tuples_via(rng, gen.SCML(**kw), X, idx)
      ev['lowrank_warning'] = any('reduces the dimension' in str(x.message) for x in wrn)
      ev['L'] = dym(est.components_)
      if pr.basis is not None and pr.dd is not None:
        D = pr.dd
        batches = np.random.RandomState(seed).randint(low=0, high=D.shape[0], size=(max_iter, bsz))
        ev.update(basis=dym(pr.basis), w_reported=dyv(pr.w), D=dym(D), batches=[[int(v) + 1 for v in b] for b in batches],
                  steps=transcription(D, batches, beta, gamma, bsz, max_iter), probes_ok=True)
    except Exception as e:
      ev['exc'] = type(e).__name__
      ev['exc_msg'] = str(e)[:160]
  return ev


def gen_trace(recipe):
  rng = np.random.default_rng(recipe['seed'])
  return {'est': 'SCML', 'events': [gen_case(rng, recipe['supervised'], bool(recipe.get('lda_tail'))) for _ in range(recipe['n'])]}


def signature_of(recipe, tr, clause, pos):
  e = tr['events'][pos - 1] if 0 < pos <= len(tr['events']) else {}
  return {'supervised': bool(e.get('supervised')), 'basis': e.get('basis_kind')}


def run(ctx):
  ctx.model('MC_SCML', 'MC_SCML.cfg', workers=4)
  rng = np.random.default_rng(ctx.seed + 15)
  rs = []
  for i in range(8 if ctx.quick else 384):
    rs.append(dict(supervised=bool(i % 2), n=3 if ctx.quick else 8, seed=int(rng.integers(1 << 30))))
  # directed: local-LDA bases whose last region contributes only part of its directions (3 classes, odd n_basis)
  for i in range(2 if ctx.quick else 64):
    rs.append(dict(supervised=True, lda_tail=True, n=3 if ctx.quick else 8, seed=int(rng.integers(1 << 30))))
  ctx.rule = ('random triplet sets (n_triplets >= n_features) x basis in {triplet_diffs, lda (supervised), array} x n_basis x '
              'beta x gamma x batch_size 1..4 x max_iter in {12,24,40} x output_iter in {1,4,6,12} x integer seeds; SCML and '
              'SCML_Supervised; distinct by event content; non-trivial = at least one active basis (w_i > 0) in the result')
  pairs = core.generate(MOD, rs)
  core.judge(ctx, *SPEC, pairs, signature_of)
  act = 0
  for r, t in pairs:
    for e in t['events']:
      nz = any(x[0] == 1 for x in e.get('w_reported', []))
      act += nz
      ctx.note_case((str(e.get('D'))[:80], e['basis_kind'], e['max_iter'], e['output_iter']), nontrivial=nz)
  ctx.extra['runs_with_active_basis'] = act
  ctx.extra['probes_missing'] = [] if all(e['probes_ok'] or e['exc'] for _, t in pairs for e in t['events']) else ['_BaseSCML helpers']
  ctx.sample({k: str(v)[:140] for k, v in pairs[0][1]['events'][0].items()})
  good = next((t for r, t in pairs if any(any(x[0] == 1 for x in e.get('w_reported', [])) for e in t['events'])), pairs[0][1])

  def last_checkpoint(t):
    for e in t['events']:
      if e['probes_ok'] and any(x[0] == 1 for x in e['w_reported']):
        e['w_reported'] = [[1, 0, [5]] for _ in e['w_reported']]
        e['L'] = e['L']
  core.selftest_binding(ctx, *SPEC, good, last_checkpoint, 'C15.', 'reported_weights_corrupted')


def replay(path, frozen=False):
  return core.standard_replay(MOD, PID, *SPEC, path, frozen)
