"""C04 - tuple classifiers decide exactly by comparing learned distances.

Model: MC_Classify (threshold life-cycle + decision rules on an integer domain with all tie patterns).
spec -> code: behaviours simulated by TLC from MC_Classify (sequences over fit / calibrate /
set_threshold(t) / predict) are executed on real ITML / MMC / SDML objects; code -> spec: random
histories, plus SCML (triplets) and LSML (quadruplets) queries with manufactured exact ties
(tuples (x, x+D), (x', x'+D) have bit-identical distances; (a, a+D, a-D) is an exact triplet tie).
TLC validates the recorded events with ObsClassify (bit-exact comparisons on the doubles).
"""
import glob
import os
import numpy as np

import core
import gen
import tlaval
from num import dy, dyv, dym

MOD = 'checks.c04'
SPEC = ('TR_MetricLearn', 'TR_MetricLearn.cfg')
PID = 'C04'


def deltas(rng, d, k=4):
  out = []
  while len(out) < k:
    v = np.round(rng.normal(size=d) * 4) / 4.0
    if np.any(v != 0):
      out.append(v)
  return out


def pair_tests(rng, X, n_delta=4):
  """test pairs with exact ties; returns points store S and index pairs into S, plus labels"""
  d = X.shape[1]
  pts, idx = [], []

  def add(p):
    pts.append(np.asarray(p, float))
    return len(pts) - 1
  for dl in deltas(rng, d, n_delta):
    for rep in range(int(rng.integers(2, 4))):
      x = X[int(rng.integers(len(X)))]
      i, j = add(x), add(x + dl)
      idx.append((i, j) if rng.random() < 0.7 else (j, i))
  x = X[0]
  i = add(x)
  idx.append((i, i))                  # identical points: distance exactly 0
  idx.append((add(x.copy()), i))      # equal but distinct objects
  y = np.where(rng.random(len(idx)) < 0.5, 1, -1)
  y[0], y[1] = 1, -1
  return np.array(pts), np.array(idx), y


def model_with_thr(est):
  ev = {'ev': 'Model', 'L': dym(np.asarray(est.components_))}
  if hasattr(est, 'threshold_'):
    ev['thr'] = dy(est.threshold_)
  return ev


def predict_pairs_event(est, S, idx, y, via_index, with_score=True, off=None, S_arg=None):
  """S: the harness's own copy of the data the tuples designate; idx: index pairs into S; off: (index map) the same
  points named through the estimator's current preprocessor"""
  arg = (idx if off is None else off[idx]) if via_index else (S if S_arg is None else S_arg)[idx]
  d = est.pair_distance(arg)
  ev = {'pts': [[dyv(S[i]), dyv(S[j])] for i, j in idx],'ev': 'PredictPairs', 'd': dyv(d), 'pred': [int(v) for v in est.predict(arg)],
        'dec': dyv(est.decision_function(arg)), 'thr': dy(est.threshold_), 'y': [int(v) for v in y],
        'has_score': bool(with_score), 'score': dy(est.score(arg, y)) if with_score else dy(0.0)}
  return ev


def gen_pairs_trace(recipe, rng):
  name = recipe['est']
  tr = gen.training(rng, name, d=recipe['d'])
  X = tr['X']
  S, idx, y = pair_tests(rng, X)
  int_tuples = bool(recipe.get('int_tuples'))
  if recipe.get('offset') and not int_tuples:
    # the test tuples share a LARGE common offset (2^40) - exact in double precision, the differences are unchanged
    S = S + 2.0 ** 40 * np.round(rng.normal(size=X.shape[1]) * 3.0)
  if int_tuples:
    # the same kind of data on the INTEGER grid, handed to the estimator as int64 arrays (formed tuples, or an integer
    # preprocessor array): the distances compared are still those of the designated points under the learned L
    X = np.round(X * 4.0)
    S = np.round(S * 4.0)
    # ... of any integer type that holds the numbers (for an unsigned one the whole data set is translated into its range)
    idt = np.dtype(str(rng.choice(['int64', 'int64', 'int32', 'int16', 'uint64', 'uint32', 'uint16'])))
    if idt.kind == 'u':
      shift = np.floor(-min(X.min(), S.min())) + 3.0
      X, S = X + shift, S + shift
    tr = dict(tr, X=X)
  via_index = recipe['via_index']
  opts = gen.options(rng, name, X.shape[1], 2)
  S_arg = S.astype(idt) if int_tuples else S
  if via_index:
    store = np.vstack([S, X])
    if int_tuples:
      store = store.astype(idt)
    opts['preprocessor'] = store
    fit_pairs = tr['idx'] + len(S)
  else:
    fit_pairs = X[tr['idx']]
  try:
    est, _, opts = gen.fitted(rng, name, opts=opts, train=dict(tr, fit_args=(fit_pairs, tr['labels'])))
  except (ValueError, np.linalg.LinAlgError):
    if not int_tuples:
      raise
    # (ITML's DEFAULT bounds on a dozen points are degenerate - the 5th percentile of the pairwise distances is the zero of
    #  the diagonal - and on the coarser integer grid its iterations can break down: this bench falls back to the float grid)
    return gen_pairs_trace(dict(recipe, int_tuples=False), rng)
  events = [model_with_thr(est)]
  arg = idx if via_index else S_arg[idx]
  dist = np.unique(est.pair_distance(arg))         # sorted distinct learned distances (incl. 0.0)

  def real_thr(t):
    # abstract threshold -> a double: -1 negative, k>=0 the k-th distinct distance (exact tie), else above all
    if t < 0:
      return -1.0
    if t < len(dist):
      return float(dist[t])
    if t < 12:
      return float(dist[t % len(dist)])
    return float(dist[-1] * 2 + 1)
  off = None            # index map: row i of the original store is row off[i] of the estimator's current preprocessor
  for op in recipe['ops']:
    kind = op[0]
    if kind == 'fit':
      if via_index:
        # the same points under NEW names: the preprocessor is replaced by a row-permuted copy of the data and the
        # tuples are given as indices into it (a refit must resolve indices against the estimator's current preprocessor)
        perm = rng.permutation(len(store))
        off = np.argsort(perm)
        est.set_params(preprocessor=store[perm].copy())
        try:
          est.fit(off[fit_pairs], tr['labels'])
        except Exception as e:
          # the very same points fitted without error a moment ago
          events.append({'ev': 'Raised', 'clause': 'C04.refit_on_the_same_points_under_new_index_names_raised',
                         'exc': type(e).__name__, 'msg': str(e)[:120]})
          return {'est': name, 'via_index': via_index, 'ops': recipe['ops'], 'events': events}
      else:
        est.fit(fit_pairs, tr['labels'])
      events.append(model_with_thr(est))
    elif kind == 'calibrate':
      strat = ['accuracy', 'f_beta', 'max_tpr', 'max_tnr'][op[1] % 4]
      kw = {'min_rate': 0.5} if strat.startswith('max') else {}
      est.calibrate_threshold((idx if off is None else off[idx]) if via_index else arg, y, strategy=strat, **kw)
      events.append({'ev': 'Calibrate', 'thr_after': dy(est.threshold_), 'strategy': strat})
    elif kind == 'set_threshold':
      t = real_thr(op[1])
      # exact tie, or a NEAR tie: one ulp / a few 1e-6 relative below a learned distance (that pair must then be -1)
      variant = (op[1] // 4) % 3
      if variant == 1 and t > 0:
        t = float(np.nextafter(t, -np.inf))
      elif variant == 2 and t > 0:
        t = float(t * (1.0 - 2.0 ** -20))
      val = [t, np.float64(t), np.float32(t) if float(np.float32(t)) == t else t, int(t) if float(int(t)) == t else t][op[1] % 4]
      est.set_threshold(val)
      events.append({'ev': 'SetThreshold', 'arg': dy(float(val)), 'thr_after': dy(est.threshold_), 'exc': ''})
    elif kind == 'predict':
      events.append(predict_pairs_event(est, S, idx, y, via_index, off=off, S_arg=S_arg))
  events.append(predict_pairs_event(est, S, idx, y, via_index, off=off, S_arg=S_arg))
  return {'est': name, 'via_index': via_index, 'ops': recipe['ops'], 'events': events}


def gen_triplets_trace(recipe, rng):
  name = 'SCML'
  tr = gen.training(rng, name, d=recipe['d'], sep=3.0)
  X = tr['X']
  d = X.shape[1]
  pts, T = [], []

  def add(p):
    pts.append(np.asarray(p, float))
    return len(pts) - 1
  for dl in deltas(rng, d, 4):
    a = X[int(rng.integers(len(X)))]
    ia = add(a)
    T.append((ia, add(a + dl), add(a - dl)))          # exact tie d(a,b) = d(a,c)
    T.append((ia, add(a + dl), add(a + 2 * dl)))      # d(a,b) < d(a,c) unless both are 0
    T.append((ia, add(a + 2 * dl), add(a + dl)))
    T.append((ia, ia, add(a + dl)))                   # d(a,b) = 0
    ib = add(a + dl)
    T.append((ia, ib, ib))                            # b = c
  for _ in range(6):
    i, j, k = (int(v) for v in rng.choice(len(X), 3, replace=False))
    T.append((add(X[i]), add(X[j]), add(X[k])))
  S, T = np.array(pts), np.array(T)
  via_index = recipe['via_index']
  opts = dict(gen.FAST[name], random_state=int(rng.integers(100)))
  if via_index:
    store = np.vstack([S, X])
    opts['preprocessor'] = store
    fit_arg = tr['idx'] + len(S)
  else:
    fit_arg = X[tr['idx']]
  est = gen.CLS[name](**opts)
  est.fit(fit_arg)
  arg = T if via_index else S[T]
  sw = T[:, [0, 2, 1]]
  argsw = sw if via_index else S[sw]
  pab = T[:, [0, 1]] if via_index else S[T[:, [0, 1]]]
  pac = T[:, [0, 2]] if via_index else S[T[:, [0, 2]]]
  ev = {'ev': 'PredictTriplets', 'dab': dyv(est.pair_distance(pab)), 'dac': dyv(est.pair_distance(pac)),
        'pred': [int(v) for v in est.predict(arg)], 'dec': dyv(est.decision_function(arg)),
        'dec_sw': dyv(est.decision_function(argsw)), 'pred_sw': [int(v) for v in est.predict(argsw)],
        'score': dy(est.score(arg))}
  return {'est': name, 'via_index': via_index, 'shape': list(est.components_.shape),
          'events': [model_with_thr(est), ev]}


def gen_quads_trace(recipe, rng):
  name = 'LSML'
  tr = gen.training(rng, name, d=recipe['d'])
  X = tr['X']
  d = X.shape[1]
  pts, Q = [], []

  def add(p):
    pts.append(np.asarray(p, float))
    return len(pts) - 1
  for dl in deltas(rng, d, 4):
    a, c = X[int(rng.integers(len(X)))], X[int(rng.integers(len(X)))]
    Q.append((add(a), add(a + dl), add(c), add(c + dl)))       # exact tie
    Q.append((add(a), add(a + dl), add(c), add(c - dl)))       # exact tie (negated difference)
    Q.append((add(a), add(a + dl), add(c), add(c + 2 * dl)))
    Q.append((add(a), add(a + 2 * dl), add(c), add(c + dl)))
    ia = add(a)
    Q.append((ia, ia, add(c), add(c + dl)))                    # zero first distance
    Q.append((ia, ia, ia, ia))                                 # all identical: 0 vs 0
  for _ in range(6):
    i, j, k, m = (int(v) for v in rng.choice(len(X), 4, replace=False))
    Q.append((add(X[i]), add(X[j]), add(X[k]), add(X[m])))
  S, Q = np.array(pts), np.array(Q)
  via_index = recipe['via_index']
  opts = gen.options(rng, name, d, 2)
  if via_index:
    store = np.vstack([S, X])
    opts['preprocessor'] = store
    fit_arg = tr['idx'] + len(S)
  else:
    fit_arg = X[tr['idx']]
  est = gen.CLS[name](**opts)
  est.fit(fit_arg)
  arg = Q if via_index else S[Q]
  sw = Q[:, [2, 3, 0, 1]]
  argsw = sw if via_index else S[sw]
  pab = Q[:, [0, 1]] if via_index else S[Q[:, [0, 1]]]
  pcd = Q[:, [2, 3]] if via_index else S[Q[:, [2, 3]]]
  ev = {'ev': 'PredictQuads', 'dab': dyv(est.pair_distance(pab)), 'dcd': dyv(est.pair_distance(pcd)),
        'pred': [int(v) for v in est.predict(arg)], 'dec': dyv(est.decision_function(arg)),
        'dec_sw': dyv(est.decision_function(argsw)), 'pred_sw': [int(v) for v in est.predict(argsw)],
        'score': dy(est.score(arg))}
  return {'est': name, 'via_index': via_index, 'events': [model_with_thr(est), ev]}


SUITE_KINDS = ('CallPredictPairs', 'CallTuples')
SUITE_FILES = ['test/test_pairs_classifiers.py', 'test/test_triplets_classifiers.py', 'test/test_quadruplets_classifiers.py',
               'test/test_sklearn_compat.py']


def gen_trace(recipe):
  if recipe.get('suite'):
    import suite
    return suite.regen(recipe, SUITE_KINDS)
  rng = np.random.default_rng(recipe['seed'])
  if recipe['est'] == 'SCML':
    return gen_triplets_trace(recipe, rng)
  if recipe['est'] == 'LSML':
    return gen_quads_trace(recipe, rng)
  return gen_pairs_trace(recipe, rng)


def signature_of(recipe, tr, clause):
  return {'estimator': recipe['est']}


def tlc_histories(ctx, num):
  cfg = os.path.join(core.SPEC, 'MC_Classify.cfg')
  simdir = os.path.join(ctx.work, 'simc')
  os.makedirs(simdir, exist_ok=True)
  ctx.model('MC_Classify', cfg, workers=1, simulate='file=%s/h,num=%d' % (simdir, num), must_complete=False,
            tag='SIM_Classify')
  hs = []
  for f in sorted(glob.glob(simdir + '/h*')):
    st = tlaval.parse_sim_file(f)
    if st:
      h = st[-1][1].get('hist', [])
      ops = [(o[0], o[1]) for o in h if o[0] != 'fit' or True]
      if ops and ops[0][0] == 'fit':
        hs.append(ops[1:])       # the first fit is the construction+fit of the trace itself
  return hs


def run(ctx):
  ctx.rule = ('MC_Classify exhaustive (threshold life-cycle to depth MaxOps, all distance/threshold ties). '
              'Conformance: TLC-simulated op sequences executed on ITML/MMC/SDML + random histories; SCML triplets '
              'and LSML quadruplets with manufactured exact ties, formed and through index+preprocessor; distinct by '
              '(estimator, op sequence, input form, seed); non-trivial = at least one predict event with a tie')
  ctx.rule += " Plus the executions of the repository's own test suite recorded by the pytest tracing plugin (one case per test / per estimator object; distinct by test id)."
  ctx.model('MC_Classify', 'MC_Classify.cfg', workers=8)
  hs = tlc_histories(ctx, 40 if ctx.quick else 1200)
  rng = np.random.default_rng(ctx.seed + 4)
  rs = []
  for i, ops in enumerate(hs):
    rs.append(dict(est=gen.PAIRS[i % 3], d=int(rng.integers(2, 5)), seed=int(rng.integers(1 << 30)),
                   via_index=bool(i % 2), ops=[list(o) for o in ops], src='tlc', int_tuples=bool(i % 4 >= 2), offset=bool(i % 8 == 1)))
  n_rand = 12 if ctx.quick else 600
  for i in range(n_rand):
    L = int(rng.integers(4, 12))
    ops = []
    for _ in range(L):
      k = ['set_threshold', 'predict', 'calibrate', 'fit'][int(rng.choice(4, p=[0.4, 0.35, 0.15, 0.1]))]
      ops.append([k, int(rng.integers(-1, 14))])
    rs.append(dict(est=gen.PAIRS[i % 3], d=int(rng.integers(2, 7)), seed=int(rng.integers(1 << 30)),
                   via_index=bool(i % 2), ops=ops, src='random', int_tuples=bool(i % 4 >= 2)))
  for i in range(8 if ctx.quick else 400):
    rs.append(dict(est=['SCML', 'LSML'][i % 2], d=int(rng.integers(2, 6)), seed=int(rng.integers(1 << 30)),
                   via_index=bool((i // 2) % 2), src='random'))
  pairs = core.generate(MOD, rs)
  core.judge(ctx, *SPEC, pairs, signature_of)
  # predict calls made by the repository's own pairs-classifier tests, validated against the same rule
  import suite
  evs, summary = core.record_suite_calls(os.path.join(ctx.work, 'suite'), files=SUITE_FILES[:3] if ctx.quick else SUITE_FILES)
  spairs = suite.traces_from(evs, SUITE_KINDS, 120 if ctx.quick else 0, np.random.default_rng(ctx.seed))
  if len(spairs) < 20:
    raise core.MachineryError('only %d predict traces recorded from the tuple-classifier tests (%s)' % (len(spairs), summary))
  core.judge(ctx, *SPEC, spairs, signature_of, tag='suite')
  for recipe, tr in spairs:
    ctx.note_case(('suite', recipe['test']))
  ctx.extra['suite_traces'] = {'pytest_summary': summary, 'calls_recorded': len(evs), 'tests_validated': len(spairs),
                               'events_validated': sum(len(t['events']) for _, t in spairs)}
  lp = suite.judge_life(ctx, evs, 300 if ctx.quick else 0)

  def threshold_not_stored(t):
    e = next(e for e in t['events'] if e['act'] == 'set_threshold' and e['exc'] == '' and e['hasarg'])
    e['after'] = dict(e['after'], thr=e['before']['thr'], hasthr=e['before']['hasthr'])
  lgood = next((t for r, t in lp if any(e['act'] == 'set_threshold' and e['exc'] == '' and e['hasarg']
                                        and e['before']['thr'] != e['arg'] for e in t['events'])), None)
  if lgood is not None:
    core.selftest_binding(ctx, *suite.LIFE_SPEC, lgood, threshold_not_stored, 'C04.suite_set_threshold_stores_value',
                          'suite_set_threshold_ignored')

  def flip_suite(t):
    t['events'][0]['out'] = [-v for v in t['events'][0]['out']]
  sp = next(t for r, t in spairs if t['events'][0]['ev'] == 'CallPredictPairs')
  core.selftest_binding(ctx, *SPEC, sp, flip_suite, 'C04.suite_call_predict', 'suite_predictions_flipped')
  ties = 0
  for recipe, tr in pairs:
    has_tie = False
    for e in tr['events']:
      if e['ev'] == 'PredictPairs':
        has_tie = has_tie or any(v == e['thr'] for v in e['d']) or len({str(v) for v in e['d']}) < len(e['d'])
      if e['ev'] == 'PredictTriplets':
        has_tie = has_tie or any(a == b for a, b in zip(e['dab'], e['dac']))
      if e['ev'] == 'PredictQuads':
        has_tie = has_tie or any(a == b for a, b in zip(e['dab'], e['dcd']))
    ties += has_tie
    ctx.note_case((recipe['est'], str(recipe.get('ops')), recipe['via_index'], recipe['seed']), nontrivial=has_tie)
  ctx.extra['traces_with_exact_ties'] = ties
  ctx.extra['tlc_generated_histories'] = len(hs)
  ctx.sample({'estimator': pairs[0][1]['est'], 'ops_from_TLC': pairs[0][0].get('ops'),
              'events': [e['ev'] for e in pairs[0][1]['events']],
              'last_predict': {k: str(v)[:200] for k, v in pairs[0][1]['events'][-1].items()}})
  good = pairs[0][1]

  def corrupt_pred(t):
    e = t['events'][-1]
    i = next(i for i, v in enumerate(e['d']) if v == e['thr']) if any(v == e['thr'] for v in e['d']) else 0
    e['pred'][i] = -e['pred'][i]
  core.selftest_binding(ctx, *SPEC, good, corrupt_pred, 'C04.pairs_predict', 'flipped_prediction_at_tie')

  def find_droppable(t):
    cur = None
    for i, e in enumerate(t['events']):
      if e['ev'] == 'Model' and 'thr' in e:
        cur = e['thr']
      elif e['ev'] == 'Calibrate':
        cur = e['thr_after']
      elif e['ev'] == 'SetThreshold':
        if cur != e['thr_after'] and i + 1 < len(t['events']) and t['events'][i + 1]['ev'] == 'PredictPairs':
          return i
        cur = e['thr_after']
    return None
  cand = next(((t, find_droppable(t)) for r, t in pairs if find_droppable(t) is not None), None)
  if cand is not None:
    t0, i0 = cand

    def drop_set_threshold(t):
      del t['events'][i0]
    core.selftest_binding(ctx, *SPEC, t0, drop_set_threshold, 'C04.', 'dropped_set_threshold_event')


def replay(path, frozen=False):
  return core.standard_replay(MOD, PID, *SPEC, path, frozen)
