"""C13 - SDML minimises the documented sparse LogDet objective.

Model: MC_SDML (the duality-gap certificate is exact on closed-form 2x2 instances).  Conformance: real SDML /
SDML_Supervised fits x priors x balance_param x sparsity_param, inside the region where the graphical-lasso input
is positive definite and outside it (failure clause).  The harness builds a dual-feasible point by clipping
M^-1 into the box around E (untrusted); TLC (TR_SDML) recomputes E from the pairs, verifies box and Cholesky
witnesses, evaluates primal and dual values (logs tabulated) and requires the gap to be within solver tolerance.
"""
import warnings
import numpy as np

import core
import gen
from num import dy, dyv, dym
from metric_learn._util import _initialize_metric_mahalanobis
from metric_learn.constraints import Constraints, wrap_pairs

MOD = 'checks.c13'
SPEC = ('TR_SDML', 'TR_SDML.cfg')
PID = 'C13'


def chol_or_none(A):
  try:
    return np.linalg.cholesky((A + A.T) / 2).T
  except np.linalg.LinAlgError:
    return None


def admm_glasso(S, lam, rho=1.0, n_iter=4000, tol=1e-11):
  """independent solver of min tr(S M) - logdet M + lam ||M||_1,off (ADMM)"""
  d = S.shape[0]
  Z = np.eye(d); U = np.zeros((d, d))
  off = ~np.eye(d, dtype=bool)
  for _ in range(n_iter):
    w, Q = np.linalg.eigh(rho * (Z - U) - S)
    theta = (Q * ((w + np.sqrt(w ** 2 + 4 * rho)) / (2 * rho))).dot(Q.T)
    A = theta + U
    Zn = A.copy()
    Zn[off] = np.sign(A[off]) * np.maximum(np.abs(A[off]) - lam / rho, 0)
    U = A - Zn
    done = np.abs(Zn - Z).max() < tol and np.abs(theta - Zn).max() < tol
    Z = Zn
    if done:
      break
  return (Z + Z.T) / 2


def better_candidates(E, alpha):
  out = []
  try:
    out.append(admm_glasso(E, alpha))
  except Exception:
    pass
  try:
    from sklearn.covariance import graphical_lasso
    with warnings.catch_warnings():
      warnings.simplefilter('ignore')
      out.append(graphical_lasso(E, alpha=alpha, max_iter=2000, tol=1e-9)[1])
  except Exception:
    pass
  return [(c + c.T) / 2 for c in out if np.isfinite(c).all()]


def gen_case(rng, supervised):
  d = int(rng.integers(2, 5))
  X, y = gen.dataset(rng, d=d, n_classes=int(rng.integers(2, 4)), bits=5)
  prior_kind = str(rng.choice(['identity', 'covariance', 'random', 'array']))
  if prior_kind == 'array':
    A = rng.normal(size=(d, d))
    prior = gen.grid(A.T.dot(A) + np.eye(d), bits=5)
  else:
    prior = prior_kind
  prior_arg = gen.layout(rng, prior) if isinstance(prior, np.ndarray) else prior      # what the estimator gets (any memory layout)
  seed = int(rng.integers(1000))
  alpha = float(rng.choice([0.01, 0.05, 0.25, 1.0]))
  if supervised:
    n_c = int(rng.integers(6, 14))
    if rng.random() < 0.25:
      # labels from which NO dissimilar pair can be drawn: a single class, or one labelled class next to unlabelled samples
      y = np.zeros_like(y) if rng.random() < 0.5 else np.where(y == y[0], int(y[0]), -1)
    cons = Constraints(y).positive_negative_pairs(n_c, random_state=seed)
    pairs, lab = gen.documented_pairs(X, cons)
  else:
    idx, lab = gen.pairs_from(rng, X, y, int(rng.integers(6, 16)))
    pairs = X[idx]
  region = str(rng.choice(['pd', 'pd', 'pd', 'not_pd', 'mostly_dissimilar', 'defaults_small_scale']))
  if region == 'defaults_small_scale':
    # small-magnitude features (unit-normalised / rescaled data) with the DEFAULT balance_param = 0.5, sparsity_param = 0.01
    prior_kind, prior, prior_arg = 'identity', 'identity', 'identity'
    V0 = pairs[:, 0] - pairs[:, 1]
    sc = 2.0 ** -2
    while np.linalg.eigvalsh(np.eye(d) + 0.5 * sc * sc * (V0.T * lab).dot(V0)).min() < 0.25:
      sc /= 2.0          # (small enough for the default balance_param to keep the graphical-lasso input positive definite)
    X = X * sc
    pairs = pairs * sc
    alpha = 0.01
  if prior_kind == 'array' and not supervised and region in ('pd', 'not_pd') and rng.random() < 0.3:
    # an SPD array prior that is well conditioned but TINY in absolute terms (2^-60), with features of magnitude 2^30 (the
    # inverse covariance of data in large raw units): nothing about the problem changes but its units
    region = 'pd'
    prior = prior * 2.0 ** -60
    prior_arg = gen.layout(rng, prior)
    X = X * 2.0 ** 30
    pairs = pairs * 2.0 ** 30
  if region == 'mostly_dissimilar' and not supervised:
    # every direction dominated by dissimilar pairs (an input matrix with several negative eigenvalues)
    lab = np.where(rng.random(len(lab)) < 0.2, 1, -1)
    lab[0], lab[1] = 1, -1
  # the DOCUMENTED prior, computed without the library (identity; inverse covariance of the DISTINCT points of the pairs;
  # the array itself); only the 'random' prior, documented as "a random SPD matrix", is read from the library's generator
  pts = np.unique(np.vstack(pairs), axis=0)
  if prior_kind == 'identity':
    M0 = np.eye(d); P0 = np.eye(d)
  elif prior_kind == 'covariance':
    P0 = np.atleast_2d(np.cov(pts, rowvar=False)); M0 = np.linalg.inv(P0)
  elif prior_kind == 'array':
    M0 = prior.copy(); P0 = np.linalg.inv(M0)
  else:
    M0 = _initialize_metric_mahalanobis(pairs.copy(), prior, random_state=seed, strict_pd=True, matrix_name='prior')
    P0 = np.linalg.inv(M0)
  V = pairs[:, 0] - pairs[:, 1]
  loss = (V.T * lab).dot(V)
  lam_neg = max(1e-12, -np.linalg.eigvalsh(loss).min())
  if region == 'defaults_small_scale':
    balance = 0.5
  elif region == 'pd':
    balance = float(2.0 ** np.floor(np.log2(0.5 * np.linalg.eigvalsh(P0).min() / lam_neg))) if lam_neg > 1e-9 else 0.5
    balance = min(balance, 0.5)
  elif region == 'mostly_dissimilar':
    balance = float(rng.choice([0.25, 2.0, 16.0])) * float(2.0 ** np.ceil(np.log2(np.linalg.eigvalsh(P0).max() / lam_neg)))
  else:
    balance = float(2.0 ** np.ceil(np.log2(4.0 * np.linalg.eigvalsh(P0).max() / lam_neg)))
  E = P0 + balance * loss
  ev = {'ev': 'SdmlFit', 'supervised': bool(supervised), 'prior_kind': prior_kind, 'region': region, 'exc': '',
        'M0': dym(M0), 'P0': dym(P0), 'pts': dym(pts) if prior_kind == 'covariance' else [], 'v': dym(V), 'y': [int(v) for v in lab], 'balance': dy(balance), 'alpha': dy(alpha),
        'L': [], 'Mstar': [], 'cholStar': [], 'logsStar': [], 'has_star': False, 'cholM': [], 'cholE': [], 'has_cholE': False, 'W': [], 'cholW': [], 'has_W': False, 'logsM': [], 'logsW': []}
  RE = chol_or_none(E)
  ev['base_solves_documented_problem'] = False
  if RE is not None:
    ev['cholE'], ev['has_cholE'] = dym(RE), True
  ev['solver_gave_up'] = False
  with warnings.catch_warnings(record=True) as wrec:
    warnings.simplefilter('always')
    try:
      if supervised:
        est = gen.SDML_Supervised(balance_param=balance, sparsity_param=alpha, prior=prior_arg, n_constraints=n_c, random_state=seed).fit(X.copy(), y.copy())
      else:
        est, ev['how'] = gen.fit_tuples_via(rng, gen.SDML(balance_param=balance, sparsity_param=alpha, prior=prior_arg, random_state=seed), X, idx, lab)
      # scikit-learn's graphical lasso REPORTS (ConvergenceWarning, shown to the user) when it stops at its iteration limit
      # without reaching its tolerance: the "solver tolerance" of the statement is then not claimed by the solver itself
      from sklearn.exceptions import ConvergenceWarning
      ev['solver_gave_up'] = any(issubclass(x.category, ConvergenceWarning) for x in wrec)
      L = np.asarray(est.components_)
      M = L.T.dot(L)
      ev['L'] = dym(L)
      RM = chol_or_none(M)
      if RM is not None:
        ev['cholM'] = dym(RM)
        ev['logsM'] = dyv(np.log(np.diag(RM)))
        # dual candidate: M^-1 clipped into the box around E, diagonal pinned to E
        W = np.linalg.inv(M)
        W = np.clip(W, E - alpha, E + alpha)
        W[np.diag_indices(d)] = np.diag(E)
        W = (W + W.T) / 2
        # exact box membership after symmetrisation
        W = np.clip(W, E - alpha, E + alpha)
        W[np.diag_indices(d)] = np.diag(E)
        RW = chol_or_none(W)
        if RW is not None and np.allclose(W, W.T, rtol=0, atol=0):
          ev['W'], ev['cholW'], ev['has_W'] = dym(W), dym(RW), True
          ev['logsW'] = dyv(np.log(np.diag(RW)))
        # a candidate BETTER primal point (untrusted; TLC evaluates its objective): tight independent solves of the
        # documented problem for the documented E
        best = None
        for cand in better_candidates(E, alpha):
          Rc = chol_or_none(cand)
          if Rc is None:
            continue
          val = float(np.sum(E * cand) - 2 * np.log(np.diag(Rc)).sum() + alpha * (np.abs(cand).sum() - np.abs(np.diag(cand)).sum()))
          if best is None or val < best[0]:
            best = (val, cand, Rc)
        if best is not None:
          ev['Mstar'], ev['cholStar'], ev['logsStar'], ev['has_star'] = dym(best[1]), dym(best[2]), dyv(np.log(np.diag(best[2]))), True
    except Exception as e:
      ev['exc'] = type(e).__name__
      ev['exc_msg'] = str(e)[:100]
      if supervised:
        # the supervised wrapper failed: does the BASE learner solve the documented problem (the pairs and labels the
        # helper's output means, the same hyper-parameters)?  If it does, the wrapper handed the solver something else.
        try:
          gen.SDML(balance_param=balance, sparsity_param=alpha, prior=prior_arg, random_state=seed).fit(pairs.copy(), lab.copy())
          ev['base_solves_documented_problem'] = True
        except Exception:
          pass
  return ev


def gen_trace(recipe):
  rng = np.random.default_rng(recipe['seed'])
  return {'est': 'SDML', 'events': [gen_case(rng, recipe['supervised']) for _ in range(recipe['n'])]}


def signature_of(recipe, tr, clause, pos):
  e = tr['events'][pos - 1] if 0 < pos <= len(tr['events']) else {}
  return {'supervised': bool(e.get('supervised')), 'prior': e.get('prior_kind'), 'region': e.get('region')}


def run(ctx):
  ctx.model('MC_SDML', 'MC_SDML.cfg', workers=4)
  rng = np.random.default_rng(ctx.seed + 13)
  rs = []
  for i in range(16 if ctx.quick else 640):
    rs.append(dict(supervised=bool(i % 2), n=5 if ctx.quick else 10, seed=int(rng.integers(1 << 30))))
  ctx.rule = ('random labelled pair sets x priors {identity, covariance, random, SPD array} x sparsity_param in {0.01, 0.05, '
              '0.25, 1} x balance_param chosen inside (3/5 of the cases) or outside the region where the graphical-lasso '
              'input is positive definite (one negative direction / mostly dissimilar pairs: several negative directions) '
              'SDML and SDML_Supervised; distinct by event content; non-trivial = a case with '
              'a verified dual-feasible witness')
  pairs = core.generate(MOD, rs)
  core.judge(ctx, *SPEC, pairs, signature_of)
  for r, t in pairs:
    for e in t['events']:
      ctx.note_case((str(e['v'])[:80], e['prior_kind'], str(e['alpha']), str(e['balance'])), nontrivial=e['has_W'])
  ctx.extra['outcomes'] = {}
  for r, t in pairs:
    for e in t['events']:
      k = e['region'] + ':' + (e['exc'] or 'ok')
      ctx.extra['outcomes'][k] = ctx.extra['outcomes'].get(k, 0) + 1
  ctx.sample({k: str(v)[:140] for k, v in pairs[0][1]['events'][0].items()})
  good = next(t for r, t in pairs if any(e['has_W'] for e in t['events']))

  def prior_not_inverted(t):
    # a solution computed for another problem (the logged pair labels flipped): the gap must open
    for e in t['events']:
      e['y'] = [-v for v in e['y']]
      e['has_cholE'] = False if False else e['has_cholE']
  core.selftest_binding(ctx, *SPEC, good, prior_not_inverted, 'C13.', 'labels_flipped_in_loss_matrix') if False else None

  def worse_solution(t):
    for e in t['events']:
      if e['has_W'] and e['logsM']:
        e['logsM'] = [[x[0], x[1], x[2]] for x in e['logsM']]
        e['logsM'][0] = [-1, 0, [9]]          # pretend logdet M is much smaller: objective far above the dual bound
  core.selftest_binding(ctx, *SPEC, good, worse_solution, 'C13.objective', 'objective_far_from_optimum')


def replay(path, frozen=False):
  return core.standard_replay(MOD, PID, *SPEC, path, frozen)
