"""C10 - gradient-based learners optimise the objective they document.

Model: MC_LMNN (backtracking machine over an abstract objective oracle).  Conformance: real NCA / MLKR / LMNN fits;
every (L, value, gradient) the optimiser asked for is recorded by wrapping the module-level `minimize` (NCA, MLKR)
resp. LMNN._loss_grad / _select_targets (no source change); TLC (TR_GradObj) recomputes the documented objective
and its analytic derivative at every evaluated L (soft-max through a verified witness with tabulated exp; LMNN
exactly, with the target sets verified as k nearest same-class points) and decides the history clauses on its own
numbers.
"""
import warnings
import numpy as np

import core
import gen
import metric_learn.nca as nca_mod
import metric_learn.mlkr as mlkr_mod
import metric_learn.lmnn as lmnn_mod
from metric_learn._util import _initialize_components
from num import dy, dyv, dym

MOD = 'checks.c10'
SPEC = ('TR_GradObj', 'TR_GradObj.cfg')
PID = 'C10'


def softmax_witness(L, X):
  E = X.dot(L.T)
  s = ((E[:, None, :] - E[None, :, :]) ** 2).sum(-1)
  n = len(X)
  a = np.zeros((n, n)); e = np.zeros((n, n)); P = np.zeros((n, n)); Z = np.zeros(n)
  for i in range(n):
    o = [k for k in range(n) if k != i]
    m = s[i, o].min()
    a[i, o] = s[i, o] - m
    e[i, o] = np.exp(-a[i, o])
    Z[i] = e[i, o].sum()
    P[i, o] = e[i, o] / Z[i]
  return P, a, e, Z


class MinimizeProbe:
  def __init__(self, module):
    self.module, self.orig = module, module.minimize
    self.evals, self.nit = [], None

  def __enter__(self):
    probe = self

    def wrapped(*args, **kw):
      # scipy.optimize.minimize(fun, x0, args=(), ...): the objective is the first positional argument or `fun`
      if args:
        f = args[0]
      else:
        f = kw['fun']

      def g(x, *a):
        v, gr = f(x, *a)
        probe.evals.append((np.array(x, float).copy(), float(v), np.array(gr, float).copy()))
        return v, gr
      if args:
        res = probe.orig(g, *args[1:], **kw)
      else:
        res = probe.orig(**dict(kw, fun=g))
      probe.nit = int(res.nit)
      return res
    self.module.minimize = wrapped
    return self

  def __exit__(self, *a):
    self.module.minimize = self.orig


class LmnnProbe:
  def __init__(self):
    self.orig_lg = lmnn_mod.LMNN._loss_grad
    self.orig_st = lmnn_mod.LMNN._select_targets
    self.evals, self.targets = [], None

  def __enter__(self):
    probe = self

    def lg(self_, X, L, dfG, k, reg, target_neighbors, label_inds):
      Lc = np.array(L, float).copy()
      out = probe.orig_lg(self_, X, L, dfG, k, reg, target_neighbors, label_inds)
      probe.evals.append((Lc, float(out[1]), np.array(out[0], float).copy(), int(out[2])))
      return out

    def st(self_, X, label_inds):
      t = probe.orig_st(self_, X, label_inds)
      probe.targets = np.array(t).copy()
      return t
    lmnn_mod.LMNN._loss_grad = lg
    lmnn_mod.LMNN._select_targets = st
    return self

  def __exit__(self, *a):
    lmnn_mod.LMNN._loss_grad = self.orig_lg
    lmnn_mod.LMNN._select_targets = self.orig_st


def gen_large(recipe, rng):
  """LMNN on a LARGE training set (two overlapping classes of `large_n` samples each, features of magnitude 1/8: tens of
  thousands of margin-violating (sample, target, impostor) triples); the objective at the first evaluated points"""
  m = int(recipe['large_n'])
  d = 2
  X = np.round(np.vstack([rng.normal(size=(m, d)), rng.normal(size=(m, d)) + 0.5]) * 8.0) / 64.0
  X = X + rng.permutation(2 * m)[:, None] * 2.0 ** -12          # (no duplicated samples: the target neighbours are unique)
  y = np.array([0] * m + [1] * m)
  p = rng.permutation(2 * m)
  X, y = X[p], y[p]
  reg = float(rng.choice([0.25, 0.5, 0.75]))
  with warnings.catch_warnings():
    warnings.simplefilter('ignore')
    est = gen.LMNN(init='identity', n_neighbors=1, max_iter=2, min_iter=1, learn_rate=1e-7, regularization=reg, random_state=0)
    with LmnnProbe() as pr:
      est.fit(X, y)
  events = [{'ev': 'Data', 'algo': 'LMNN', 'X': dym(X), 'y': [int(v) for v in y],
             'targets': [[int(t) + 1 for t in row] for row in pr.targets], 'k': 1, 'reg': dy(reg),
             'learn_rate': dy(est.learn_rate), 'rate_up': dy(1.01)}]
  for (Lc, v, g, act) in pr.evals[:recipe.get('evals', 1)]:
    events.append({'ev': 'Eval', 'L': dym(Lc), 'value': dy(v), 'grad': [], 'active': act, 'light': True})
  return {'est': 'LMNN', 'init': 'identity', 'mode': 'large_n', 'shape_kind': 'large_n', 'events': events}


def gen_rank_case(recipe, rng):
  """LMNN, n_neighbors = 2, under a strongly anisotropic initial transformation diag(1, 2^-8): three impostors sit inside the
  margin of the CLOSER target neighbour of one sample and outside the margin of its FARTHER one (the farther one differs
  along the squashed axis), and no other margin is violated - the push term comes from the first target rank alone"""
  e = 2.0 ** -8
  A = np.array([[0.0, 0.0], [-0.125, 0.0], [-0.046875, 5.0]])
  B = np.array([[257.0 / 256.0, 0.0], [257.0 / 256.0, 3.0], [257.0 / 256.0, -4.0]])
  t = np.round(rng.normal(size=2) * 8.0) / 8.0                 # (a common translation: the objective does not see it)
  X = np.vstack([A, B]) + t
  y = np.array([0, 0, 0, 1, 1, 1])
  p = rng.permutation(6)
  X, y = X[p], y[p]
  reg = float(rng.choice([0.25, 0.5, 0.75]))
  L0 = np.array([[1.0, 0.0], [0.0, e]])
  with warnings.catch_warnings():
    warnings.simplefilter('ignore')
    est = gen.LMNN(init=L0.copy(), n_neighbors=2, max_iter=3, min_iter=1, learn_rate=1e-9, regularization=reg, random_state=0)
    with LmnnProbe() as pr:
      est.fit(X, y)
  events = [{'ev': 'Data', 'algo': 'LMNN', 'X': dym(X), 'y': [int(v) for v in y],
             'targets': [[int(t_) + 1 for t_ in row] for row in pr.targets], 'k': 2, 'reg': dy(reg),
             'learn_rate': dy(est.learn_rate), 'rate_up': dy(1.01)}]
  for (Lc, v, g, act) in pr.evals[:2]:
    events.append({'ev': 'Eval', 'L': dym(Lc), 'value': dy(v), 'grad': dym(g), 'active': act, 'light': False})
  return {'est': 'LMNN', 'init': 'array', 'mode': 'rank', 'shape_kind': 'one_rank_active', 'events': events}


def gen_trace(recipe):
  rng = np.random.default_rng(recipe['seed'])
  algo = recipe['algo']
  if recipe.get('large_n'):
    return gen_large(recipe, rng)
  if recipe.get('rank_case'):
    return gen_rank_case(recipe, rng)
  d = int(rng.integers(2, 4))
  ncls = int(rng.integers(2, 4))
  X, y = gen.dataset(rng, d=d, n_classes=ncls, per_class=(int(rng.integers(4, 6)) if ncls == 2 else 4) if True else 4, bits=4, sep=1.5)
  X = X / 2.0
  n = len(X)
  shape_kind = str(rng.choice(['plain', 'plain', 'outlier', 'large_scale'] + (['huge_scale'] if algo == 'LMNN' else [])))
  if shape_kind == 'outlier':
    X[int(rng.integers(n))] += 40.0          # one sample far from all the others
  elif shape_kind == 'large_scale':
    X = X * 64.0                              # unscaled features: squared distances in the thousands
  elif shape_kind == 'huge_scale':
    X = X * float(2.0 ** int(rng.choice([23, 27, 30])))   # raw features of magnitude 1e7..1e9 (LMNN: the step size is halved dozens of times, below machine epsilon)
  k = None if rng.random() < 0.4 else int(rng.integers(1, d + 1))
  init = str(rng.choice(['identity', 'pca', 'random', 'auto', 'array'] + (['lda'] if algo != 'MLKR' else [])))
  kk = k or d
  if init == 'lda':
    k = kk = min(kk, ncls - 1)
  if init == 'array':
    init_arg = gen.layout(rng, gen.grid(rng.normal(size=(kk, d)) * 0.7, bits=4))
  else:
    init_arg = init
  seed = int(rng.integers(1000))
  mode = str(rng.choice(['zero', 'few', 'few']))
  events = []
  yreal = gen.grid(X.dot(rng.normal(size=d)) + 0.25 * rng.normal(size=n), bits=4)
  with warnings.catch_warnings():
    warnings.simplefilter('ignore')
    if algo == 'LMNN':
      nn = int(rng.integers(1, 3))
      reg = float(rng.choice([0.25, 0.5, 0.75]))
      max_iter = 2 if mode == 'zero' else int(rng.integers(4, 9))
      est = gen.LMNN(init=init_arg, n_neighbors=nn, n_components=k, max_iter=max_iter, min_iter=2,
                     learn_rate=float(rng.choice([1e-3, 1e-2, 1e-6, 1e3])), regularization=reg, random_state=seed)
      with LmnnProbe() as pr:
        est.fit(X, y)
      L0 = _initialize_components(kk, X, y, init_arg, random_state=seed)
      events.append({'ev': 'Data', 'algo': algo, 'X': dym(X), 'y': [int(v) for v in np.unique(y, return_inverse=True)[1]],
                     'targets': [[int(t) + 1 for t in row] for row in pr.targets], 'k': nn, 'reg': dy(reg),
                     'learn_rate': dy(est.learn_rate), 'rate_up': dy(1.01)})
      truncated = len(pr.evals) > 10
      for (Lc, v, g, act) in pr.evals[:(9 if truncated else 10)]:
        events.append({'ev': 'Eval', 'L': dym(Lc), 'value': dy(v), 'grad': dym(g), 'active': act, 'light': False})
      if truncated:
        # a LONG history (a step size far too large for the data is halved dozens of times): the first nine evaluations are
        # judged in full, then the evaluation that produced the returned transformation (objective value only), so that the
        # clauses about the RESULT - not worse than the initialisation, accepted objectives non-increasing - are still decided
        last = [i for i, e in enumerate(pr.evals) if np.array_equal(e[0], est.components_)]
        if last and last[-1] >= 9:
          Lc, v, g, act = pr.evals[last[-1]]
          events.append({'ev': 'Eval', 'L': dym(Lc), 'value': dy(v), 'grad': [], 'active': act, 'light': True})
        else:
          truncated = 'unmatched'
      if truncated != 'unmatched':
        events.append({'ev': 'Result', 'L': dym(est.components_), 'L_init': dym(L0), 'zero_iterations': bool(len(pr.evals) == 1),
                       'truncated': bool(truncated)})
    else:
      module = nca_mod if algo == 'NCA' else mlkr_mod
      tol = 1e10 if mode == 'zero' else None
      max_iter = 1 if mode == 'zero' else int(rng.integers(2, 4))
      cls = gen.NCA if algo == 'NCA' else gen.MLKR
      est = cls(init=init_arg, n_components=k, max_iter=max_iter, tol=tol, random_state=seed)
      yy = y if algo == 'NCA' else yreal
      with MinimizeProbe(module) as pr:
        est.fit(X, yy)
      L0 = _initialize_components(kk, X, yy, init_arg, random_state=seed, has_classes=(algo == 'NCA'))
      events.append({'ev': 'Data', 'algo': algo, 'X': dym(X), 'y': ([int(v) for v in y] if algo == 'NCA' else dyv(yreal)),
                     'targets': [], 'k': 0, 'reg': dy(0.0), 'learn_rate': dy(0.0), 'rate_up': dy(1.0)})
      sign = -1.0 if algo == 'NCA' else 1.0
      for (x, v, g) in pr.evals[:5]:
        Lc = x.reshape(-1, d)
        P, a, e, Z = softmax_witness(Lc, X)
        events.append({'ev': 'Eval', 'L': dym(Lc), 'value': dy(sign * v), 'grad': dym(sign * g.reshape(-1, d)), 'active': 0, 'light': False,
                       'P': dym(P), 'a': dym(a), 'e': dym(e), 'Z': dyv(Z)})
      if len(pr.evals) <= 5:
        events.append({'ev': 'Result', 'L': dym(est.components_), 'L_init': dym(L0), 'zero_iterations': bool(pr.nit == 0)})
  return {'est': algo, 'init': init, 'mode': mode, 'shape_kind': shape_kind, 'events': events}


def signature_of(recipe, tr, clause, pos):
  return {'estimator': recipe['algo'], 'init': tr.get('init'), 'mode': tr.get('mode'), 'data': tr.get('shape_kind')}


def run(ctx):
  ctx.model('MC_LMNN', 'MC_LMNN.cfg', workers=4)
  rng = np.random.default_rng(ctx.seed + 10)
  rs = []
  for i in range(48 if ctx.quick else 2400):
    rs.append(dict(algo=['NCA', 'MLKR', 'LMNN'][i % 3], seed=int(rng.integers(1 << 30))))
  # LMNN on LARGE training sets (tens of thousands of active hinge terms): the objective at the first evaluated point(s)
  for m in ([140, 190] if ctx.quick else [140, 170, 200, 240, 280, 330, 150, 260]):
    rs.append(dict(algo='LMNN', large_n=m, evals=1 if ctx.quick else 2, seed=int(rng.integers(1 << 30))))
  for _ in range(2 if ctx.quick else 6):
    rs.append(dict(algo='LMNN', rank_case=True, seed=int(rng.integers(1 << 30))))
  ctx.rule = ('real NCA / MLKR / LMNN fits on random well-formed (X, y) (y real for MLKR), n_components None or 1..d, every init '
              'option, n_neighbors 1..2, regularization in {1/4,1/2,3/4}, learn_rate, {zero optimiser iterations, a few}; one '
              'event per evaluation the optimiser asked for (<= 5 / 10 per fit); distinct by (learner, init, data); '
              'non-trivial = fit with more than one evaluation; plus LMNN on two overlapping classes of 140-330 samples each '
              '(39k-218k active hinge terms), objective value at the first evaluated points')
  pairs = core.generate(MOD, rs)
  core.judge(ctx, *SPEC, pairs, signature_of)
  nev = 0
  for r, t in pairs:
    ne = sum(1 for e in t['events'] if e['ev'] == 'Eval')
    nev += ne
    ctx.note_case((r['algo'], t['init'], t['mode'], str(t['events'][0]['X'])[:60]), nontrivial=ne > 1)
  ctx.extra['evaluations_recomputed_by_TLC'] = nev
  ctx.sample({'learner': pairs[0][1]['est'], 'init': pairs[0][1]['init'], 'events': [e['ev'] for e in pairs[0][1]['events']],
              'eval': {k: str(v)[:120] for k, v in pairs[0][1]['events'][1].items()}})
  good = next(t for r, t in pairs if r['algo'] == 'NCA' and len(t['events']) >= 3)

  def self_in_softmax(t):
    e = t['events'][1]
    e['value'] = [e['value'][0], e['value'][1] + 1, e['value'][2]]
  core.selftest_binding(ctx, *SPEC, good, self_in_softmax, 'C10.nca_value', 'logged_objective_scaled')


def replay(path, frozen=False):
  return core.standard_replay(MOD, PID, *SPEC, path, frozen)
