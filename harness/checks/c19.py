"""C19 - the learned distance depends on the data only through its geometry.

Model: MC_Geometry (the definitions - scatter matrix, pair statistic - are invariant / covariant under
translation, permutation, orthogonal maps, scaling, within-pair swap; exhaustive on an integer grid).
Conformance: per case two real fits (original and transformed training data, dyadic grid so that the
transformation is exact) and the learned distances on corresponding query pairs; TLC (TR_Geometry) checks
the relation prescribed by Geometry.tla for the estimators the statement lists.
"""
import warnings
import numpy as np

import core
import gen
from num import dy, dyv, dym

MOD = 'checks.c19'
SPEC = ('TR_Geometry', 'TR_Geometry.cfg')
PID = 'C19'

H4 = 0.5 * np.array([[1, 1, 1, 1], [1, -1, 1, -1], [1, 1, -1, -1], [1, -1, -1, 1]], float)
RELS = {'translation': gen.ALL, 'swap': ['ITML', 'MMC', 'SDML', 'LSML'], 'permutation': ['Covariance', 'RCA'],
        'scaling': ['Covariance', 'RCA'], 'orthogonal': ['Covariance', 'RCA', 'LFDA', 'LMNN', 'ITML', 'LSML', 'MMC']}


def rand_Q(rng, d):
  Q = np.zeros((d, d))
  for i, j in enumerate(rng.permutation(d)):
    Q[i, j] = float(rng.choice([-1, 1]))
  if d >= 4 and rng.random() < 0.7:
    idx = rng.choice(d, size=4, replace=False)
    Hm = np.eye(d)
    Hm[np.ix_(idx, idx)] = H4
    Q = Hm.dot(Q)
  return Q


def options_for(rng, name, rel, d, ncls):
  o = dict(gen.FAST[name])
  opt = 'na'
  if 'random_state' in gen.CLS[name]().get_params():
    o['random_state'] = int(rng.integers(100))
  if rel == 'orthogonal':
    if name == 'LMNN':
      o['init'] = 'identity'; opt = 'identity'
    if name in ('ITML', 'LSML'):
      opt = str(rng.choice(['identity', 'covariance'])); o['prior'] = opt
    if name == 'MMC':
      opt = str(rng.choice(['identity', 'covariance'])); o['init'] = opt
    if name == 'LFDA':
      o['embedding_type'] = str(rng.choice(['weighted', 'plain', 'orthonormalized']))
  else:
    o = gen.options(rng, name, d, ncls)
    o.pop('diagonal', None); o.pop('diagonal_c', None)      # (MMC's diagonal variant may legitimately raise: C14)
  if name in ('RCA', 'LFDA') and rng.random() < 0.4:
    o['n_components'] = int(rng.integers(1, d + 1))
  if name.startswith('SDML'):
    o['balance_param'] = 2.0 ** -17
  if name in ('NCA', 'MLKR', 'LMNN'):
    # The gradient learners embed the POINTS before taking differences, so even a translation changes their arithmetic at
    # rounding level, and a single line-search decision of the optimiser that flips turns that into percents (2 of 250 NCA
    # cases at VERIF_SEED=2 in the thorough tier, 4.8 % after ONE L-BFGS iteration).  Their relation is therefore judged on
    # the model with ZERO optimiser iterations - i.e. on the initialisation, which for 'auto' / 'pca' / 'lda' is computed
    # from the training data; that the objective and gradient which drive the iterations are the documented (translation
    # invariant) ones is decided exactly, evaluation by evaluation, by C10.
    if name == 'LMNN':
      o['max_iter'] = 2
    else:
      o['max_iter'], o['tol'] = 1, 1e10
  return o, opt


def transform_input(tr, rel, T):
  """returns fit args for the transformed data set"""
  name_kind = tr['kind']
  X = tr['X']

  def pts(A):
    if rel == 'translation':
      return A + T['t']
    if rel == 'orthogonal':
      return A.dot(T['Q'].T)
    if rel == 'scaling':
      return A * T['c']
    return A
  args = list(tr['fit_args'])
  if rel in ('translation', 'orthogonal', 'scaling'):
    args[0] = pts(args[0])
  elif rel == 'swap':
    a = args[0]
    args[0] = a[:, ::-1].copy() if a.shape[1] == 2 else a[:, [1, 0, 3, 2]].copy()
  elif rel == 'permutation':
    p = T['perm']
    args = [np.asarray(a)[p] for a in args]
  return tuple(args), pts


def gen_case(rng, name, rel, directed=None):
  d = int(rng.integers(2, 6))
  if rel == 'orthogonal' and rng.random() < 0.5:
    d = int(rng.integers(4, 7))
  tr = gen.training(rng, name, d=d, sep=2.5)
  if directed == 'many_points':
    # a LARGE pair set (more than a thousand distinct points; ITML's default bounds are percentiles over all of them)
    d = 3
    Xm, ym = gen.dataset(rng, d=d, n_classes=2, per_class=650, bits=9, sep=2.5)
    pm = rng.permutation(len(Xm))
    idxm = pm[:len(pm) // 2 * 2].reshape(-1, 2)                                   # every point in exactly one pair: 1300 distinct points
    idxm = idxm[[not np.array_equal(Xm[a], Xm[b]) for a, b in idxm]]
    labm = np.where(ym[idxm[:, 0]] == ym[idxm[:, 1]], 1, -1)
    tr = dict(X=Xm, y=ym, kind='pairs', idx=idxm, labels=labm, fit_args=(Xm[idxm], labm), fit_kwargs={})
  if name == 'LFDA' and (directed == 'singleton' or rng.random() < 0.4):
    # a class with a SINGLE member (any class layout is in the quantifier)
    y0 = np.asarray(tr['y'])
    c = int(rng.choice(np.unique(y0)))
    keep = np.setdiff1d(np.arange(len(y0)), np.flatnonzero(y0 == c)[1:])
    tr = gen.training(rng, name, X=tr['X'][keep], y=y0[keep])
  if name == 'RCA' and rng.random() < 0.4:
    # a chunklet with a SINGLE member (its centred point is the zero vector): any chunk layout is in the quantifier
    a = list(tr['fit_args'])
    ch = np.array(a[1]).copy()
    free = np.flatnonzero(ch == -1)
    i = int(free[0]) if len(free) else int(rng.integers(len(ch)))
    if len(free) or (ch == ch[i]).sum() > 2:
      ch[i] = ch.max() + 1 + int(rng.integers(0, 3))
      a[1] = ch
      tr = dict(tr, fit_args=tuple(a))
  X = tr['X']
  ncls = len(set(tr['y'].tolist()))
  if name == 'RCA_Supervised':
    pass
  o, opt = options_for(rng, name, rel, d, ncls)
  if name == 'RCA_Supervised':
    o['n_chunks'] = min(o.get('n_chunks', 6), int(sum(c // o.get('chunk_size', 2) for c in np.bincount(tr['y']))))
  if name in ('RCA', 'RCA_Supervised') and o.get('n_components'):
    # the reduction keeps the leading directions of total versus within-chunk covariance; the between-chunk scatter has
    # rank <= (number of chunklets - 1), beyond which the generalised eigenvalues are exactly tied and the kept directions
    # are not determined by the data at all (found by the thorough tier: 2 chunklets, n_components = 2): well-posed
    # reductions only
    nch = o['n_chunks'] if name == 'RCA_Supervised' else len(set(int(c) for c in tr['fit_args'][1] if c >= 0))
    if o['n_components'] < d and o['n_components'] > nch - 1:
      if nch - 1 >= 1:
        o['n_components'] = nch - 1
      else:
        o.pop('n_components')
  T = {'t': np.round(rng.normal(size=d) * 16.0) / 4.0, 'Q': rand_Q(rng, d), 'c': float(rng.choice([0.5, 2.0, 3.0, 0.75, 5.0, 2.0 ** -16, 2.0 ** -21, 2.0 ** 13])),
       'perm': rng.permutation(len(X))}
  if directed == 'tiny_scale':
    T['c'] = float(rng.choice([2.0 ** -16, 2.0 ** -21, 2.0 ** -30, 2.0 ** -40]))     # (variances down to 2^-80: no absolute floor applies)
    o.pop('n_components', None)
  ev = {'ev': 'GeoCase', 'est': name, 'rel': rel, 'opt': opt, 'exc': '', 'd0': [], 'd1': [], 'c': dy(T['c']),
        'Q': dym(T['Q']) if rel == 'orthogonal' else [], 'M0': [], 'M1': [], 'dim': d}
  args1, pts = transform_input(tr, rel, T)
  qi = rng.integers(len(X), size=(8, 2))
  Pq = X[qi] + np.round(rng.normal(size=(8, 2, d)) * 4) / 8.0
  Pq1 = pts(Pq)
  with warnings.catch_warnings(record=True) as wrec:
    warnings.simplefilter('always')
    try:
      e0 = gen.CLS[name](**o).fit(*tr['fit_args'])
      e1 = gen.CLS[name](**o).fit(*args1)
      from sklearn.exceptions import ConvergenceWarning
      if name.startswith('SDML') and any(issubclass(x.category, ConvergenceWarning) for x in wrec):
        # scikit-learn's graphical lasso SAID that it stopped short of its tolerance in one of the two fits: what it returned
        # is an unconverged iterate, which says nothing about the relation (the case is redrawn, like a RuntimeError)
        raise RuntimeError('solver reported that it did not converge')
      ev['d0'] = dyv(e0.pair_distance(Pq))
      # scaling: the statement compares distances between the SAME points under the two models
      ev['d1'] = dyv(e1.pair_distance(Pq if rel == 'scaling' else Pq1))
      if rel == 'orthogonal':
        ev['M0'] = dym(e0.get_mahalanobis_matrix())
        ev['M1'] = dym(e1.get_mahalanobis_matrix())
    except Exception as e:
      ev['exc'] = type(e).__name__
      ev['exc_msg'] = str(e)[:160]
  return ev


def gen_trace(recipe):
  rng = np.random.default_rng(recipe['seed'])
  events = []
  for _ in range(recipe['n']):
    for attempt in range(8):
      ev = gen_case(rng, recipe['est'], recipe['rel'], recipe.get('directed'))
      # SDML may legitimately raise RuntimeError when its solver cannot produce an SPD matrix (C13): such a case
      # says nothing about C19 and is redrawn
      if not (recipe['est'].startswith('SDML') and ev['exc'] == 'RuntimeError'):
        break
    events.append(ev)
  return {'est': recipe['est'], 'events': events}


def signature_of(recipe, tr, clause, pos):
  e = tr['events'][pos - 1] if 0 < pos <= len(tr['events']) else {}
  return {'estimator': recipe['est'], 'relation': recipe['rel'], 'opt': e.get('opt')}


def run(ctx):
  ctx.model('MC_Geometry', 'MC_Geometry.cfg')
  rng = np.random.default_rng(ctx.seed + 19)
  rs = []
  n = 3 if ctx.quick else 250
  for rel, names in RELS.items():
    for name in names:
      rs.append(dict(est=name, rel=rel, n=n, seed=int(rng.integers(1 << 30))))
  # directed: a class with a single member (LFDA), features scaled down by 2^-16 / 2^-21 (full-dimension RCA / Covariance)
  for rel in ('translation', 'orthogonal'):
    rs.append(dict(est='LFDA', rel=rel, n=n, directed='singleton', seed=int(rng.integers(1 << 30))))
  for name in ('RCA', 'Covariance'):
    rs.append(dict(est=name, rel='scaling', n=n, directed='tiny_scale', seed=int(rng.integers(1 << 30))))
  for rel in ('orthogonal', 'translation', 'swap'):
    rs.append(dict(est='ITML', rel=rel, n=1 if ctx.quick else 6, directed='many_points', seed=int(rng.integers(1 << 30))))
  ctx.rule = ('every (relation, estimator) combination the statement lists: translation x 17, within-tuple swap x '
              '{ITML,MMC,SDML,LSML}, sample permutation x {Covariance,RCA}, scaling x {Covariance,RCA}, orthogonal maps '
              '(signed permutations, Hadamard blocks) x {Covariance,RCA,LFDA,LMNN(identity),ITML,LSML,MMC}; %d random '
              'data sets / option settings each on a dyadic grid, 8 query pairs; distinct by (estimator, relation, data)' % n)
  pairs = core.generate(MOD, rs)
  core.judge(ctx, *SPEC, pairs, signature_of)
  for r, t in pairs:
    for e in t['events']:
      ctx.note_case((r['est'], r['rel'], str(e['d0'])[:80]))
  ctx.sample({k: str(v)[:160] for k, v in pairs[0][1]['events'][0].items()})
  ctx.extra['combinations'] = len(rs)
  good = pairs[0][1]

  def shifted(t):
    e = t['events'][0]
    e['d1'] = [list(x) for x in e['d1']]
    e['d1'][0] = [1, 0, [7]]
  core.selftest_binding(ctx, *SPEC, good, shifted, 'C19.', 'distance_changed_under_transformation')


def replay(path, frozen=False):
  return core.standard_replay(MOD, PID, *SPEC, path, frozen)
