"""C07 - constraints generated from labels respect the labels.

Model: MC_Constraints over ALL label vectors of length <= N on {-1,0,1,2} (feasibility pre-check <=>
a valid chunking exists, existence conditions, k-NN count formula).  spec -> code: every label vector
enumerated by TLC is fed to the real Constraints helper with parameter settings from a grid and integer
seeds (points on a small integer grid WITH duplicates, so neighbour distances and ties are exact);
random larger label vectors are added.  TLC validates every call with TR_Constraints (integers and sets
only; ties in the neighbour search are existential).
"""
import os
import re
import warnings
import numpy as np

import core
import tlaval
from metric_learn.constraints import Constraints, wrap_pairs

MOD = 'checks.c07'
SPEC = ('TR_Constraints', 'TR_Constraints.cfg')
PID = 'C07'


def one(seq):
  return [int(v) + 1 for v in seq]


def pairs_event(y, n, same_length, seed):
  ev = {'ev': 'ConsPairs', 'y': [int(v) for v in y], 'n': int(n), 'same_length': bool(same_length), 'seed': int(seed),
        'exc': '', 'A': [], 'B': [], 'C': [], 'D': [], 'A2': [], 'B2': [], 'C2': [], 'D2': [], 'warned': False}
  try:
    with warnings.catch_warnings(record=True) as w:
      warnings.simplefilter('always')
      cons = Constraints(np.array(y))
      a, b, c, d = cons.positive_negative_pairs(n, same_length=same_length, random_state=seed)
    ev['warned'] = any('Only generated' in str(x.message) for x in w)
    ev['A'], ev['B'], ev['C'], ev['D'] = one(a), one(b), one(c), one(d)
    with warnings.catch_warnings():
      warnings.simplefilter('ignore')
      a, b, c, d = cons.positive_negative_pairs(n, same_length=same_length, random_state=seed)      # the SAME object again
    ev['A2'], ev['B2'], ev['C2'], ev['D2'] = one(a), one(b), one(c), one(d)
  except Exception as e:
    ev['exc'] = type(e).__name__
  return ev


def chunks_event(y, n, size, seed):
  ev = {'ev': 'ConsChunks', 'y': [int(v) for v in y], 'n': int(n), 'size': int(size), 'seed': int(seed), 'exc': '',
        'ch': [], 'ch2': []}
  try:
    cons = Constraints(np.array(y))
    ev['ch'] = [int(v) for v in cons.chunks(n_chunks=n, chunk_size=size, random_state=seed)]
    # the SAME object asked again (a helper object holds labels, not consumable state), and a fresh object
    ev['ch2'] = [int(v) for v in cons.chunks(n_chunks=n, chunk_size=size, random_state=seed)]
    ch3 = [int(v) for v in Constraints(np.array(y)).chunks(n_chunks=n, chunk_size=size, random_state=seed)]
    if ch3 != ev['ch']:
      ev['ch2'] = ch3
  except Exception as e:
    ev['exc'] = type(e).__name__
  return ev


def knn_event(y, X, kg, ki):
  ev = {'ev': 'ConsKnn', 'y': [int(v) for v in y], 'X': [[int(v) for v in r] for r in X], 'kg': int(kg), 'ki': int(ki),
        'exc': '', 'T': []}
  try:
    with warnings.catch_warnings():
      warnings.simplefilter('ignore')
      T = Constraints(np.array(y)).generate_knntriplets(np.asarray(X, float), kg, ki)
    ev['T'] = [one(t) for t in T]
  except Exception as e:
    ev['exc'] = type(e).__name__
  return ev


def wrap_event(y, X, n, seed):
  with warnings.catch_warnings():
    warnings.simplefilter('ignore')
    cons = Constraints(np.array(y)).positive_negative_pairs(n, random_state=seed)
  pairs, lab = wrap_pairs(np.asarray(X), cons)
  return {'ev': 'WrapPairs', 'X': [[int(v) for v in r] for r in X], 'A': one(cons[0]), 'B': one(cons[1]),
          'C': one(cons[2]), 'D': one(cons[3]),
          'pairs': [[[int(v) for v in p[0]], [int(v) for v in p[1]]] for p in pairs],
          'labels': [int(v) for v in lab]}


def concretise(rng, y):
  """the abstraction map of Constraints.tla read backwards: the specification only distinguishes unknown (negative) labels and
  the partition of the known ones, so a label vector enumerated over {-1,0,1,2} stands for every vector with the same
  pattern: unknown entries become ARBITRARY negative numbers (several different ones), classes arbitrary distinct ids"""
  if rng.random() < 0.4:
    return [int(v) for v in y]
  ids = sorted({v for v in y if v >= 0})
  new = rng.choice(np.arange(0, 3 * len(ids) + 4), size=len(ids), replace=False) if ids else []
  m = {a: int(b) for a, b in zip(ids, new)}
  neg = [-1, -2, -3, -9]
  return [m[v] if v >= 0 else int(neg[int(rng.integers(len(neg)))]) for v in y]


def gen_trace(recipe):
  if recipe.get('suite'):
    import suite
    return suite.regen(recipe, ('CallConsPairs', 'CallConsChunks'))
  rng = np.random.default_rng(recipe['seed'])
  events = []
  for y in recipe['ys']:
    y = concretise(rng, y)
    n = len(y)
    X = rng.integers(0, 4, size=(n, 2))           # integer grid with duplicates
    for rep in range(recipe['reps']):
      events.append(pairs_event(y, int(rng.integers(1, 6)), bool(rng.integers(2)), int(rng.integers(1000))))
      events.append(chunks_event(y, int(rng.integers(1, 4)), int(rng.integers(1, 4)), int(rng.integers(1000))))
    events.append(knn_event(y, X, int(rng.integers(1, 4)), int(rng.integers(1, 4))))
    if len(y) >= 2 and rng.random() < 0.2 and any(v >= 0 for v in y):
      try:
        events.append(wrap_event(y, X, 3, int(rng.integers(1000))))
      except ValueError:
        pass      # no pair of one kind exists: outside the quantifier (the ConsPairs event records it)
  return {'events': events}


def signature_of(recipe, tr, clause, pos):
  e = tr['events'][pos - 1] if 0 < pos <= len(tr['events']) else {}
  sig = {'generator': e.get('ev')}
  if e.get('ev') == 'ConsKnn':
    y = e['y']
    sig['has_unknown_labels'] = any(v < 0 for v in y)
  return sig


def load_label_vectors(ctx, n):
  cfgp = os.path.join(ctx.work, 'MC_Constraints.cfg')
  with open(cfgp, 'w') as f:
    f.write('CONSTANTS N = %d\n NChunks = {1, 2}\n Sizes = {1, 2, 3}\n BruteForceLen = 5\nINIT Init\nNEXT Next\n' % n)
    for i in ['FeasibleIffChunkingExists', 'PosExistsIff', 'NegExistsIff', 'KnnCountFormula']:
      f.write('INVARIANT %s\n' % i)
    f.write('CHECK_DEADLOCK FALSE\n')
  dump = os.path.join(ctx.work, 'labels')
  r = core.run_tlc('MC_Constraints', cfgp, ctx.work, workers=core.NCPU, extra=['-dump', dump], xmx='6g')
  core.require_model_ok(r, 'MC_Constraints')
  ctx.states += r.distinct
  ctx.transitions += r.generated
  ctx.cmds.append(r.cmd)
  ctx.models.append(dict(module='MC_Constraints', N=n, distinct=r.distinct, generated=r.generated, wall_s=round(r.wall, 1)))
  ys = [tlaval.parse(m.group(1)) for m in re.finditer(r'^y = (<<.*?>>)\s*$', open(dump + '.dump').read(), re.M)]
  if len(ys) != r.distinct:
    raise core.MachineryError('parsed %d label vectors, TLC reports %d' % (len(ys), r.distinct))
  return ys


def run(ctx):
  n = 6 if ctx.quick else 7
  ys = load_label_vectors(ctx, n)
  ctx.exhaustive = True
  rng = np.random.default_rng(ctx.seed + 7)
  per = 60
  rs = []
  for i in range(0, len(ys), per):
    rs.append(dict(ys=ys[i:i + per], reps=1 if ctx.quick else 3, seed=int(rng.integers(1 << 30)), src='mc'))
  # random larger label vectors: unbalanced, singleton classes, unknown labels
  nl = 300 if ctx.quick else 4000
  big = []
  for _ in range(nl):
    m = int(rng.integers(7, 41))
    k = int(rng.integers(2, 6))
    p = rng.dirichlet(np.ones(k + 1) * 0.7)
    y = rng.choice(np.arange(-1, k), size=m, p=p)
    big.append([int(v) for v in y])
  for i in range(0, len(big), 20):
    rs.append(dict(ys=big[i:i + 20], reps=1, seed=int(rng.integers(1 << 30)), src='random'))
  ctx.rule = ('every label vector of length 1..%d over {-1,0,1,2} enumerated by TLC (plus %d random vectors of length '
              '7..40) x random n_constraints/same_length/n_chunks/chunk_size/k_genuine/k_impostor in 1..5/1..3 x integer '
              'seeds, points on a 4x4 integer grid with duplicates; distinct by (call, label vector, parameters, seed); '
              'non-trivial = the case lies inside the property quantifier (decided by TLC: InQuantifier*)' % (n, nl))
  ctx.rule += " Plus the executions of the repository's own test suite recorded by the pytest tracing plugin (one case per test / per estimator object; distinct by test id)."
  pairs = core.generate(MOD, rs)
  verdicts, _ = core.judge(ctx, *SPEC, pairs, signature_of)
  nev = 0
  for recipe, tr in pairs:
    for e in tr['events']:
      nev += 1
      inq = True
      ctx.note_case((e['ev'], str(e.get('y')), e.get('n'), e.get('size'), e.get('kg'), e.get('ki'), e.get('seed'),
                     e.get('same_length')), nontrivial=True)
  ctx.extra['calls_replayed'] = nev
  # constraint generation as the repository's own tests (and every *_Supervised fit they run) call it
  import suite
  evs, summary = core.record_suite_calls(os.path.join(ctx.work, 'suite'),
                                         files=['test/test_constraints.py', 'test/test_fit_transform.py', 'test/test_base_metric.py',
                                                'test/test_components_metric_conversion.py'] if ctx.quick else ['test/'])
  spairs = suite.traces_from(evs, ('CallConsPairs', 'CallConsChunks'), 150 if ctx.quick else 0, np.random.default_rng(ctx.seed), spec=SPEC)
  if len(spairs) < 10:
    raise core.MachineryError('only %d constraint-generation traces recorded from the repository tests (%s)' % (len(spairs), summary))
  core.judge(ctx, *SPEC, spairs, lambda r, t, c, p: {'generator': t['events'][p - 1]['ev'] if 0 < p <= len(t['events']) else '', 'suite': True}, tag='suite')
  for r, t in spairs:
    ctx.note_case(('suite', r['test']))
  ctx.extra['suite_traces'] = {'pytest_summary': summary, 'tests_validated': len(spairs),
                               'calls_validated': sum(len(t['events']) for _, t in spairs)}

  def cross_label(t):
    e = next(e for e in t['events'] if e['ev'] == 'CallConsPairs' and e['A'] and e['C'])
    e['B'][0] = e['D'][0] if e['y'][e['D'][0] - 1] != e['y'][e['A'][0] - 1] else e['C'][0]
  sg = next((t for r, t in spairs if any(e['ev'] == 'CallConsPairs' and e['A'] and e['C'] for e in t['events'])), None)
  if sg is not None:
    core.selftest_binding(ctx, *SPEC, sg, cross_label, 'C07.suite_pairs.positive_sound', 'suite_cross_label_positive_pair')
  ctx.extra['label_vectors_from_TLC'] = len(ys)
  # the outside-quantifier counters come from TLC (clause_exercised: C07.*.outside_quantifier)
  t = pairs[1][1]
  ctx.sample({'events': t['events'][:3]})
  good = pairs[len(pairs) // 3][1]

  def corrupt_pair(t):
    for e in t['events']:
      if e['ev'] == 'ConsPairs' and e['exc'] == '' and len(e['A']) >= 1 and len(e['C']) >= 1:
        e['B'][0] = e['D'][0] if e['y'][e['D'][0] - 1] != e['y'][e['A'][0] - 1] else e['C'][0]
        e['B2'] = list(e['B'])
        return
  core.selftest_binding(ctx, *SPEC, good, corrupt_pair, 'C07.pairs.positive_sound', 'cross_label_positive_pair')


def replay(path, frozen=False):
  return core.standard_replay(MOD, PID, *SPEC, path, frozen)
