"""Seeded generators of well-formed training inputs and estimator configurations.

All data live on a dyadic grid (multiples of 2**-GRID_BITS) so that differences and
translations are exact in floating point and every number is cheap to export exactly.
Generators stay inside each property's stated quantifier: 2 <= n_features <= 8,
n_samples >= 4 * n_features, >= 2 classes with >= 4 members each, no collapsed pairs.
"""
import warnings
import numpy as np

import metric_learn
from metric_learn import (Covariance, LFDA, LMNN, NCA, MLKR, RCA, RCA_Supervised, ITML,
                          ITML_Supervised, MMC, MMC_Supervised, SDML, SDML_Supervised, LSML,
                          LSML_Supervised, SCML, SCML_Supervised)

GRID_BITS = 8

ALL = ['Covariance', 'LFDA', 'LMNN', 'NCA', 'MLKR', 'RCA', 'RCA_Supervised', 'ITML', 'ITML_Supervised',
       'MMC', 'MMC_Supervised', 'SDML', 'SDML_Supervised', 'LSML', 'LSML_Supervised', 'SCML',
       'SCML_Supervised']
CLS = {n: getattr(metric_learn, n) for n in ALL}
KIND = {'Covariance': 'unsup', 'LFDA': 'sup', 'LMNN': 'sup', 'NCA': 'sup', 'MLKR': 'reg', 'RCA': 'chunks',
        'RCA_Supervised': 'sup', 'ITML': 'pairs', 'ITML_Supervised': 'sup', 'MMC': 'pairs',
        'MMC_Supervised': 'sup', 'SDML': 'pairs', 'SDML_Supervised': 'sup', 'LSML': 'quadruplets',
        'LSML_Supervised': 'sup', 'SCML': 'triplets', 'SCML_Supervised': 'sup'}
TUPLE_SIZE = {'pairs': 2, 'triplets': 3, 'quadruplets': 4}
PAIRS = ['ITML', 'MMC', 'SDML']


def grid(a, bits=GRID_BITS):
  return np.round(np.asarray(a, dtype=float) * (1 << bits)) / (1 << bits)


def relabel(rng, y):
  """the same partition into classes under an arbitrary alphabet of distinct non-negative integers
  (class ids need not be 0..c-1: gaps, large ids, any order)"""
  ids = np.unique(y)
  new = rng.choice(np.arange(0, 4 * len(ids) + 6), size=len(ids), replace=False)
  out = np.array(y).copy()
  for a, b in zip(ids, new):
    out[np.asarray(y) == a] = b
  return out


def dataset(rng, d=None, n_classes=None, per_class=None, sep=2.0, bits=GRID_BITS, unbalanced=False):
  """well-formed classification data on the dyadic grid; returns X (n,d), y (n,) ints 0..c-1"""
  d = d or int(rng.integers(2, 6))
  n_classes = n_classes or int(rng.integers(2, 4))
  per_class = per_class or max(4, int(np.ceil(4 * d / n_classes)) + int(rng.integers(0, 3)))
  while True:
    centers = rng.normal(size=(n_classes, d)) * sep
    A = rng.normal(size=(d, d)) * 0.5 + np.eye(d)
    X, y = [], []
    for c in range(n_classes):
      m = per_class + (int(rng.integers(0, 3)) if c else 0)
      if unbalanced and c:
        m = per_class * int(rng.integers(2, 4))          # the first class is the small one (>= 4 members as everywhere)
      X.append(centers[c] + rng.normal(size=(m, d)).dot(A.T))
      y += [c] * m
    X = grid(np.vstack(X), bits)
    y = np.array(y)
    perm = rng.permutation(len(y))
    X, y = X[perm], y[perm]
    # distinct points, full-rank covariance - of the whole sample AND within the classes (a mixing matrix with a nearly
    # vanishing row makes one feature constant inside every class once it is rounded to the grid: found by the thorough
    # tier at VERIF_SEED=1, where RCA legitimately returned NaN on such a set)
    Xw = X - np.array([X[y == c].mean(axis=0) for c in range(n_classes)])[y]
    if (len(np.unique(X, axis=0)) == len(X) and np.linalg.matrix_rank(np.cov(X.T)) == d
            and (len(X) - n_classes < d or np.linalg.matrix_rank(Xw) == d)):
      return X, y


def layout(rng, A):
  """the same array in one of the memory layouts a user's array may have: C-ordered copy, Fortran-ordered, a transposed
  view, a strided (non-contiguous) view"""
  A = np.asarray(A)
  k = int(rng.integers(4))
  if k == 0 or A.ndim != 2:
    return A.copy()
  if k == 1:
    return np.asfortranarray(A)
  if k == 2:
    return np.ascontiguousarray(A.T).T
  big = np.zeros((2 * A.shape[0], 2 * A.shape[1]), dtype=A.dtype)
  big[::2, ::2] = A
  return big[::2, ::2]


def documented_pairs(X, cons):
  """what the Constraints helper's output MEANS (written out here, not taken from the library's wrap_pairs): the pairs
  (X[a_i], X[b_i]) labelled +1 followed by the pairs (X[c_i], X[d_i]) labelled -1"""
  a, b, c, d = (np.asarray(v, dtype=int) for v in cons)
  X = np.asarray(X)
  pairs = np.concatenate([np.stack([X[a], X[b]], axis=1), np.stack([X[c], X[d]], axis=1)], axis=0) \
      if len(a) + len(c) else np.zeros((0, 2, X.shape[1]))
  return pairs, np.array([1] * len(a) + [-1] * len(c))


def pairs_from(rng, X, y, n_pairs):
  """index pairs (i,j), labels +1 (same class) / -1, both labels present, i != j"""
  n = len(y)
  out, lab = [], []
  seen = set()
  want_pos = n_pairs // 2
  tries = 0
  while len(out) < n_pairs and tries < 100000:
    tries += 1
    i, j = int(rng.integers(n)), int(rng.integers(n))
    if i == j or (i, j) in seen or np.array_equal(X[i], X[j]):
      continue
    l = 1 if y[i] == y[j] else -1
    npos = sum(1 for t in lab if t == 1)
    if l == 1 and npos >= want_pos:
      continue
    if l == -1 and (len(lab) - npos) >= n_pairs - want_pos:
      continue
    seen.add((i, j))
    out.append((i, j))
    lab.append(l)
  return np.array(out), np.array(lab)


def triplets_from(rng, X, y, n_t):
  n = len(y)
  out = []
  tries = 0
  while len(out) < n_t and tries < 100000:
    tries += 1
    a, b, c = (int(v) for v in rng.integers(n, size=3))
    if a == b or y[a] != y[b] or y[a] == y[c]:
      continue
    out.append((a, b, c))
  return np.array(out)


def quadruplets_from(rng, X, y, n_q):
  """(a,b,c,d): a,b same class, c,d different classes  (d(a,b) should be < d(c,d))"""
  n = len(y)
  out = []
  tries = 0
  while len(out) < n_q and tries < 100000:
    tries += 1
    a, b, c, e = (int(v) for v in rng.integers(n, size=4))
    if a == b or c == e or y[a] != y[b] or y[c] == y[e]:
      continue
    out.append((a, b, c, e))
  return np.array(out)


def chunks_from(rng, y, with_unknown=None):
  """chunk labels: split each class into chunks of >= 2 members; some points get -1 (or, four times in ten, none does)"""
  if with_unknown is None:
    with_unknown = bool(rng.random() < 0.6)
  ch = -np.ones(len(y), dtype=int)
  nxt = 0
  for c in np.unique(y):
    idx = np.flatnonzero(y == c)
    rng.shuffle(idx)
    if with_unknown and len(idx) > 4:
      idx = idx[:-1]
    k = max(1, len(idx) // int(rng.integers(2, 4)))
    parts = np.array_split(idx, k)
    for p in parts:
      if len(p) >= 2:
        ch[p] = nxt
        nxt += 1
  if nxt and rng.random() < 0.5:
    # chunk ids are names: "chunks[i] == j: point i belongs to chunklet j" - gaps, one-based, any order
    new = rng.choice(np.arange(0, 3 * nxt + 3), size=nxt, replace=False)
    ch = np.where(ch >= 0, new[np.maximum(ch, 0)], -1)
  return ch


class Case:
  """a training input for one estimator kind"""
  pass


def training(rng, name, d=None, X=None, y=None, **kw):
  """returns dict(X, y, fit_args (tuple), fit_kwargs, tuples_idx or None)"""
  kind = KIND[name]
  if X is None:
    X, y = dataset(rng, d=d, **kw)
  n = len(y)
  res = dict(X=X, y=y, kind=kind, idx=None, fit_kwargs={})
  if kind == 'unsup':
    res['fit_args'] = (X,)
  elif kind == 'sup':
    res['fit_args'] = (X, y)
  elif kind == 'reg':
    w = rng.normal(size=X.shape[1])
    yr = grid(X.dot(w) + 0.1 * rng.normal(size=n))
    res['yreg'] = yr
    res['fit_args'] = (X, yr)
  elif kind == 'chunks':
    ch = chunks_from(rng, y)
    res['chunks'] = ch
    res['fit_args'] = (X, ch)
  elif kind == 'pairs':
    idx, lab = pairs_from(rng, X, y, max(2 * X.shape[1] + 4, 12))
    res['idx'], res['labels'] = idx, lab
    res['fit_args'] = (X[idx], lab)
  elif kind == 'triplets':
    idx = triplets_from(rng, X, y, max(3 * X.shape[1], 16))
    res['idx'] = idx
    res['fit_args'] = (X[idx],)
  elif kind == 'quadruplets':
    idx = quadruplets_from(rng, X, y, max(2 * X.shape[1] + 4, 12))
    res['idx'] = idx
    res['fit_args'] = (X[idx],)
  return res


# fast, in-range default hyper-parameters (iteration budgets kept small: the properties hold for
# every budget, and the checks never rely on convergence unless they say so)
FAST = {
    'Covariance': {}, 'LFDA': {}, 'RCA': {},
    'LMNN': dict(max_iter=12, min_iter=3, n_neighbors=2, learn_rate=1e-6),
    'NCA': dict(max_iter=8), 'MLKR': dict(max_iter=8),
    'RCA_Supervised': dict(n_chunks=6, chunk_size=2, random_state=3),
    'ITML': dict(max_iter=30), 'ITML_Supervised': dict(max_iter=30, n_constraints=20, random_state=3),
    'MMC': dict(max_iter=6, max_proj=200), 'MMC_Supervised': dict(max_iter=6, max_proj=200, n_constraints=20, random_state=3),
    'SDML': dict(balance_param=0.3, sparsity_param=0.05, prior='covariance'),
    'SDML_Supervised': dict(balance_param=0.3, sparsity_param=0.05, prior='covariance', n_constraints=20, random_state=3),
    'LSML': dict(max_iter=20), 'LSML_Supervised': dict(max_iter=20, n_constraints=20, random_state=3),
    'SCML': dict(max_iter=60, output_iter=20, batch_size=4, n_basis=24, random_state=3),
    'SCML_Supervised': dict(max_iter=60, output_iter=20, batch_size=4, k_genuine=2, k_impostor=3, random_state=3),
}


def options(rng, name, d, n_classes=2):
  """a random documented option setting on top of FAST (kept in range)"""
  o = dict(FAST[name])
  r = rng.random
  if name in ('LMNN', 'NCA', 'MLKR'):
    inits = ['auto', 'pca', 'identity', 'random']
    if name != 'MLKR' and n_classes >= 2:
      inits.append('lda')
    o['init'] = inits[int(rng.integers(len(inits)))]
    o['random_state'] = int(rng.integers(100))
    if r() < 0.5:
      o['n_components'] = int(rng.integers(1, d + 1))
    if o['init'] == 'lda':
      # documented restriction of the lda init: n_components <= n_classes - 1
      o['n_components'] = min(o.get('n_components') or d, n_classes - 1, d)
  if name in ('LFDA',):
    o['embedding_type'] = ['weighted', 'orthonormalized', 'plain'][int(rng.integers(3))]
    if r() < 0.5:
      o['k'] = int(rng.integers(1, 4))
    if r() < 0.5:
      o['n_components'] = int(rng.integers(1, d + 1))
  if name in ('RCA', 'RCA_Supervised') and r() < 0.5:
    o['n_components'] = int(rng.integers(1, d + 1))
  if name in ('ITML', 'ITML_Supervised', 'LSML', 'LSML_Supervised'):
    o['prior'] = ['identity', 'covariance', 'random'][int(rng.integers(3))]
    o['random_state'] = int(rng.integers(100))
  if name in ('SDML', 'SDML_Supervised'):
    o['random_state'] = int(rng.integers(100))
  if name in ('MMC', 'MMC_Supervised'):
    o['init'] = ['identity', 'covariance', 'random'][int(rng.integers(3))]
    o['random_state'] = int(rng.integers(100))
    if r() < 0.3:
      o['diagonal'] = True                  # the diagonal variant (its own solver and its own components_ construction)
      o['diagonal_c'] = float(2.0 ** int(rng.integers(-1, 3)))
  if name in ('ITML', 'ITML_Supervised'):
    o['gamma'] = float(2.0 ** int(rng.integers(-2, 3)))
  return o


def make(name, opts=None, **extra):
  o = dict(FAST[name]) if opts is None else dict(opts)
  o.update(extra)
  return CLS[name](**o)


def fit_quiet(est, *a, **k):
  with warnings.catch_warnings():
    warnings.simplefilter('ignore')
    return est.fit(*a, **k)


def prepare_tuples_via(rng, est, X, idx, *rest, **kw):
  """choose one of the documented ways of supplying the tuples X[idx] to `est`: formed, or as indices into a
  preprocessor array - set on this estimator for the first time, or REPLACING another array the estimator was fitted
  through before (that earlier fit is made here).  Returns (first argument for fit, how)."""
  how = str(rng.choice(['formed', 'formed', 'formed', 'indices', 'indices_after_other']))
  cp = lambda r: (np.array(r).copy() if isinstance(r, np.ndarray) else r)
  if how == 'formed':
    return X[idx].copy(), how
  if how == 'indices_after_other':
    est.set_params(preprocessor=(X[::-1] * 1.5 + 0.25))
    try:
      fit_quiet(est, idx.copy(), *[cp(r) for r in rest], **kw)
    except Exception:
      pass
  est.set_params(preprocessor=X.copy())
  return idx.copy(), how


def fit_tuples_via(rng, est, X, idx, *rest, **kw):
  """prepare_tuples_via, then the fit.  Returns (est, how)."""
  cp = lambda r: (np.array(r).copy() if isinstance(r, np.ndarray) else r)
  arg, how = prepare_tuples_via(rng, est, X, idx, *rest, **kw)
  return est.fit(arg, *[cp(r) for r in rest], **kw), how


def fitted(rng, name, d=None, opts=None, train=None, **kw):
  """Return (estimator, training, options) fitted on a generated well-formed input.
  SDML needs balance_param small enough for its graphical-lasso input to be positive definite
  (the stated quantifier of C13); it is halved until the fit succeeds."""
  tr = train or training(rng, name, d=d, **kw)
  dd = tr['X'].shape[1]
  o = dict(opts) if opts is not None else options(rng, name, dd, len(set(tr['y'].tolist())))
  if name == 'RCA_Supervised':
    cs = o.get('chunk_size', 2)
    cap = int(sum(c // cs for c in np.bincount(tr['y'][tr['y'] >= 0])))
    # enough chunked points for an invertible within-chunk covariance: n_chunks * (chunk_size - 1) >= d + 2 when possible
    need = int(np.ceil((dd + 2) / max(1, cs - 1)))
    o['n_chunks'] = max(1, min(max(o.get('n_chunks', 100), need), cap))
  for attempt in range(14):
    est = CLS[name](**o)
    try:
      fit_quiet(est, *tr['fit_args'], **tr['fit_kwargs'])
      return est, tr, o
    except ValueError:
      # MMC's diagonal variant may legitimately raise ValueError instead of returning NaN (C14: a Newton step that clips
      # every weight to zero): the bench then uses the full-matrix variant
      if not o.get('diagonal'):
        raise
      o.pop('diagonal'); o.pop('diagonal_c', None)
    except RuntimeError:
      if not name.startswith('SDML'):
        raise
      o['balance_param'] = o.get('balance_param', 0.5) / 4.0
      if attempt >= 8:
        o['prior'] = 'identity'      # (scikit-learn's graphical lasso gives up on ill-conditioned inputs: a well-conditioned prior)
  raise RuntimeError('could not obtain an SDML fit')
