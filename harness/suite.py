"""Behaviours recorded from the repository's own test suite -> traces for TR_MetricLearn.

core.record_suite_calls runs the tests with harness/verif_trace_plugin.py; here the recorded calls are grouped by
test, sub-sampled, and the raw doubles are turned into exact dyadics.  A recipe {'suite': True, 'test': nodeid}
regenerates its trace by re-running that one test on the current tree (used by replays).
"""
import os
import tempfile
import shutil

import numpy as np

import core
from num import dy, dyv, dym

PER_TEST = 6
ALL_KINDS = ('CallPairs', 'CallTransform', 'CallMatrix', 'CallPredictPairs', 'CallTuples')


def convert(e):
  if e['ev'] == 'CallCalibrate':
    # the event format of the generated calibration cases (ObsCalibrate!CalFails): optimality of the stored threshold
    return {'ev': 'CalibrateCase', 'strategy': e['strategy'], 'b2': dy(float(e['beta']) * float(e['beta'])),
            'min_rate': dy(float(e['min_rate'])), 'y': [int(v) for v in e['y']], 'exc': '', 'thr': dy(float(e['thr'])),
            'd': dyv(np.asarray(e['d'], dtype=float)), 'via': 'suite', 'cls': e['cls'], 'method': e['method']}
  if e['ev'] in ('CallConsPairs', 'CallConsChunks'):
    return dict(e)
  if e['ev'] == 'CallFitCov':
    return {'ev': 'CovarianceFit', 'X': dym(np.asarray(e['X'], dtype=float)), 'exc': '', 'L': dym(np.asarray(e['L'], dtype=float)),
            'kind': 'suite', 'cls': e['cls'], 'method': 'fit'}
  if e['ev'] == 'CallFitRca':
    import scipy.linalg
    X = np.asarray(e['X'], dtype=float)
    ch = np.asarray(e['chunks'])
    L = np.asarray(e['L'], dtype=float)
    ev = {'ev': 'RcaFit', 'X': dym(X), 'chunks': [int(v) for v in ch], 'exc': '', 'L': dym(L), 'Vt': [], 'lam': [],
          'n_components': 0 if L.shape[0] == X.shape[1] else int(L.shape[0]), 'cls': e['cls'], 'method': 'fit'}
    try:
      # witness (verified by TLC): generalised eigen-decomposition C_w v = lam C_t v, V^T C_t V = I
      m = ch != -1
      Xc = X[m].copy()
      for c in np.unique(ch[m]):
        Xc[ch[m] == c] -= Xc[ch[m] == c].mean(axis=0)
      lam, V = scipy.linalg.eigh(Xc.T.dot(Xc) / len(Xc), np.atleast_2d(np.cov(X[m], rowvar=False)))
      ev['Vt'], ev['lam'] = dym(V.T), dyv(lam)
    except Exception:
      pass
    return ev
  ev = {'ev': e['ev'], 'method': e['method'], 'cls': e['cls'], 'L': dym(np.asarray(e['L'], dtype=float).reshape(len(e['L']), -1))}
  if e['ev'] == 'CallMatrix':
    ev['M'] = dym(np.asarray(e['M'], dtype=float))
  elif e['ev'] == 'CallTuples':
    ev['tuples'] = [[dyv(p) for p in t] for t in e['tuples']]
    ev['out'] = [int(v) for v in e['out']] if e['method'] == 'predict' else dyv(np.asarray(e['out'], dtype=float))
  elif e['ev'] == 'CallTransform':
    ev['X'] = dym(np.asarray(e['X'], dtype=float))
    ev['out'] = dym(np.asarray(e['out'], dtype=float))
  else:
    ev['pairs'] = [[dyv(p[0]), dyv(p[1])] for p in e['pairs']]
    if e['ev'] == 'CallPredictPairs':
      ev['out'] = [int(v) for v in e['out']]
      ev['thr'] = dy(float(e['thr']))
    else:
      ev['out'] = dyv(np.asarray(e['out'], dtype=float))
  return ev


def usable(e, kinds):
  if e['ev'] not in kinds:
    return False
  if e['ev'] == 'CallCalibrate':
    return e['strategy'] in ('accuracy', 'f_beta', 'max_tpr', 'max_tnr') and np.isfinite(np.asarray(e['d'], dtype=float)).all() \
        and len(e['d']) == len(e['y']) and 1 in e['y'] and -1 in e['y']
  if e['ev'] in ('CallConsPairs', 'CallConsChunks'):
    return True
  if e['ev'] in ('CallFitCov', 'CallFitRca'):
    # (some repository tests fit RCA on deliberately rank-deficient data and only check the warning: the resulting non-finite
    #  components_ are outside the property's quantifier - well-formed input - and are left out)
    return np.asarray(e['X']).ndim == 2 and np.asarray(e['L']).ndim == 2 and np.isfinite(np.asarray(e['L'], dtype=float)).all()
  L = np.asarray(e['L'], dtype=float)
  if L.ndim != 2 or L.shape[0] == 0:
    return False
  if e['ev'] == 'CallMatrix':
    M = np.asarray(e['M'], dtype=float)
    return M.ndim == 2 and np.isfinite(M).all()
  if e['ev'] == 'CallTuples':
    T = np.asarray(e['tuples'], dtype=float)
    return T.ndim == 3 and T.shape[2] == L.shape[1] and np.asarray(e['out']).ndim == 1
  if e['ev'] == 'CallTransform':
    return np.asarray(e['X']).ndim == 2 and np.asarray(e['out']).ndim == 2
  P = np.asarray(e['pairs'], dtype=float)
  return P.ndim == 3 and P.shape[2] == L.shape[1] and np.asarray(e['out']).ndim == 1


def traces_from(events, kinds, cap_tests, rng, spec=None):
  """group by test; at most PER_TEST events per test, spread over the kinds of call it made"""
  by = {}
  for e in events:
    if usable(e, kinds):
      by.setdefault(e.get('test', ''), []).append(e)
  tests = sorted(by)
  if cap_tests and len(tests) > cap_tests:
    # stratify over (estimator, kinds of call): keep every combination represented
    strata = {}
    for t in tests:
      k = (by[t][0]['cls'], tuple(sorted({(x['ev'], x['method']) for x in by[t]})))
      strata.setdefault(k, []).append(t)
    keep = []
    keys = sorted(strata)
    while len(keep) < cap_tests and keys:
      for k in list(keys):
        if strata[k]:
          keep.append(strata[k].pop(int(rng.integers(len(strata[k])))))
        else:
          keys.remove(k)
        if len(keep) >= cap_tests:
          break
    tests = sorted(keep)
  out = []
  for t in tests:
    evs = by[t]
    seen = {}
    for x in evs:
      seen.setdefault((x['ev'], x['method']), []).append(x)
    pick = []
    while len(pick) < PER_TEST and any(seen.values()):
      for k in sorted(seen):
        if seen[k] and len(pick) < PER_TEST:
          pick.append(seen[k].pop(0))
    out.append(({'suite': True, 'src': 'suite', 'test': t, 'est': pick[0]['cls'], 'kinds': list(kinds), 'spec': list(spec) if spec else None},
                {'est': pick[0]['cls'], 'test': t, 'events': [convert(x) for x in pick]}))
  return out


def regen(recipe, kinds):
  """replay: re-run the one test on the current tree and return its recorded calls as a trace"""
  work = tempfile.mkdtemp(prefix="suite_replay_")
  try:
    events, _ = core.record_suite_calls(work, files=[recipe['test']])
    got = traces_from(events, kinds, 0, np.random.default_rng(0))
    if not got:
      return {'est': recipe.get('est', ''), 'test': recipe['test'], 'events': []}
    return got[0][1]
  finally:
    shutil.rmtree(work, ignore_errors=True)


# ----------------------------------------------------------------------------
# object histories (events 'Life') -> traces for TR_ObjLife
# ----------------------------------------------------------------------------
LIFE_SPEC = ('TR_ObjLife', 'TR_ObjLife.cfg')
MAX_HISTORY = 40


def _snap(o):
  has = o.get('thr') is not None
  return {'fitted': bool(o['fitted']), 'dig': int(o['dig']), 'hasthr': has, 'thr': dy(float(o['thr'])) if has else dy(0.0),
          'nfeat': int(o['nfeat']), 'par': int(o['par'])}


def _life_event(e):
  ev = {'act': e['act'], 'exc': e['exc'], 'before': _snap(e['before']), 'after': _snap(e['after']), 'd': int(e.get('d', -1)),
        'ret_self': bool(e.get('ret_self', False)), 'hasarg': e.get('arg') is not None,
        'arg': dy(float(e['arg'])) if e.get('arg') is not None else dy(0.0), 'test': e.get('test', '')}
  return ev


def life_traces(events, cap, rng):
  """one trace per estimator object seen by the recorded tests (its first MAX_HISTORY public calls)"""
  by = {}
  for e in events:
    if e.get('ev') == 'Life':
      by.setdefault(e['obj'], []).append(e)
  objs = sorted(by)
  if cap and len(objs) > cap:
    # keep every (estimator, set of actions) combination represented
    strata = {}
    for o in objs:
      strata.setdefault((by[o][0]['cls'], tuple(sorted({x['act'] for x in by[o]}))), []).append(o)
    keep, keys = [], sorted(strata)
    while len(keep) < cap and keys:
      for k in list(keys):
        if strata[k]:
          keep.append(strata[k].pop(int(rng.integers(len(strata[k])))))
        else:
          keys.remove(k)
        if len(keep) >= cap:
          break
    objs = sorted(keep)
  out = []
  for o in objs:
    evs = by[o][:MAX_HISTORY]
    tests = sorted({x.get('test', '') for x in evs})
    out.append(({'suite_life': True, 'src': 'suite', 'tests': tests, 'est': evs[0]['cls']},
                {'est': evs[0]['cls'], 'pairs_classifier': bool(evs[0]['pairs_classifier']), 'tests': tests,
                 'events': [_life_event(x) for x in evs]}))
  return out


def regen_life(recipe):
  """replay: re-run the tests the object lived in; all histories of that estimator class, joined (the joins are Env steps)"""
  work = tempfile.mkdtemp(prefix='suite_replay_')
  try:
    events, _ = core.record_suite_calls(work, files=[t for t in recipe['tests'] if t])
    evs = [e for e in events if e.get('ev') == 'Life' and e['cls'] == recipe['est']]
    return {'est': recipe['est'], 'pairs_classifier': bool(evs and evs[0]['pairs_classifier']), 'tests': recipe['tests'],
            'events': [_life_event(x) for x in evs[:10 * MAX_HISTORY]]}
  finally:
    shutil.rmtree(work, ignore_errors=True)


def life_signature(recipe, tr, clause, pos):
  e = tr['events'][pos - 1] if 0 < pos <= len(tr['events']) else {}
  return {'estimator': recipe['est'], 'action': e.get('act', ''), 'suite': True}


def judge_life(ctx, events, cap):
  """validate the recorded object histories against ObjLife; violations of ctx.pid's clauses are registered"""
  pairs = life_traces(events, cap, np.random.default_rng(ctx.seed))
  if len(pairs) < 20:
    raise core.MachineryError('only %d object histories recorded from the repository test suite' % len(pairs))
  core.judge(ctx, *LIFE_SPEC, pairs, life_signature, tag='life')
  for recipe, tr in pairs:
    ctx.note_case(('suite_life', recipe['est'], tuple(recipe['tests']), len(tr['events'])))
  acts = {}
  for _, tr in pairs:
    for e in tr['events']:
      acts[e['act']] = acts.get(e['act'], 0) + 1
  ctx.extra['suite_object_histories'] = {'objects': len(pairs), 'events': sum(len(t['events']) for _, t in pairs),
                                        'actions': acts, 'estimators': sorted({r['est'] for r, _ in pairs})}
  return pairs
