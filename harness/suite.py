"""Behaviours recorded from the repository's own test suite -> traces for TR_MetricLearn.

core.record_suite_calls runs the tests with harness/verif_trace_plugin.py; here the recorded calls are grouped by
test, sub-sampled, and the raw doubles are turned into exact dyadics.  A recipe {'suite': True, 'test': nodeid}
regenerates its trace by re-running that one test on the current tree (used by replays).
"""
import os
import tempfile
import shutil

import numpy as np

import core
from num import dy, dyv, dym

PER_TEST = 6


def convert(e):
  ev = {'ev': e['ev'], 'method': e['method'], 'cls': e['cls'], 'L': dym(np.asarray(e['L'], dtype=float).reshape(len(e['L']), -1))}
  if e['ev'] == 'CallMatrix':
    ev['M'] = dym(np.asarray(e['M'], dtype=float))
  elif e['ev'] == 'CallTuples':
    ev['tuples'] = [[dyv(p) for p in t] for t in e['tuples']]
    ev['out'] = [int(v) for v in e['out']] if e['method'] == 'predict' else dyv(np.asarray(e['out'], dtype=float))
  elif e['ev'] == 'CallTransform':
    ev['X'] = dym(np.asarray(e['X'], dtype=float))
    ev['out'] = dym(np.asarray(e['out'], dtype=float))
  else:
    ev['pairs'] = [[dyv(p[0]), dyv(p[1])] for p in e['pairs']]
    if e['ev'] == 'CallPredictPairs':
      ev['out'] = [int(v) for v in e['out']]
      ev['thr'] = dy(float(e['thr']))
    else:
      ev['out'] = dyv(np.asarray(e['out'], dtype=float))
  return ev


def usable(e, kinds):
  if e['ev'] not in kinds:
    return False
  L = np.asarray(e['L'], dtype=float)
  if L.ndim != 2 or L.shape[0] == 0:
    return False
  if e['ev'] == 'CallMatrix':
    M = np.asarray(e['M'], dtype=float)
    return M.ndim == 2 and np.isfinite(M).all()
  if e['ev'] == 'CallTuples':
    T = np.asarray(e['tuples'], dtype=float)
    return T.ndim == 3 and T.shape[2] == L.shape[1] and np.asarray(e['out']).ndim == 1
  if e['ev'] == 'CallTransform':
    return np.asarray(e['X']).ndim == 2 and np.asarray(e['out']).ndim == 2
  P = np.asarray(e['pairs'], dtype=float)
  return P.ndim == 3 and P.shape[2] == L.shape[1] and np.asarray(e['out']).ndim == 1


def traces_from(events, kinds, cap_tests, rng):
  """group by test; at most PER_TEST events per test, spread over the kinds of call it made"""
  by = {}
  for e in events:
    if usable(e, kinds):
      by.setdefault(e.get('test', ''), []).append(e)
  tests = sorted(by)
  if cap_tests and len(tests) > cap_tests:
    # stratify over (estimator, kinds of call): keep every combination represented
    strata = {}
    for t in tests:
      k = (by[t][0]['cls'], tuple(sorted({(x['ev'], x['method']) for x in by[t]})))
      strata.setdefault(k, []).append(t)
    keep = []
    keys = sorted(strata)
    while len(keep) < cap_tests and keys:
      for k in list(keys):
        if strata[k]:
          keep.append(strata[k].pop(int(rng.integers(len(strata[k])))))
        else:
          keys.remove(k)
        if len(keep) >= cap_tests:
          break
    tests = sorted(keep)
  out = []
  for t in tests:
    evs = by[t]
    seen = {}
    for x in evs:
      seen.setdefault((x['ev'], x['method']), []).append(x)
    pick = []
    while len(pick) < PER_TEST and any(seen.values()):
      for k in sorted(seen):
        if seen[k] and len(pick) < PER_TEST:
          pick.append(seen[k].pop(0))
    out.append(({'suite': True, 'test': t, 'est': pick[0]['cls']},
                {'est': pick[0]['cls'], 'test': t, 'events': [convert(x) for x in pick]}))
  return out


def regen(recipe, kinds):
  """replay: re-run the one test on the current tree and return its recorded calls as a trace"""
  work = tempfile.mkdtemp(prefix='suite_replay_', dir=os.path.join(core.OUT, '.work') if os.path.isdir(os.path.join(core.OUT, '.work')) else None)
  try:
    events, _ = core.record_suite_calls(work, files=[recipe['test']])
    got = traces_from(events, kinds, 0, np.random.default_rng(0))
    if not got:
      return {'est': recipe.get('est', ''), 'test': recipe['test'], 'events': []}
    return got[0][1]
  finally:
    shutil.rmtree(work, ignore_errors=True)
