"""Parser for TLA+ values as printed by TLC (states in simulation/trace files, PrintT output)."""
import re

_TOK = re.compile(r'\s*(<<|>>|\|->|:>|@@|\[|\]|\{|\}|\(|\)|,|"(?:[^"\\]|\\.)*"|-?\d+|[A-Za-z_][A-Za-z_0-9]*)')


def tokenize(s):
  pos, out = 0, []
  while pos < len(s):
    m = _TOK.match(s, pos)
    if not m:
      if s[pos:].strip() == '':
        break
      raise ValueError('cannot tokenize at %r' % s[pos:pos + 30])
    out.append(m.group(1))
    pos = m.end()
  return out


class _P:
  def __init__(self, toks):
    self.t, self.i = toks, 0

  def peek(self):
    return self.t[self.i] if self.i < len(self.t) else None

  def eat(self, x=None):
    v = self.t[self.i]
    if x is not None and v != x:
      raise ValueError('expected %s got %s' % (x, v))
    self.i += 1
    return v

  def value(self):
    t = self.peek()
    if t == '<<':
      self.eat()
      out = []
      while self.peek() != '>>':
        out.append(self.value())
        if self.peek() == ',':
          self.eat()
      self.eat('>>')
      return out
    if t == '{':
      self.eat()
      out = []
      while self.peek() != '}':
        out.append(self.value())
        if self.peek() == ',':
          self.eat()
      self.eat('}')
      return ('set', out)
    if t == '[':
      self.eat()
      rec = {}
      while self.peek() != ']':
        k = self.eat()
        self.eat('|->')
        rec[k] = self.value()
        if self.peek() == ',':
          self.eat()
      self.eat(']')
      return rec
    if t == '(':
      self.eat()
      fn = {}
      while True:
        k = self.value()
        self.eat(':>')
        fn[k if not isinstance(k, list) else tuple(k)] = self.value()
        if self.peek() == '@@':
          self.eat()
          continue
        break
      self.eat(')')
      return fn
    self.eat()
    if t.startswith('"'):
      return t[1:-1]
    if re.fullmatch(r'-?\d+', t):
      return int(t)
    if t == 'TRUE':
      return True
    if t == 'FALSE':
      return False
    return ('id', t)


def parse(s):
  p = _P(tokenize(s))
  v = p.value()
  return v


def parse_state(text):
  """'/\\ a = 1\n/\\ b = <<2>>' -> {a: 1, b: [2]}"""
  out = {}
  parts = re.split(r'(?:^|\n)\s*/\\ ', '\n' + text.strip())
  for part in parts:
    part = part.strip()
    if not part:
      continue
    m = re.match(r'([A-Za-z_][A-Za-z_0-9]*)\s*=\s*(.*)', part, re.S)
    if m:
      out[m.group(1)] = parse(m.group(2))
  return out


def parse_sim_file(path):
  """a file written by `tlc -simulate file=...`: list of (action_name, state dict)"""
  txt = open(path).read()
  res = []
  for m in re.finditer(r'\\\* <([A-Za-z_0-9]+)(\([^)]*\))?[^\n]*\nSTATE_\d+ ==\s*\n(.*?)(?=\n\n|\Z)', txt, re.S):
    res.append((m.group(1).strip() + (m.group(2) or ''), parse_state(m.group(3))))
    continue
    res.append((m.group(1).strip(), parse_state(m.group(2))))
  return res


if __name__ == '__main__':
  print(parse('<<1, -2, <<3>>, [a |-> "x", b |-> {1,2}], (1 :> 2 @@ 3 :> <<4>>)>>'))
  print(parse_state('/\\ x = <<1,2>>\n/\\ y = "a"'))
