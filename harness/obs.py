"""Recording observations of the real code as trace events (no judging here)."""
import warnings
import numpy as np

from num import dy, dyv, dym


def model_event(est):
  return {'ev': 'Model', 'L': dym(np.asarray(est.components_))}


PAIR_ORDER = [(0, 1), (1, 0), (1, 2), (2, 1), (0, 2), (2, 0), (0, 0), (1, 1), (2, 2)]


def triple_event(est, x, y, z, metric=None, dtype=None):
  """dtype: the type the points are HANDED OVER in (e.g. float32; they must be exactly representable in it)"""
  pts = [np.asarray(x, float), np.asarray(y, float), np.asarray(z, float)]
  pairs = np.array([[pts[i], pts[j]] for i, j in PAIR_ORDER])
  given = pairs if dtype is None else pairs.astype(dtype)
  if dtype is not None:
    assert np.array_equal(given.astype(float), pairs)
  pd = est.pair_distance(given)
  ps = est.pair_score(given)
  metric = metric or est.get_metric()
  gpts = pts if dtype is None else [p.astype(dtype) for p in pts]
  gm = [metric(gpts[i], gpts[j]) for i, j in PAIR_ORDER]
  return {'ev': 'Triple', 'x': dyv(pts[0]), 'y': dyv(pts[1]), 'z': dyv(pts[2]),
          'pd': dyv(pd), 'ps': dyv(ps), 'gm': dyv(gm)}


def index_triple_event(est, store, i, j, k, metric=None):
  """the three points are rows i, j, k of the estimator's preprocessor array `store` (any numeric dtype); the pairs
  are handed over as INDEX pairs, get_metric gets the rows themselves"""
  ids = [i, j, k]
  pts = [np.asarray(store[t], float) for t in ids]
  given = np.array([[ids[a], ids[b]] for a, b in PAIR_ORDER])
  pd = est.pair_distance(given)
  ps = est.pair_score(given)
  metric = metric or est.get_metric()
  gm = [metric(store[ids[a]], store[ids[b]]) for a, b in PAIR_ORDER]
  return {'ev': 'Triple', 'x': dyv(pts[0]), 'y': dyv(pts[1]), 'z': dyv(pts[2]),
          'pd': dyv(pd), 'ps': dyv(ps), 'gm': dyv(gm)}


def views_event(est, X, pairs_idx, reprs=()):
  """X: (n,d) query points, pairs_idx: list of (i,j) 0-based."""
  X = np.asarray(X, float)
  P = np.asarray(pairs_idx)
  pairs = X[P]
  with warnings.catch_warnings(record=True) as w:
    warnings.simplefilter('always')
    sp = est.score_pairs(pairs)
  warned = any(issubclass(x.category, FutureWarning) for x in w)
  metric = est.get_metric()
  ev = {'ev': 'Views', 'X': dym(X), 'pairs': [[int(i) + 1, int(j) + 1] for i, j in P],
        'transform': dym(est.transform(X)), 'M': dym(est.get_mahalanobis_matrix()),
        'pd': dyv(est.pair_distance(pairs)), 'ps': dyv(est.pair_score(pairs)),
        'sp': dyv(sp), 'sp_warned': bool(warned),
        'gm': dyv([metric(X[i], X[j]) for i, j in P]),
        'gq': dyv([metric(X[i], X[j], squared=True) for i, j in P]),
        'reprs': []}
  for name, fn in reprs:
    Xr, pr = fn(X, pairs)
    ev['reprs'].append({'name': name, 'pd': dyv(est.pair_distance(pr)), 'transform': dym(est.transform(Xr))})
  return ev
