#!/usr/bin/env python3
"""print the prompt given to a fresh sub-agent for seeding a property-breaking change (only the property text)."""
import json, sys
pid = sys.argv[1]
wt = '/tmp/wt_' + pid
p = [json.loads(l) for l in open('/verif/properties.jsonl') if json.loads(l)['id'] == pid][0]
print(f"""You are working in a scratch git worktree of the open-source Python library scikit-learn-contrib/metric-learn at {wt} (a checkout of the repository; the library source is in {wt}/metric_learn, its tests in {wt}/test). Work ONLY inside {wt}. Never read, write or run anything in /repo or /verif.

Environment: no network. Python is /venv/bin/python (numpy, scipy, scikit-learn 1.9, pytest, pytest-xdist installed). To import the worktree's code use PYTHONPATH={wt}. Run the test suite with:
  cd {wt} && OMP_NUM_THREADS=1 OPENBLAS_NUM_THREADS=1 PYTHONPATH={wt} /venv/bin/python -m pytest -q -p no:cacheprovider -n 4 test/ 2>&1 | tail -5
On the unmodified tree about 2020 tests pass and about 60 fail for unrelated environment reasons (record the exact set of failing test ids before you change anything, e.g. with `-rf`, so you can compare).

Here is a semantic property of the library that should hold:

  Title: {p['title']}
  Statement: {p['statement']}
  Quantified over: {p['quantifier']['text']}

Your task: produce TWO different, realistic changes to the library source (files under metric_learn/ only - not the tests) each of which BREAKS this property while
  (a) the package still imports and works in ordinary use,
  (b) every test that passed before the change still passes after it (same set of failures as the unmodified tree), and
  (c) the breakage needs something specific to manifest - a particular unusual input or option value, a tie, a multi-step sequence of calls, a particular estimator/option combination, or two cooperating code sites that each look fine alone - NOT something the first ordinary call would expose.
Make them the kind of bug a developer could plausibly introduce (a refactoring slip, a misplaced optimisation, an off-by-one, a wrong variable, a dropped copy, a swapped argument, a changed comparison), not sabotage that announces itself. The two changes should be of different nature / in different places.

For each change i in (1, 2) create a directory {wt}/seed{{i}}/ containing:
  - patch.diff : `git diff` of the source change against the unmodified worktree (must apply with `git apply` to a clean checkout),
  - demo.py    : a small standalone program, run as `PYTHONPATH=<tree> /venv/bin/python demo.py`, that exits 0 and prints OK on the unmodified tree and exits 1 (printing what it observed) on the changed tree. It must test the PROPERTY as stated (observable behaviour through the public API), not the implementation detail you changed,
  - meta.json  : {{"property": "{pid}", "summary": "...", "what_it_breaks": "...", "needs_to_manifest": "...", "files_changed": [...]}}.

Verify all of this yourself before finishing: demo.py passes on the clean tree and fails with the patch; the full test suite has the same failing set with the patch as without. Leave the worktree's source files UNMODIFIED at the end (git checkout -- metric_learn) - only the seed1/ and seed2/ directories remain. Note that some source files use CRLF line endings; keep them (make the patch with git diff so it applies cleanly).

Finish with a short report: for each seed, one paragraph on what the change is, why tests miss it, what is needed to trigger it, and the commands you ran to verify.""")
