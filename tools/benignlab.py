#!/usr/bin/env python3
"""Behaviour-PRESERVING changes (refactorings written by independent sub-agents): the quick checks must stay silent.
usage: benignlab.py run <src_dir> <name> <PID> [<PID> ...]
Copies <src_dir>/{patch.diff,demo.py,meta.json} to /verif/benign/<name>/, applies the patch in a scratch worktree of
/repo HEAD (under /tmp, removed afterwards), confirms that the agent's demo still passes there, runs the named quick
checks with VERIF_REPO / VERIF_OUT pointing at scratch locations and records every exit code in meta.json."""
import json, os, shutil, subprocess, sys, time
VERIF = os.path.dirname(os.path.dirname(os.path.abspath(__file__)))


def sh(cmd, cwd=None, env=None, timeout=3600):
  r = subprocess.run(cmd, shell=True, cwd=cwd, env=env, capture_output=True, text=True, timeout=timeout)
  return r.returncode, r.stdout + r.stderr


def run(src, name, pids):
  dst = os.path.join(VERIF, 'benign', name)
  os.makedirs(dst, exist_ok=True)
  for f in ('patch.diff', 'demo.py', 'meta.json'):
    shutil.copyfile(os.path.join(src, f), os.path.join(dst, f))
  wt, out = '/tmp/bn_%s' % name, '/tmp/bnout_%s' % name
  sh('git -C /repo worktree remove --force %s' % wt)
  sh('git -C /repo worktree add -f %s HEAD' % wt)
  rc, o = sh('git apply --whitespace=nowarn %s/patch.diff' % dst, cwd=wt)
  meta = json.load(open(os.path.join(dst, 'meta.json')))
  res = {}
  try:
    if rc != 0:
      meta['applies'] = False
      print(name, 'patch does not apply', o[-200:])
    else:
      meta['applies'] = True
      env = dict(os.environ, PYTHONPATH=wt, OMP_NUM_THREADS='1', OPENBLAS_NUM_THREADS='1')
      rc, o = sh('/venv/bin/python %s/demo.py' % dst, cwd=wt, env=env, timeout=1800)
      meta['demo_rc_with_patch'] = rc
      for pid in pids:
        t0 = time.time()
        env = dict(os.environ, VERIF_REPO=wt, VERIF_OUT=out)
        rc, o = sh('./bin/check %s quick' % pid, cwd=VERIF, env=env)
        viol = sorted({l.strip().split(' ')[0] for l in o.splitlines() if l.strip().startswith('clause=')})
        res[pid] = dict(rc=rc, clauses=viol[:8], wall_s=round(time.time() - t0), tail=o[-300:] if rc not in (0,) else '')
        print(name, pid, 'rc=%d' % rc, viol[:4])
  finally:
    sh('git -C /repo worktree remove --force %s' % wt)
    shutil.rmtree(out, ignore_errors=True)
  meta['quick_checks'] = res
  json.dump(meta, open(os.path.join(dst, 'meta.json'), 'w'), indent=1)


if __name__ == '__main__':
  run(sys.argv[2], sys.argv[3], sys.argv[4:])
