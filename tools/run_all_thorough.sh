#!/bin/sh
# runs every thorough check (from the directory this script's parent is in); prints a summary line per check
cd "$(dirname "$0")/.."
for id in C03 C04 C05 C06 C07 C08 C09 C11 C12 C13 C14 C15 C16 C17 C18 C19 C20 C01 C02 C10; do
  t0=$(date +%s); ./bin/check $id thorough > thorough_$id.log 2>&1; rc=$?; t1=$(date +%s)
  echo "$id rc=$rc $((t1-t0))s $(tail -1 thorough_$id.log | cut -c1-160)"
done
