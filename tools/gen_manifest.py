#!/usr/bin/env python3
"""Generate /verif/MANIFEST.json from the table below (one source of truth)."""
import json, os
HERE = os.path.dirname(os.path.dirname(os.path.abspath(__file__)))

CHECKS = {
  'C01': dict(
    text=("TLC exhausts MC_Metric (all integer transformations on a small grid x all point triples: the DEFINITION "
          "of the learned distance is a pseudo-metric and its views coincide); TLC-simulated behaviours of that model "
          "are injected into real estimators through documented options, and all 17 estimators are fitted and queried "
          "on directed triples (duplicates, collinear, 2^+-332 scaling, rank-deficient models); every recorded "
          "behaviour is validated by TLC against TR_MetricLearn (exact symmetry / zero / negation on the bits of the "
          "doubles, triangle and agreement with ||L(x-y)|| in exact dyadic arithmetic)."),
    note=("Exhaustive only for the stated small constants; beyond them sampling of generated inputs. Trusted: TLC, "
          "the float->dyadic exporter, the Java BigInteger accelerator of Dy.tla (cross-checked against the pure TLA+ "
          "definitions by MC_DyX)."),
    technique="TLA+ spec (Mahalanobis/ObsMetric) + TLC exhaustive model + TLC trace validation of recorded behaviours",
    ref="DESIGN.md section 5 C01"),
}

CHECKS['C02'] = dict(
    text=("TLC exhausts the view invariants of MC_Metric (quadratic form of L^T L, Euclidean distance of embeddings, "
          "symmetry and PSD of M) on the integer grid; for all 17 estimators one recorded 'Views' behaviour per fitted "
          "model holds the outputs of transform, get_mahalanobis_matrix, pair_distance, pair_score, score_pairs, "
          "get_metric (plain, squared) and of the same query as list / Fortran / non-contiguous / integer / "
          "single-pair / index+preprocessor input; TLC recomputes every view from the logged components_ in exact "
          "dyadic arithmetic (ObsMetric!ViewsFails)."
          " Additionally the repository's OWN test suite is run under a pytest tracing plugin (harness/verif_trace_plugin.py, nothing in /repo modified) and every outermost pair_distance / pair_score / score_pairs / decision_function / transform / get_mahalanobis_matrix call recorded from it is validated by TLC against the same definitions (TR_MetricLearn, clauses C02.suite_call_*)."),
    note=("Tolerance 2^-30 relative + 2^-45 of the operand scale (code rounds at 2^-53); exhaustive only on the small "
          "grid, sampling beyond; trusted base as C01."),
    technique="TLA+ spec (Mahalanobis/ObsMetric) + TLC exhaustive model + TLC trace validation of recorded behaviours",
    ref="DESIGN.md section 5 C02")

CHECKS['C03'] = dict(
    text=("TLC enumerates the documented option product of the 17 estimators as states (MC_Options over Options.tla: "
          "init/prior/basis x embedding_type x k x n_components x n_features x n_classes, with the documented lda "
          "restriction and the auto-selection rule as invariants); every enumerated configuration is fitted on the real "
          "code on generated well-formed data, then the same object is refitted on data of another dimensionality; TLC "
          "evaluates the fit postcondition ObsFit!FitFails on each recorded Fit event (returns self, real finite 2-D "
          "float components_, expected shape incl. the SCML low-rank rule, n_features_in_ of the last fit, transform "
          "shape, M symmetric PSD in exact arithmetic)."
          " Additionally the repository's OWN test suite is run under a pytest tracing plugin (harness/verif_trace_plugin.py, nothing in /repo modified) and every fit (object history events with the projected state before/after) recorded from it is validated by TLC against the per-object machine ObjLife.tla (TR_ObjLife: fitted, n_features_in_ = features of the data handed to fit, returns self)."),
    note=("The configuration space is exhausted for n_features 2..4 (quick) / 2..8 (thorough); the training sets are "
          "sampled (1 resp. 3 per configuration). SDML's balance_param is chosen by a norm bound so that the "
          "graphical-lasso input is positive definite, as the property's quantifier requires."),
    technique="TLA+ option-space model enumerated by TLC -> real fits (spec->code) -> TLC trace validation of the fit postcondition",
    ref="DESIGN.md section 5 C03")

CHECKS['C04'] = dict(
    text=("TLC exhausts MC_Classify: the threshold life-cycle (fit / calibrate / set_threshold / predict to depth MaxOps) "
          "with the action property that only those three actions change the threshold, and the pair / triplet / "
          "quadruplet decision rules with every tie pattern on an integer domain; TLC-simulated op sequences are "
          "executed on real ITML/MMC/SDML objects (spec->code) next to random histories, and SCML / LSML are queried on "
          "tuples with manufactured exact ties, formed and through index+preprocessor; every recorded event is "
          "validated by TLC with ObsClassify on the exact bits of the doubles (predict vs distance <= threshold_, "
          "decision = -distance, AUC by exact pair counting, swap negation)."
          " Additionally the repository's OWN test suite is run under a pytest tracing plugin (harness/verif_trace_plugin.py, nothing in /repo modified) and every predict / decision_function call on pairs, triplets and quadruplets and every set_threshold recorded from it is validated by TLC against the decision rules (TR_MetricLearn C04.suite_call_*) and ObjLife!SetThreshold (TR_ObjLife)."),
    note=("Exhaustive for distances 0..3, thresholds -1..3, 4 operations; sampling beyond. The distances compared are the "
          "ones pair_distance reports (their agreement with components_ is C01/C02)."),
    technique="TLA+ threshold life-cycle model + TLC exhaustive/simulated behaviours replayed into code + TLC trace validation",
    ref="DESIGN.md section 5 C04")

CHECKS['C16'] = dict(
    text=("TLC exhausts MC_Calibrate: every labelled multiset of up to 5 (thorough 6) validation distances over {0,1,2} "
          "with both labels (heavy ties, conflicting duplicates, zeros) x strategy x beta^2 x min_rate, with the "
          "invariants that an optimal achievable cut-off exists and that the finite candidate set is complete; every "
          "state is realised on fitted ITML/MMC/SDML models with pairs whose learned distances tie bit-exactly, "
          "calibrate_threshold is run, and TLC decides Calibrate!OptimalCounts for the stored threshold_ by exact "
          "fraction comparison; random validation sets on arbitrary learned metrics, fit(calibration_params=...) and the "
          "invalid-parameter table (ValueError before any fitting work) are validated the same way."
          " Additionally the repository's OWN test suite is run under a pytest tracing plugin (harness/verif_trace_plugin.py, nothing in /repo modified) and every calibrate_threshold call (direct or inside fit(calibration_params=...)) with the validation distances read back recorded from it is validated by TLC against Calibrate.tla (optimality of the stored threshold)."),
    note=("beta and min_rate are dyadic so the float comparisons of the code cannot disagree with the exact ones; "
          "thresholds of +-infinity are legal stored values (the statement constrains what predicting with them attains)."),
    technique="TLA+ definition of optimal cut-off, TLC-enumerated tie-rich cases replayed into code, TLC trace validation",
    ref="DESIGN.md section 5 C16")
CHECKS['C07'] = dict(
    text=("TLC exhausts MC_Constraints over all label vectors of length <= 6 (thorough 7) on {-1,0,1,2}: the chunk "
          "feasibility pre-check is equivalent to the existence of a valid chunking (brute force), existence conditions "
          "for pairs, the k-NN triplet count; every enumerated label vector (and random vectors up to length 40) is fed "
          "to the real Constraints helper with parameter settings and integer seeds, points on an integer grid with "
          "duplicates; TLC validates every call with TR_Constraints: pair soundness / no repeats / counts / same_length "
          "/ warning, chunk validity or ValueError, k-nearest sets with existential ties, every combination exactly "
          "once, caller-frame indices, seed reproducibility, wrap_pairs."
          " Additionally the repository's OWN test suite is run under a pytest tracing plugin (harness/verif_trace_plugin.py, nothing in /repo modified) and every Constraints.positive_negative_pairs / chunks call (made by tests or by *_Supervised fits) recorded from it is validated by TLC against Constraints.tla (TR_Constraints, clauses C07.suite_*)."),
    note=("'No pair is repeated' is read on ordered index pairs (what the statement's mechanism guarantees); cases "
          "outside the stated quantifier are recognised by the spec (InQuantifier*) and only counted."),
    technique="TLA+ set-level specification of constraint soundness, TLC-enumerated label vectors replayed into code, TLC trace validation",
    ref="DESIGN.md section 5 C07")

CHECKS['C17'] = dict(
    text=("The life-cycle machine spec/MetricLearn.tla is the property: TLC exhausts it for small constants (invariants "
          "NfeatOfLastFit, ThresholdNeedsFit, FitThresholdIsCurrent; action properties OnlyFitChangesModel, "
          "OnlyThreeActionsChangeThreshold, OnlySetParamsChangesParams, HandlesImmutable, FitIsHistoryIndependent) and "
          "simulates long behaviours over New/SetParams/Clone/Pickle/Fit/SetThreshold/Calibrate/Query/GetMetric/"
          "GetMatrix/Mutate/CallHandle; each behaviour is executed on real objects of all 17 classes and the recorded "
          "history is validated by TR_Lifecycle, which consumes every event with the same TLA+ action and compares "
          "the logged digests of get_params(), components_, threshold_, n_features_in_ of EVERY live object, of every "
          "caller-owned array (data, labels, init/prior/basis/weights/bounds/preprocessor arrays) and of each output "
          "with the value of the abstract term, defined by reference executions on fresh objects."
          " Additionally the repository's OWN test suite is run under a pytest tracing plugin (harness/verif_trace_plugin.py, nothing in /repo modified) and the history of every estimator object (each outermost public call with the projected state before / after) recorded from it is validated by TLC against the per-object machine ObjLife.tla (TR_ObjLife: queries change nothing, fit / calibration leave the hyper-parameters untouched; MC_ObjLife model-checks the machine)."),
    note=("Equality is on bytes (same process, single-threaded BLAS). Exhaustive for 2 objects/2 parameter settings/2 "
          "data sets to depth 5 (6); simulation depth 14 (22) beyond. Reference values come from a separately "
          "constructed identical world."),
    technique="TLA+ life-cycle state machine, TLC exhaustive + simulated behaviours replayed into code, TLC trace validation with the same actions",
    ref="DESIGN.md section 5 C17")
CHECKS['C18'] = dict(
    text=("MC_Params (parameter store round-trip) and MC_Lifecycle are exhausted by TLC; for every estimator and every "
          "constructor parameter (names read with inspect.signature at run time) x value kinds {scalar, array, "
          "callable, None, list} construct / get_params / set_params sequences are recorded with object identity as "
          "tokens and validated by TR_Params (stored untouched, identical objects returned); deprecated aliases "
          "(FutureWarning, model equal to the replacement's), every public method on a fresh object (NotFittedError); "
          "TLC-simulated histories with clone / pickle / set_params are validated by TR_Lifecycle (params digest of "
          "every object after every call; clone-then-fit and pickled outputs bit for bit against fresh references)."
          " Additionally the repository's OWN test suite is run under a pytest tracing plugin (harness/verif_trace_plugin.py, nothing in /repo modified) and every use of a not-yet-fitted estimator recorded from it is validated by TLC against ObjLife!UnfittedRaises (TR_ObjLife)."),
    note=("A constructor that rejects a value (LFDA validates embedding_type) stores nothing and is not judged; the "
          "deprecated-alias table is the only hand-written part."),
    technique="TLA+ parameter-store and life-cycle models, TLC trace validation of recorded parameter round-trips and histories",
    ref="DESIGN.md section 5 C18")

CHECKS['C05'] = dict(
    text=("TLC exhausts MC_Preproc (all index arrays of <= 2 rows over 3 points, tuple sizes 1..4: column-wise formation "
          "equals the point-wise definition and preserves order); the enumerated index arrays plus random larger ones "
          "(repeats, arbitrary order, every integer dtype) are issued to all 17 estimators for every data-taking method "
          "(fit, transform, pair_distance, pair_score, predict, decision_function, score, calibrate_threshold) in four "
          "representations {formed, ndarray / nested-list / callable preprocessor}; TLC (TR_Preproc) requires identical "
          "digests of outputs and of the fitted state, no preprocessor call for formed data, and PreprocessorError for "
          "a raising callable."),
    note=("Equality on bytes. How often the callable is consulted is not fixed by the statement; it is compared with the "
          "specification's column-wise calls and reported (clause prefix X05) but never counted as a violation."),
    technique="TLA+ definition of point/tuple formation, TLC-enumerated index patterns replayed into code in four representations, TLC trace validation",
    ref="DESIGN.md section 5 C05")

CHECKS['C06'] = dict(
    text=("TLC enumerates the input grammar of spec/Validate.tla per (estimator kind, method): structural descriptors "
          "(ndim 0..4, empty axes, tuple-axis length 1..5, feature count vs fitted, dtype class, NaN/inf position, pair-"
          "label alphabet, label length, n_components, with/without preprocessor) with up to 2 simultaneous deviations "
          "from the documented form, with invariants that the decision table is total and every single deviation is "
          "rejected; each state is materialised into a concrete argument and the method is called on every class of the "
          "kind (fit on fresh, the others on fitted estimators); TLC (TR_Validate) requires the outcome Validate!Outcome "
          "prescribes (ok / ValueError, no other exception type) and, for well-formed arguments, the same numbers for "
          "list / integer / Fortran / non-contiguous / index+preprocessor forms."),
    note=("The decision table is written from the documentation. 'Same results' across array-likes is up to rounding "
          "(2^-15 of the largest entry: a memory layout may change BLAS summation order by an ulp and an iterative "
          "learner amplifies it). Non-numeric entries are genuine non-numeric strings / None."),
    technique="TLA+ input grammar enumerated by TLC, states materialised and executed on the code, TLC trace validation of outcomes",
    ref="DESIGN.md section 5 C06")
CHECKS['C08'] = dict(
    text=("MC_Supervised (TLC): the one-step FitSupervised and the two-step Generate;FitBase reach the same model term for "
          "all six classes, with and without unlabeled points. Conformance: per case the supervised estimator is fitted "
          "with the Constraints helper wrapped (the constraints it drew are recorded), the helper is called directly "
          "with the same arguments and seed and the base learner fitted on the resulting tuples, and the supervised "
          "estimator is refitted on data that differs only in the unlabeled rows; TLC (TR_Supervised) decides: same "
          "constraints, constraints sound w.r.t. the labels (predicates of Constraints.tla), no unlabeled index, "
          "M(sup) ~ M(base), M(changed unlabeled rows) ~ M(sup), in exact dyadic arithmetic."),
    note=("Equality of a fit on the full set and on the labelled subset is deliberately not required (the chunk generator "
          "draws from Python sets whose order depends on index values). SCML_Supervised with basis='lda' has no base "
          "counterpart: only the constraint clauses and the unlabeled-rows clause apply."),
    technique="TLA+ refinement model + TLC trace validation of recorded supervised / helper+base / perturbed-unlabeled executions",
    ref="DESIGN.md section 5 C08")

CHECKS['C20'] = dict(
    text=("TLC exhausts MC_PSD (all M = Vs diag(w) Vs^T of size 2-3 with exact scaled-orthogonal integer Vs and integer "
          "spectra of every sign pattern and rank: symmetric, PSD on the grid iff w >= 0, exact negative witness "
          "otherwise); every state and random matrices up to 8x8 with an exact spectral certificate (products of "
          "Pythagorean Givens rotations; singular, indefinite, near-PSD inside / outside an explicit tolerance, "
          "diagonal, non-symmetric, spectra spanning 2^+-40) go through components_from_metric; TLC (TR_PSD) verifies "
          "the certificate exactly, derives the documented outcome from spectrum and tolerance (PSD!SpectrumVerdict) and "
          "checks L^T L = M / NonPSDError / ValueError. The prior and init constructors are observed directly: identity "
          "bits, covariance = inverse covariance of the DISTINCT points (TLC de-duplicates and recomputes the scatter "
          "exactly), random = seed-reproducible with a Cholesky certificate, array used as given with symmetry / shape / "
          "PSD checks, strict-PD rejection of singular priors (also through ITML/LSML/SDML), (M, M^-1) pairs, the auto "
          "rule Options!AutoSelect and the shape checks of the transformation init."),
    note=("The band within a factor 4 of the tolerance is not generated (rounding decides there); likewise generic "
          "rank-deficient priors, whose computed smallest eigenvalue is of the order of the tolerance - singular priors "
          "are singular by structure (zero row/column, zero matrix). PCA / LDA internals of scikit-learn are out of scope "
          "(shape and orthonormality only)."),
    technique="TLA+ spectral-certificate model enumerated by TLC and replayed into code, TLC trace validation in exact dyadic arithmetic",
    ref="DESIGN.md section 5 C20")

CHECKS['C19'] = dict(
    text=("TLC exhausts MC_Geometry on an integer grid: the scatter matrix (hence the Covariance / RCA metric) is invariant "
          "under translation and sample permutation, conjugated by orthogonal maps and scaled by c^2 under scaling; the "
          "pair statistic used by the tuple objectives is invariant under translation and within-pair swap. "
          "Conformance: for every (relation, estimator) combination the statement lists, two real fits (original and "
          "exactly transformed dyadic-grid data) and the learned distances on corresponding query pairs are recorded; "
          "TLC (TR_Geometry) checks equality / 1/c scaling of the distances and M' = Q M Q^T with Q verified orthogonal."),
    note=("Tolerance 2^-15 relative (the two fits run the same arithmetic on inputs differing in the last bits; iterative "
          "learners are run with few iterations). Orthogonal maps are sampled from signed permutations and Hadamard "
          "blocks (exactly representable). SDML cases whose solver raises RuntimeError (allowed by C13) are redrawn."),
    technique="TLA+ transformation/relation definitions model-checked on a grid + TLC trace validation of paired real fits",
    ref="DESIGN.md section 5 C19")

CHECKS['C09'] = dict(
    text=("The documented statistics are written in ClosedForm.tla as exact, division-free scaled quantities (n(n-1) x sample "
          "covariance, P N x within-chunk covariance, P x local within-class and nP x local between-class LFDA scatter with "
          "the k-th-nearest-same-class-neighbour local scale selected by exact comparison); their transformation laws are "
          "model-checked on a grid (MC_Geometry). For recorded fits of Covariance, RCA and LFDA on random layouts TLC "
          "(TR_ClosedForm) recomputes the statistics from the logged input, verifies the witnesses (generalised eigen-"
          "decompositions, roots, quotients; exp values tabulated from libm) and checks: Moore-Penrose conditions for "
          "Covariance (incl. exactly singular covariance), L C_w L^T = I and L C_w v_j = 0 on discarded directions for "
          "RCA, and for LFDA that every row of L is the r-th leading generalised eigenvector with the scaling of its "
          "embedding_type (plain: unit S_w-norm, weighted: times sqrt(lambda), orthonormalized: orthonormal flag basis). "
          "Data come at raw magnitudes 2^-20..2^24, with common offsets 4096 times the spread, with duplicated samples, singleton "
          "chunks and classes smaller than k + 1. Additionally every Covariance.fit / RCA.fit executed by the repository's OWN "
          "test suite (recorded by the pytest tracing plugin harness/verif_trace_plugin.py, nothing in /repo modified) is validated "
          "by the same trace specification."),
    note=("libm exp is trusted (only range / zero rule checked); cases without an eigen-gap or with a rejected witness are "
          "inconclusive (clause prefix X09) and counted, never violations; LFDA cases use d <= 3; classes smaller than k + 1 are "
          "generated since the D22 repair (per-class cap of k). The open finding D6 (LFDA local scale read from the wrong axis of "
          "the partially sorted distance matrix) is matched by clause AND signature and printed as KNOWN-FINDING."),
    technique="TLA+ exact statistics + witness-verified optimality certificates evaluated by TLC on recorded fits",
    ref="DESIGN.md section 5 C09")

CHECKS['C11'] = dict(
    text=("MC_ITML (TLC, exact rational arithmetic, dimension 1): the cyclic Bregman-projection machine keeps the duals "
          ">= 0, keeps (K2) M^-1 - M0^-1 = sum y_i lambda_i v_i v_i^T and the slack relation after every projection, and "
          "every fixed point satisfies complementary slackness - so the certificate characterises the algorithm. "
          "Conformance: real ITML / ITML_Supervised fits over priors x gamma x bounds x budgets; duals and slack bounds "
          "are read from the solver frame at return (no source change); TLC (TR_ITML) verifies the inverse / Cholesky "
          "witnesses and evaluates SPD, dual feasibility, (K2), the slack relation, complementary slackness for converged "
          "runs, and 'prior returned when it satisfies all bounds'. Beyond the property (clauses G11, reported in the "
          "evidence, never a violation): small real fits (d <= 3, <= 14 projections) are replayed EXACTLY against the "
          "d-dimensional projection machine of ITML.tla in rational arithmetic - matrix after n_iter_ + 1 sweeps, the "
          "documented stopping rule, duals >= 0 - with the unlogged duals and slack bounds carried by the machine."),
    note=("Instances outside the precision of a floating-point certificate are counted, not judged (clause prefix X11): "
          "a bound <= 2^-30 of a constraint vector's squared length (the documented 1e-9 replacement of a zero bound) or "
          "max|M| max|M^-1| > 2^27. (K2) tolerance 2^-15 of the scale below 200 sweeps, 2^-7 beyond (drift of the "
          "rank-one updates). gamma = inf is outside the stated quantifier."),
    technique="TLA+ projection machine model-checked in exact rationals + KKT certificate evaluated by TLC on recorded fits",
    ref="DESIGN.md section 5 C11")
CHECKS['C14'] = dict(
    text=("MC_MMC (TLC): the accept / reject cycle machine over abstract candidates - the kept iterate is feasible once "
          "anything was accepted, its objective never decreases, it is never replaced by an infeasible or non-improving "
          "candidate. Conformance: real MMC / MMC_Supervised fits with the kept and candidate matrix of every cycle "
          "observed by wrapping _fD; TLC (TR_MMC) recomputes the similarity budget from the init option's matrix "
          "exactly, decides feasibility and improvement of each candidate (witnessed square roots, 2^-30 ambiguity "
          "window), replays the cycles through MMC!CycleStep and requires A_ to be the kept iterate, L^T L = A_ (PSD), "
          "sum_S d^2 <= 1.01 t, iterations starting from the init matrix; diagonal variant: diagonal, non-negative, no "
          "NaN, or ValueError."),
    note=("The log of the objective is monotone, so improvement is decided on the sum of roots; candidates within 2^-30 "
          "of the feasibility / improvement boundary follow the code. If the _fD probe cannot attach, the scheme clause "
          "reports reduced coverage (X14), never a violation."),
    technique="TLA+ cycle machine model-checked + recorded cycles replayed through the same step operator by TLC",
    ref="DESIGN.md section 5 C14")

CHECKS['C12'] = dict(
    text=("MC_LSML (TLC): the ten-step line search over an abstract loss oracle - the best loss strictly decreases along "
          "accepted iterations, is never above the loss at the prior, and an early stop is either stationary or a point "
          "where no trial step improves. Conformance: real LSML / LSML_Supervised fits over priors x weights (None, list, "
          "array, rescaled) x tol x budgets; TLC (TR_LSML) verifies the witnesses (inverses, Cholesky factors, sqrt(d_ab "
          "d_cd), quotients, normalised weights; logs tabulated) and evaluates the documented objective and its analytic, "
          "WEIGHTED gradient exactly: SPD, f(M) <= f(prior), prior returned when no constraint is violated under it, "
          "||grad f(M)||_F <= tol whenever the solver stopped before max_iter, and equality of the metrics learned with "
          "weights w and c w. Beyond the property (clauses G12): the complete call history of real fits (every "
          "_total_loss / _gradient call, observed by wrapping) is followed by the line-search machine of LSML.tla: start at "
          "the documented prior, stop when the gradient norm < tol, ten trials on the documented step grid, strictly best "
          "trial accepted, stop when none improves, n_iter_, result = last accepted point."),
    note=("libm log is trusted (logdet through the Cholesky diagonal). 'Stopped before max_iter' is n_iter_ < max_iter. "
          "Open finding D29 (known_findings.json): with an SPD array prior of small scale (2^-18) the absolute trial-step grid "
          "overshoots and the solver stops early far from stationarity; matched by clause AND signature prior_scale = small and "
          "printed as KNOWN-FINDING; the same clause at unit scale is a violation."),
    technique="TLA+ line-search machine model-checked + objective/gradient certificate evaluated by TLC on recorded fits",
    ref="DESIGN.md section 5 C12")

CHECKS['C13'] = dict(
    text=("MC_SDML (TLC, exact rationals): on closed-form 2x2 instances the duality-gap certificate is exactly 0 and the "
          "sub-gradient condition holds. Conformance: real SDML / SDML_Supervised fits over priors x sparsity_param x "
          "balance_param inside and outside the region where the graphical-lasso input is positive definite; TLC "
          "(TR_SDML) recomputes the input matrix E = M0^-1 + balance sum y v v^T from the logged pairs (prior inverse "
          "verified), decides the region from a verified Cholesky factor of E, verifies the dual-feasible witness W (box "
          "|W_ij - E_ij| <= alpha, W_ii = E_ii, Cholesky) and requires g(M) - (logdet W + d) <= 2^-7 (1 + |g|); M must be "
          "finite SPD whenever fit returns, and the only admissible failure is RuntimeError (never inside the PD region)."),
    note=("The 'independently computed solution' of the statement is replaced by a duality-gap certificate (stronger than "
          "comparing two solvers, loose by the solver tolerance 2^-7). libm log trusted. Cases where clipping M^-1 into "
          "the box does not give a positive definite dual point are inconclusive (X13) and counted."),
    technique="TLA+ primal/dual definitions + duality-gap certificate evaluated by TLC on recorded fits",
    ref="DESIGN.md section 5 C13")
CHECKS['C10'] = dict(
    text=("MC_LMNN (TLC): the backtracking machine over an abstract objective oracle - accepted objectives non-increasing, "
          "never worse than the initial point, zero iterations return the initial point. Conformance: every (L, value, "
          "gradient) that the optimiser asks for in real NCA / MLKR / LMNN fits is recorded by wrapping the module-level "
          "minimize resp. LMNN._loss_grad; TLC (TR_GradObj) recomputes the documented objective and its analytic "
          "derivative at that L in exact dyadic arithmetic - NCA / MLKR through a verified soft-max witness (arguments "
          "recomputed exactly, exp tabulated, normalisation checked), LMNN exactly with the target sets verified as k "
          "nearest same-class points - and decides on its own numbers: result not worse than the initialisation, first "
          "evaluation at the documented initialisation, zero optimiser iterations return it bit for bit, LMNN returns "
          "its last accepted iterate and accepted objectives are non-increasing. LMNN is also fitted on two overlapping "
          "classes of 140-330 samples each (39k-218k active hinge terms; objective value of the first evaluated points). "
          "Beyond the property (clause G10): LMNN's backtracking machine is followed on the logged numbers - every trial "
          "point is accepted point - rate x gradient, the rate halved on a reject and multiplied by 1.01 on an accept."),
    note=("libm exp trusted (range / monotonicity / e(0)=1 checked). 'Zero iterations' is keyed on the optimiser's own "
          "iteration count (L-BFGS-B with maxiter=0 still iterates once). At most 5 (NCA/MLKR) / 10 (LMNN) evaluations "
          "per fit are recomputed; a rejected witness makes the evaluation inconclusive (X10)."),
    technique="TLA+ objective/gradient definitions evaluated by TLC at every recorded optimiser evaluation + backtracking machine",
    ref="DESIGN.md section 5 C10")

CHECKS['C15'] = dict(
    text=("MC_SCML (TLC): the best-checkpoint bookkeeping keeps the FIRST checkpoint attaining the minimum objective. "
          "Conformance: real SCML / SCML_Supervised fits with the basis and best weights handed to the components builder "
          "and the distance-difference matrix observed by wrapping the helpers, the mini-batches regenerated from the "
          "integer seed; TLC (TR_SCML) checks M = sum w_i b_i b_i^T, w >= 0, unit-norm generated bases of n_basis rows, the "
          "low-rank shape + warning rule (incl. zero active bases), and RE-EXECUTES the documented dual-averaging scheme "
          "of SCML.tla step by step in exact arithmetic (per-iteration sqrt / quotient witnesses verified, hinge decisions "
          "and checkpoint objectives computed by TLC) to decide that the reported weights are those of the first lowest "
          "checkpoint."),
    note=("delta = 0.001 is taken as 1/1000 (difference 2e-20 relative). A hinge margin within 2^-30 of zero makes the "
          "replay ambiguous (X15) and is counted, never a violation. max_iter <= 40 in the quick tier."),
    technique="TLA+ transcription of the dual-averaging scheme re-executed by TLC on recorded inputs (witness-verified) + checkpoint machine",
    ref="DESIGN.md section 5 C15")

NOT_YET = {}

def main():
  props = [json.loads(l) for l in open(os.path.join(HERE, 'properties.jsonl'))]
  checks, na = [], []
  for p in props:
    pid = p['id']
    if pid in CHECKS:
      c = CHECKS[pid]
      checks.append(dict(
        property_id=pid,
        quick_cmd='./bin/check %s quick' % pid,
        thorough_cmd='./bin/check %s thorough' % pid,
        evidence_file='/verif/evidence/%s.json' % pid,
        replay_cmd_template='./bin/check %s --replay {path}' % pid,
        engine='tlc',
        level_claimed=dict(category='model_checking', text=c['text'], design_ref=c['ref']),
        level_note=c['note'],
        technique=c['technique']))
    else:
      na.append(dict(property_id=pid, reason=NOT_YET.get(pid, 'check not built yet (work in progress; see DESIGN.md section 9 build order)')))
  man = dict(
    version=1,
    setup_cmd='./bin/setup',
    hooks=dict(guard='METRIC_LEARN_VERIF',
               enable='no source hooks: all observation is done from the harness process by wrapping attributes at run time; bin/check sets METRIC_LEARN_VERIF=1 (reserved)',
               baseline_off_cmd='cd /repo && /venv/bin/python -m pytest -ra -q -p no:cacheprovider --timeout=900 --continue-on-collection-errors',
               source_commits=[], add_only=True),
    engines=[dict(name='tlc', path='/opt/veriftools/tla/tla2tools.jar', serves_properties=sorted(CHECKS),
                  kind_free_text='TLC 1.8.0 explicit-state model checker: exhaustive MC_* models, -simulate behaviour generation, and batched trace validation (TR_* specs) of behaviours recorded from /repo'),
             dict(name='apalache', path='/opt/veriftools/apalache/bin/apalache-mc', serves_properties=['C17'],
                  kind_free_text='Apalache 0.58 symbolic model checker: inductive invariant and action invariants of the per-object life-cycle machine (spec/ObjLifeApa.tla) over unbounded integers; secondary to TLC, run by the C17 check')],
    checks=checks,
    notes='One TLA+ code base under /verif/spec; bin/check <ID> quick|thorough runs TLC on the model, drives /repo, and validates the recorded traces with TLC. Genuine defects repaired by fix: commits are listed in known_findings.json (status fixed); open findings (D6 for C09, D29 for C12) are matched by clause AND signature and printed as KNOWN-FINDING. Clause ids: Cnn.* decide the property, Xnn.* are inconclusive cases (counted), Gnn.* are growth clauses about behaviour beyond the listed properties (reported in the evidence, never a violation). 196 confirmed seeded changes (five rounds, seeded/) are all detected by the quick checks.',
    not_applicable=na)
  with open(os.path.join(HERE, 'MANIFEST.json'), 'w') as f:
    json.dump(man, f, indent=1)
  print('checks', len(checks), 'not claimed', len(na))

if __name__ == '__main__':
  main()
