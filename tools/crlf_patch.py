#!/usr/bin/env python3
"""Apply (old,new) replacements to a file with CRLF line endings, preserving them.
usage: crlf_patch.py file patchspec.py  (patchspec defines REPL = [(old,new),...] with \n newlines)"""
import sys
p, spec = sys.argv[1], sys.argv[2]
ns = {}
exec(open(spec).read(), ns)
raw = open(p, 'rb').read().decode()
crlf = '\r\n' in raw
s = raw.replace('\r\n', '\n')
for old, new in ns['REPL']:
    assert s.count(old) == 1, (s.count(old), old[:60])
    s = s.replace(old, new, 1)
if crlf:
    s = s.replace('\n', '\r\n')
open(p, 'wb').write(s.encode())
