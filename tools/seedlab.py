#!/usr/bin/env python3
"""Confirm and evaluate seeded property-breaking changes.

  seedlab.py confirm <PID> <dir-with-patch.diff,demo.py,meta.json> <name>
      scratch worktree of /repo HEAD: demo passes clean, fails patched; full test suite: every test passing at
      HEAD still passes with the patch.  On success copies the seed to /verif/seeded/<name>/ (+ meta.json update).
  seedlab.py detect <name> <PID> [<PID> ...]
      applies /verif/seeded/<name>/patch.diff to /repo, runs the quick checks, reverts; records which fired.
"""
import json, os, shutil, subprocess, sys, tempfile, time, xml.etree.ElementTree as ET

VERIF = '/verif'
ENV = dict(os.environ, OMP_NUM_THREADS='1', OPENBLAS_NUM_THREADS='1', PYTHONDONTWRITEBYTECODE='1')


def sh(cmd, cwd=None, env=None, timeout=3600):
  p = subprocess.run(cmd, shell=True, cwd=cwd, env=env or ENV, capture_output=True, text=True, timeout=timeout)
  return p.returncode, p.stdout + p.stderr


def run_suite(tree, n='8'):
  out = tempfile.mktemp(suffix='.xml', dir='/var/tmp')
  env = dict(ENV, PYTHONPATH=tree)
  env.pop('METRIC_LEARN_VERIF', None)
  sh('/venv/bin/python -m pytest -q -p no:cacheprovider --timeout=900 --continue-on-collection-errors -n %s --junitxml=%s test/' % (n, out),
     cwd=tree, env=env, timeout=5400)
  passed = set()
  for tc in ET.parse(out).getroot().iter('testcase'):
    if not any(ch.tag in ('failure', 'error', 'skipped') for ch in tc):
      passed.add(tc.get('classname') + '::' + tc.get('name'))
  os.unlink(out)
  return passed


def head_pass():
  head = subprocess.check_output(['git', '-C', '/repo', 'rev-parse', 'HEAD'], text=True).strip()
  cache = '/var/tmp/head_pass_%s.json' % head
  if os.path.exists(cache):
    return set(json.load(open(cache)))
  wt = '/tmp/sw_head'
  sh('git -C /repo worktree remove --force %s' % wt)
  sh('git -C /repo worktree add -f %s HEAD' % wt)
  p = run_suite(wt)
  sh('git -C /repo worktree remove --force %s' % wt)
  json.dump(sorted(p), open(cache, 'w'))
  return p


def confirm(pid, src, name):
  wt = '/tmp/sw_%s' % name
  sh('git -C /repo worktree remove --force %s' % wt)
  rc, out = sh('git -C /repo worktree add -f %s HEAD' % wt)
  res = dict(property=pid, name=name, confirmed=False)
  try:
    demo = os.path.join(src, 'demo.py')
    patch = os.path.join(src, 'patch.diff')
    rc0, o0 = sh('/venv/bin/python -B %s' % demo, cwd=wt, env=dict(ENV, PYTHONPATH=wt), timeout=1800)
    res['demo_clean_rc'] = rc0
    rc, o = sh('git apply --whitespace=nowarn %s' % patch, cwd=wt)
    if rc != 0:
      rc, o = sh('git apply --3way --whitespace=nowarn %s' % patch, cwd=wt)
    res['patch_applies'] = (rc == 0)
    if rc != 0:
      res['why'] = 'patch does not apply to HEAD: ' + o[-300:]
      return res
    rc1, o1 = sh('/venv/bin/python -B %s' % demo, cwd=wt, env=dict(ENV, PYTHONPATH=wt), timeout=1800)
    res['demo_patched_rc'] = rc1
    res['demo_patched_tail'] = o1[-400:]
    if rc0 != 0 or rc1 == 0:
      res['why'] = 'demo does not discriminate (clean rc=%s patched rc=%s) %s' % (rc0, rc1, o0[-200:])
      return res
    base = head_pass()
    got = run_suite(wt)
    lost = sorted(base - got)
    res['tests_lost'] = lost[:10]
    res['tests_passing_with_patch'] = len(got)
    if lost:
      res['why'] = '%d tests that pass at HEAD fail with the patch' % len(lost)
      return res
    res['confirmed'] = True
    dst = os.path.join(VERIF, 'seeded', name)
    os.makedirs(dst, exist_ok=True)
    # store the patch as a diff against current HEAD
    # (byte-exact: some sources use CRLF line endings, which text-mode capture would destroy)
    sh('git diff --binary -- metric_learn > %s' % os.path.join(dst, 'patch.diff'), cwd=wt)
    shutil.copy(demo, os.path.join(dst, 'demo.py'))
    meta = {}
    try:
      meta = json.load(open(os.path.join(src, 'meta.json')))
    except Exception:
      pass
    meta.update(property=pid, confirmed_by=['demo.py exits 0 on a clean worktree of HEAD and %d with the patch' % rc1,
                                            'full test suite in the scratch worktree: all %d tests passing at HEAD still pass' % len(base)],
                detected_by={})
    json.dump(meta, open(os.path.join(dst, 'meta.json'), 'w'), indent=1)
    return res
  finally:
    sh('git -C /repo worktree remove --force %s' % wt)
    print(json.dumps(res, indent=1))


def detect(name, pids):
  """run the quick checks against a scratch worktree of /repo HEAD with the seeded patch applied
  (VERIF_REPO / VERIF_OUT keep /repo, /verif/evidence and /verif/replays untouched)"""
  dst = os.path.join(VERIF, 'seeded', name)
  wt = '/tmp/sd_%s' % name
  out = '/tmp/sdout_%s' % name
  sh('git -C /repo worktree remove --force %s' % wt)
  sh('git -C /repo worktree add -f %s HEAD' % wt)
  rc, o = sh('git apply --whitespace=nowarn %s/patch.diff' % dst, cwd=wt)
  if rc != 0:
    rc, o = sh('git apply --3way --whitespace=nowarn %s/patch.diff' % dst, cwd=wt)
  if rc != 0:
    rc, o = sh('patch -p1 -F3 --binary < %s/patch.diff' % dst, cwd=wt)
  if rc != 0:
    print('patch does not apply', o)
    sh('git -C /repo worktree remove --force %s' % wt)
    return 2
  results = {}
  try:
    for pid in pids:
      t0 = time.time()
      env = dict(os.environ, VERIF_REPO=wt, VERIF_OUT=out)
      rc, o = sh('./bin/check %s quick' % pid, cwd=VERIF, env=env, timeout=3600)
      viol = [l for l in o.splitlines() if l.startswith('VIOLATION') or l.strip().startswith('clause=')]
      results[pid] = dict(rc=rc, violation_lines=len([l for l in viol if l.startswith('VIOLATION')]),
                          clauses=sorted({l.strip().split(' ')[0] for l in viol if l.strip().startswith('clause=')})[:8],
                          wall_s=round(time.time() - t0), tail=o[-300:] if rc not in (0, 1) else '')
      print(name, pid, 'rc=%d' % rc, results[pid]['clauses'], results[pid]['tail'])
  finally:
    sh('git -C /repo worktree remove --force %s' % wt)
    shutil.rmtree(out, ignore_errors=True)
  meta = json.load(open(os.path.join(dst, 'meta.json')))
  meta.setdefault('detected_by', {}).update(results)
  json.dump(meta, open(os.path.join(dst, 'meta.json'), 'w'), indent=1)
  return 0


if __name__ == '__main__':
  if sys.argv[1] == 'confirm':
    confirm(sys.argv[2], sys.argv[3], sys.argv[4])
  elif sys.argv[1] == 'detect':
    sys.exit(detect(sys.argv[2], sys.argv[3:]))
