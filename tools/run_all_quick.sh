#!/bin/sh
# runs every registered quick check against /repo in /verif (evidence rewritten); prints a summary
cd /verif
for id in C01 C02 C03 C04 C05 C06 C07 C08 C09 C10 C11 C12 C13 C14 C15 C16 C17 C18 C19 C20; do
  t0=$(date +%s); ./bin/check $id quick > /tmp/all_$id.log 2>&1; rc=$?; t1=$(date +%s)
  echo "$id rc=$rc $((t1-t0))s $(tail -1 /tmp/all_$id.log | cut -c1-140)"
done
