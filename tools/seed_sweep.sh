#!/bin/sh
# usage: tools/seed_sweep.sh "<seeds>" "<ids>"  -- runs quick checks in a sandbox output dir; prints exit codes
cd /verif
for s in $1; do for id in $2; do
  VERIF_OUT=/tmp/sweep_out VERIF_SEED=$s ./bin/check $id quick > /tmp/sweep_${id}_$s.log 2>&1; rc=$?
  echo "seed=$s $id rc=$rc $(tail -1 /tmp/sweep_${id}_$s.log | cut -c1-150)"
done; done
rm -rf /tmp/sweep_out
