#!/usr/bin/env python3
"""Run the repository's pinned test suite (guard off) and compare with /root/.vp/BASELINE.json stable_pass.
usage: baseline_check.py [-n N]   exit 0 iff every stable_pass test still passes."""
import json, subprocess, sys, os, tempfile, xml.etree.ElementTree as ET
n = sys.argv[sys.argv.index('-n') + 1] if '-n' in sys.argv else '12'
base = json.load(open('/root/.vp/BASELINE.json'))
out = tempfile.mktemp(suffix='.xml', dir='/var/tmp')
env = {k: v for k, v in os.environ.items() if k != 'METRIC_LEARN_VERIF'}
env.update(OMP_NUM_THREADS='1', OPENBLAS_NUM_THREADS='1')
cmd = ['/venv/bin/python', '-m', 'pytest', '-q', '-p', 'no:cacheprovider', '--timeout=900',
       '--continue-on-collection-errors', '-n', n, '--junitxml=' + out]
r = subprocess.run(cmd, cwd='/repo', env=env, capture_output=True, text=True)
passed = set()
allt = {}
for tc in ET.parse(out).getroot().iter('testcase'):
    name = tc.get('classname') + '::' + tc.get('name')
    ok = not any(ch.tag in ('failure', 'error', 'skipped') for ch in tc)
    allt[name] = ok
    if ok:
        passed.add(name)
os.unlink(out)
missing = [t for t in base['stable_pass'] if t not in passed]
print('tests run', len(allt), 'passed', len(passed), 'baseline', len(base['stable_pass']), 'baseline-not-passing', len(missing))
for t in missing[:40]:
    print('  MISSING', t)
failed = sorted(t for t, ok in allt.items() if not ok)
print('failed/skipped now:', len(failed))
for t in failed[:60]:
    print('  F', t)
sys.exit(1 if missing else 0)
