------------------------------ MODULE TR_Preproc ------------------------------
(***************************************************************************)
(* Trace spec for C05.  An event records ONE abstract call (estimator,     *)
(* method, index array T of tuple size `size`; size 1 = points) issued in  *)
(* four representations: formed data, indices + ndarray preprocessor,      *)
(* indices + nested-list preprocessor, indices + callable preprocessor.    *)
(* Logged: a digest of the result (for fit: of the fitted state) under     *)
(* each representation, the index arrays the callable received (call by    *)
(* call), the number of callable calls when FORMED data is passed, and the *)
(* exception class when the callable raises.  The specification's action   *)
(* takes only the abstract value, so the digests must coincide.            *)
(* Clause ids starting with X05 are implementation-shape observations (how *)
(* often / with which columns the callable is consulted): the statement of *)
(* C05 does not fix them, so they are reported in the evidence but are     *)
(* never a violation.                                                      *)
(***************************************************************************)
EXTENDS Preproc, FiniteSets, TLC, Json, IOUtils
Batch  == JsonDeserialize(IOEnv.TRACE_FILE)
Traces == Batch.traces
VARIABLES tid, l, fails, ex
vars == <<tid, l, fails, ex>>
R(f, e) == [fails |-> f, ex |-> e]

ExpectedCalls(ev) == IF ev.size = 1 THEN CallsForPoints(Column(ev.T, 1)) ELSE CallsForTuples(ev.T, ev.size)

QueryStep(ev) ==
  \* every representation present (a nested list cannot carry the dtype of a float32 / integer store and is then absent)
  R((IF ev.exc = "" /\ {"formed", "array", "callable"} \subseteq DOMAIN ev.digests
        /\ \A k \in DOMAIN ev.digests : ev.digests[k] = ev.digests.formed
     THEN {} ELSE {"C05.same_result_as_formed_data"})
    \cup (IF ev.method = "fit" \/ ev.calls = ExpectedCalls(ev) THEN {} ELSE {"X05.preprocessor_called_once_per_column_in_order"})
    \cup (IF ev.formed_calls = 0 THEN {} ELSE {"C05.formed_data_does_not_consult_preprocessor"}),
    {"C05.same_result_as_formed_data", "X05.preprocessor_called_once_per_column_in_order",
     "C05.formed_data_does_not_consult_preprocessor"})

ErrorStep(ev) ==
  R(IF ev.exc = "PreprocessorError" THEN {} ELSE {"C05.preprocessor_exception_surfaces_as_PreprocessorError"},
    {"C05.preprocessor_exception_surfaces_as_PreprocessorError"})

Step(ev) == CASE ev.ev = "PreprocCall"  -> QueryStep(ev)
              [] ev.ev = "PreprocError" -> ErrorStep(ev)
              [] OTHER -> R({"TRACE.unknown_event"}, {})

Init == tid \in 1..Len(Traces) /\ l = 1 /\ fails = {} /\ ex = {}
Next == /\ l <= Len(Traces[tid].events)
        /\ LET r == Step(Traces[tid].events[l])
           IN  fails' = fails \cup {c \o "@" \o ToString(l) : c \in r.fails} /\ ex' = ex \cup r.ex
        /\ l' = l + 1 /\ UNCHANGED tid
Done   == l = Len(Traces[tid].events) + 1
Report == Done => PrintT(<<"VERDICT", Traces[tid].tid, fails, ex>>)
=============================================================================
