------------------------------ MODULE ClosedForm ------------------------------
(***************************************************************************)
(* C09: what the closed-form learners compute, as EXACT scaled statistics  *)
(* (no division) and certificates relating them to the learned L.          *)
(* Over exact dyadics (EXTENDS DyMat).  X: sequence of points.             *)
(*                                                                         *)
(* Covariance: M is the Moore-Penrose inverse of the sample covariance C;  *)
(*   with S = n(n-1) C computed exactly: S M S = k S, M S M = k M,         *)
(*   M S symmetric, k = n(n-1).                                            *)
(* RCA: C_w = average within-chunk covariance of the chunked points;       *)
(*   P N C_w =: WP exactly (P = product of the distinct chunk sizes);      *)
(*   L C_w L^T = I_k; for k < d the discarded generalised eigenvectors     *)
(*   v_j (C_w v = lambda C_t v, ascending lambda, witnessed and verified)  *)
(*   satisfy L C_w v_j = 0.                                                *)
(* LFDA: local scale a_i = squared distance from i to its k-th nearest     *)
(*   same-class neighbour (selected here by exact comparison), affinity    *)
(*   A_ij = exp(-d2_ij / sqrt(a_i a_j)) (root and quotient witnessed, exp  *)
(*   tabulated), pairwise local within / between scatter, rows of L =      *)
(*   leading generalised eigenvectors of (S_b, S_w) in decreasing order,   *)
(*   scaled by embedding_type.                                             *)
(***************************************************************************)
EXTENDS DyMat, FiniteSets

ScatterN(X) ==
  LET n == Len(X)  d == Len(X[1])
      s == [j \in 1..d |-> DM!Sum([i \in 1..n |-> X[i][j]])]
  IN [a \in 1..d |-> [b \in 1..d |->
        Sub(Mul(FromInt(n), DM!Sum([i \in 1..n |-> Mul(X[i][a], X[i][b])])), Mul(s[a], s[b]))]]

SymApprox(A, scale) == \A i \in 1..Len(A) : \A j \in 1..Len(A) : Approx(A[i][j], A[j][i], 2, 2, scale)

(* ---- Covariance ---- *)
CovariancePenrose(X, M) ==
  LET n == Len(X)  S == ScatterN(X)  k == FromInt(n * (n - 1))
      SM == DM!MatMul(S, M)  MS == DM!MatMul(M, S)
      sS == MaxAbsM(S)  sM == MaxAbsM(M)
  IN /\ ApproxM(DM!MatMul(SM, S), DM!MScale(k, S), 2, 2, Mul(Mul(sS, sS), sM))
     /\ ApproxM(DM!MatMul(MS, M), DM!MScale(k, M), 2, 2, Mul(Mul(sM, sM), sS))
     /\ SymApprox(MS, Mul(sM, sS))

(* ---- RCA ---- *)
ChunkIds(ch) == {ch[i] : i \in 1..Len(ch)} \ {-1}
ChunkMembers(ch, c) == {i \in 1..Len(ch) : ch[i] = c}
SeqOf(S) == LET RECURSIVE F(_) F(s) == IF s = {} THEN <<>> ELSE LET x == CHOOSE x \in s : TRUE IN <<x>> \o F(s \ {x}) IN F(S)
RECURSIVE ProdSet(_)
ProdSet(S) == IF S = {} THEN 1 ELSE LET x == CHOOSE x \in S : TRUE IN x * ProdSet(S \ {x})
ChunkSizes(ch) == {Cardinality(ChunkMembers(ch, c)) : c \in ChunkIds(ch)}
NChunked(ch) == Cardinality({i \in 1..Len(ch) : ch[i] # -1})
PFactor(ch) == ProdSet(ChunkSizes(ch))
(* P * N * C_w, exactly:  sum_c (P / m_c) * ( m_c sum x x^T - (sum x)(sum x)^T ) *)
WithinP(X, ch) ==
  LET d == Len(X[1])  P == PFactor(ch)
      term(c) == LET I == SeqOf(ChunkMembers(ch, c))  Xc == [t \in 1..Len(I) |-> X[I[t]]]
                 IN DM!MScale(FromInt(P \div Len(I)), ScatterN(Xc))
      RECURSIVE Acc(_)
      Acc(Cs) == IF Cs = {} THEN DM!ZeroMat(d, d)
                 ELSE LET c == CHOOSE c \in Cs : TRUE IN DM!MAdd(term(c), Acc(Cs \ {c}))
  IN Acc(ChunkIds(ch))
ChunkedPoints(X, ch) == LET I == SeqOf({i \in 1..Len(ch) : ch[i] # -1}) IN [t \in 1..Len(I) |-> X[I[t]]]

(* L C_w L^T = I_k   <=>   L WP L^T = P N I_k *)
RCAWhitens(X, ch, L) ==
  LET WP == WithinP(X, ch)  k == Len(L)
      pn == FromInt(PFactor(ch) * NChunked(ch))
      G  == DM!MatMul(DM!MatMul(L, WP), DM!Transpose(L))
  IN ApproxM(G, [i \in 1..k |-> [j \in 1..k |-> IF i = j THEN pn ELSE Zero]], 2, 2, pn)
(* witnessed generalised eigen-decomposition of (C_w, C_t): columns of V (given as rows Vt), values lam ascending *)
RCAEigenWitnessOK(X, ch, Vt, lam) ==
  LET WP == WithinP(X, ch)  ST == ScatterN(ChunkedPoints(X, ch))
      N == NChunked(ch)  P == PFactor(ch)
      cw == FromInt(N * (N - 1))            \* C_w = WP / (P N),  C_t = ST / (N (N-1))
      ct == FromInt(P * N)
      d == Len(Vt)
  IN /\ \A j \in 1..d : ApproxV(DM!VScale(cw, DM!MatVec(WP, Vt[j])),
                                DM!VScale(Mul(lam[j], ct), DM!MatVec(ST, Vt[j])), 1, 1,
                                Mul(Mul(cw, MaxAbsM(WP)), MaxAbsV(Vt[j])))
     /\ \A j \in 1..(d - 1) : Leq(lam[j], lam[j + 1])
     \* V^T C_t V = I : independence of the witness vectors
     /\ ApproxM(DM!MatMul(DM!MatMul(Vt, ST), DM!Transpose(Vt)),
                [i \in 1..d |-> [j \in 1..d |-> IF i = j THEN FromInt(N * (N - 1)) ELSE Zero]], 1, 1, FromInt(N * (N - 1)))
RCADiscards(X, ch, L, Vt, k) ==
  LET WP == WithinP(X, ch) IN
  \A j \in (k + 1)..Len(Vt) :
     LET r == DM!MatVec(L, DM!MatVec(WP, Vt[j]))
     IN \A i \in 1..Len(r) : Leq(Abs(r[i]), Shift(Mul(Mul(MaxAbsM(L), MaxAbsM(WP)), MaxAbsV(Vt[j])), -1))
HasGap(lam, k) == Leq(Shift(lam[Len(lam)], -1), Sub(lam[k + 1], lam[k]))     \* gap >= 2^-15 * largest

(* ---- LFDA ---- *)
SqDist(x, y) == DM!Norm2(DM!VSub(x, y))
ClassOf(y, c) == {i \in 1..Len(y) : y[i] = c}
(* a is the squared distance from i to its kk-th nearest same-class neighbour (ties: any valid value) *)
IsKthNN(X, y, i, kk, a) ==
  LET I == ClassOf(y, y[i]) IN
  /\ \E j \in I : SqDist(X[i], X[j]) = a
  /\ Cardinality({j \in I : Lt(SqDist(X[i], X[j]), a)}) <= kk
  /\ Cardinality({j \in I : Leq(SqDist(X[i], X[j]), a)}) >= kk + 1
KEff(kparam, d, nc) == LET k0 == IF kparam = 0 THEN (IF 7 < d - 1 THEN 7 ELSE d - 1) ELSE (IF kparam >= d THEN d - 1 ELSE kparam)
                       IN IF k0 < nc - 1 THEN k0 ELSE nc - 1

(* NAMED DEVIATION (known finding D6): the implementation does not use each point's own k-th neighbour.   *)
(* It partially sorts the class's squared-distance matrix column by column and then reads COLUMN kk, so   *)
(* the scales of a class are a rearrangement of the squared distances to ONE point (the (kk+1)-th member  *)
(* of the class in input order), with the kk-th smallest of them at position kk+1.                        *)
OrderedMembers(y, c) == SeqOf(ClassOf(y, c))    \* any order; positions are resolved through SortedBy below
RECURSIVE Sorted(_)
Sorted(S) == IF S = {} THEN <<>> ELSE LET m == CHOOSE m \in S : \A x \in S : m <= x IN <<m>> \o Sorted(S \ {m})
IsDeviationScale(X, y, kparam, a) ==
  \A c \in {y[i] : i \in 1..Len(y)} :
     LET I  == Sorted(ClassOf(y, c))                          \* members in input order
         nc == Len(I)
         kk == KEff(kparam, Len(X[1]), nc)
         q  == I[kk + 1]
         col == [t \in 1..nc |-> SqDist(X[I[t]], X[q])]
         got == [t \in 1..nc |-> a[I[t]]]
     IN /\ \A v \in {col[t] : t \in 1..nc} :
              Cardinality({t \in 1..nc : col[t] = v}) = Cardinality({t \in 1..nc : got[t] = v})
        /\ \A t \in 1..nc : \E u \in 1..nc : got[t] = col[u]
        /\ Cardinality({t \in 1..nc : Lt(col[t], got[kk + 1])}) <= kk
        /\ Cardinality({t \in 1..nc : Leq(col[t], got[kk + 1])}) >= kk + 1

(* outer product of the difference of two points *)
DiffOuter(x, y) == LET v == DM!VSub(x, y) IN DM!Outer(v, v)
Classes(y) == {y[i] : i \in 1..Len(y)}
ClassSizes(y) == {Cardinality(ClassOf(y, c)) : c \in Classes(y)}
PClass(y) == ProdSet(ClassSizes(y))
UPairs(I) == {p \in I \X I : p[1] < p[2]}
RECURSIVE SumMats(_, _, _)
SumMats(S, f, d) == IF S = {} THEN DM!ZeroMat(d, d)          \* f: a function on S with matrix values
                    ELSE LET x == CHOOSE x \in S : TRUE IN DM!MAdd(f[x], SumMats(S \ {x}, f, d))
(* G_c = sum over unordered same-class pairs of A_ij (x_i - x_j)(x_i - x_j)^T *)
GClass(X, y, A, c) ==
  LET d == Len(X[1])  U == UPairs(ClassOf(y, c))
  IN SumMats(U, [p \in U |-> DM!MScale(A[p[1]][p[2]], DiffOuter(X[p[1]], X[p[2]]))], d)
(* P * S_w  =  sum_c (P / n_c) G_c *)
LfdaWithinP(X, y, A) ==
  LET d == Len(X[1])  P == PClass(y)
  IN SumMats(Classes(y), [c \in Classes(y) |->
                DM!MScale(FromInt(P \div Cardinality(ClassOf(y, c))), GClass(X, y, A, c))], d)
(* n * P * S_b = sum_c (P - n P / n_c) G_c + P * sum over unordered different-class pairs of (x_i - x_j)(x_i - x_j)^T *)
LfdaBetweenNP(X, y, A) ==
  LET d == Len(X[1])  P == PClass(y)  n == Len(X)
      diff == {p \in UPairs(1..n) : y[p[1]] # y[p[2]]}
  IN DM!MAdd(SumMats(Classes(y), [c \in Classes(y) |->
                DM!MScale(FromInt(P - (n * P) \div Cardinality(ClassOf(y, c))), GClass(X, y, A, c))], d),
             DM!MScale(FromInt(P), SumMats(diff, [p \in diff |-> DiffOuter(X[p[1]], X[p[2]])], d)))

(* the affinity witnesses describe the documented affinity: local scales are k-th neighbour distances,    *)
(* s_ij = sqrt(a_i a_j), t_ij = d2_ij / s_ij, A_ij = exp(-t_ij) (tabulated: only range / zero rule checked) *)
ScaleOK(X, y, kparam, a, documented) ==
  IF documented
  THEN \A i \in 1..Len(X) : IsKthNN(X, y, i, KEff(kparam, Len(X[1]), Cardinality(ClassOf(y, y[i]))), a[i])
  ELSE IsDeviationScale(X, y, kparam, a)
AffinityWitnessOK(X, y, kparam, a, s, t, A, documented) ==
  LET n == Len(X)  d == Len(X[1]) IN
  /\ ScaleOK(X, y, kparam, a, documented)
  /\ \A i \in 1..n : \A j \in 1..n : (i < j /\ y[i] = y[j]) =>
        LET aa == Mul(a[i], a[j])  d2 == SqDist(X[i], X[j]) IN
        IF IsZero(aa) THEN IsZero(A[i][j])
        ELSE /\ IsPos(s[i][j]) /\ Approx(Sq(s[i][j]), aa, 2, 3, aa)
             /\ Approx(Mul(t[i][j], s[i][j]), d2, 2, 3, d2)
             /\ IsPos(A[i][j]) /\ Leq(A[i][j], One) /\ (IsZero(t[i][j]) => A[i][j] = One)
=============================================================================
