------------------------------- MODULE MC_LSML -------------------------------
(***************************************************************************)
(* LSML's line search as a machine over an abstract loss oracle: in each   *)
(* iteration the ten trial steps get arbitrary losses in 0..LMax; a trial  *)
(* replaces the best only if STRICTLY smaller.  Exits: stationary (an      *)
(* abstract flag), no improving trial, MaxIter.  Invariants: the best loss *)
(* strictly decreases along accepted iterations, the returned loss is <=   *)
(* the loss at the prior, and an early stop is either stationary or a      *)
(* point where none of the ten trial steps improves - which is exactly the *)
(* assumption ("a non-stationary point has an improving step") that the    *)
(* property needs and that is checked on the real runs.                    *)
(***************************************************************************)
EXTENDS Integers, Sequences, FiniteSets, TLC
CONSTANTS LMax, MaxIter, NTrials
VARIABLES it, best, start, exit, hist
vars == <<it, best, start, exit, hist>>
Trials == [1..NTrials -> 0..LMax]
RECURSIVE BestOf(_, _, _)
BestOf(tr, i, b) == IF i > NTrials THEN b ELSE BestOf(tr, i + 1, IF tr[i] < b THEN tr[i] ELSE b)
Init == it = 0 /\ start \in 0..LMax /\ best = start /\ exit = "running" /\ hist = <<>>
Stationary == /\ exit = "running" /\ it < MaxIter
              /\ exit' = "stationary" /\ it' = it + 1 /\ UNCHANGED <<best, hist, start>>
Search == /\ exit = "running" /\ it < MaxIter
          /\ \E tr \in Trials :
               LET b == BestOf(tr, 1, best) IN
               /\ it' = it + 1 /\ UNCHANGED start
               /\ IF b < best
                  THEN /\ best' = b /\ hist' = Append(hist, <<best, b>>)
                       /\ exit' = (IF it + 1 = MaxIter THEN "max_iter" ELSE "running")
                  ELSE /\ exit' = "no_improving_step" /\ UNCHANGED <<best, hist>>
Iterate == Stationary \/ Search
Next == Iterate
StrictDecrease == \A i \in 1..Len(hist) : hist[i][2] < hist[i][1]
NeverWorseThanPrior == best <= start
EarlyStopReasons == (exit # "running" /\ it < MaxIter) => exit \in {"stationary", "no_improving_step"}
=============================================================================
