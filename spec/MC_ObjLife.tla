------------------------------ MODULE MC_ObjLife ------------------------------
(***************************************************************************)
(* Exhaustive model of the per-object machine ObjLife over small digest /  *)
(* threshold / dimension domains: which states can the LIBRARY's actions   *)
(* reach from a fresh object (no Env steps), and what do they preserve.    *)
(***************************************************************************)
EXTENDS Integers, TLC
CONSTANTS Digs, Thrs, Dims, IsPairs
INSTANCE ObjLife WITH NoThr <- 0
VARIABLES s, last
vars == <<s, last>>

States == [fitted : BOOLEAN, dig : Digs \cup {0}, hasthr : BOOLEAN, thr : Thrs \cup {0}, nfeat : Dims \cup {-1}, par : {7}]

Init == s = Fresh(7) /\ last = "new"
DoFit == \E t \in States, d \in Dims, ok \in BOOLEAN :
            /\ Fit(s, t, d, ok, IsPairs)
            /\ (~ok => t = s)                      \* (the model keeps the state of a failing fit; the real code may not)
            /\ (~IsPairs => t.hasthr = s.hasthr /\ t.thr = s.thr)
            /\ (~t.hasthr => t.thr = 0)
            /\ s' = t /\ last' = "fit"
DoQuery == \E q \in Queries, raised \in BOOLEAN : Query(s, s, raised) /\ s' = s /\ last' = q
DoSet == \E t \in States, v \in Thrs, raised \in BOOLEAN : IsPairs /\ SetThreshold(s, t, v, raised) /\ s' = t /\ last' = "set_threshold"
DoCal == \E t \in States, raised \in BOOLEAN : IsPairs /\ Calibrate(s, t, raised) /\ s' = t /\ last' = "calibrate_threshold"
Next == DoFit \/ DoQuery \/ DoSet \/ DoCal
Spec == Init /\ [][Next]_vars

TypeOK == s \in States
Inv == WellFormed(s)
ThresholdOnlyOnPairs == ~IsPairs => ~s.hasthr
(* action properties: only fit changes the model / n_features_in_, only threshold actions and fit change the threshold, nothing changes the parameters *)
ModelOnlyByFit == [][(s'.dig # s.dig \/ s'.nfeat # s.nfeat \/ s'.fitted # s.fitted) => last' = "fit"]_vars
ThrOnlyByThresholdActions == [][(s'.thr # s.thr \/ s'.hasthr # s.hasthr) => last' \in {"fit", "set_threshold", "calibrate_threshold"}]_vars
ParamsNeverChange == [][s'.par = s.par]_vars
QueriesAreSilent == [][last' \in Queries => s' = s]_vars
=============================================================================
