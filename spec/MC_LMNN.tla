------------------------------- MODULE MC_LMNN -------------------------------
(***************************************************************************)
(* LMNN's backtracking gradient descent as a machine over an abstract      *)
(* objective oracle with values in 0..OMax: from the current point a trial *)
(* step is evaluated; it is ACCEPTED iff its objective is not larger       *)
(* (delta <= 0), after which the step size grows by 1% (level + 1);        *)
(* otherwise the step size is halved (level - 1) and another trial is made *)
(* from the same point.  Outer iterations run from 2 to max_iter - 1, so   *)
(* with max_iter <= 2 no trial is ever made.  Invariants: accepted         *)
(* objectives are non-increasing, the result is never worse than the       *)
(* initial point, and zero iterations return the initial point.            *)
(***************************************************************************)
EXTENDS Integers, Sequences, TLC
CONSTANTS OMax, MaxIter, MaxTries
VARIABLES it, cur, init, level, tries, accepted, trials
vars == <<it, cur, init, level, tries, accepted, trials>>
Init == /\ init \in 0..OMax /\ cur = init /\ it = 2 /\ level = 0 /\ tries = 0 /\ accepted = <<>> /\ trials = 0
Trial == /\ it < MaxIter /\ tries < MaxTries
         /\ \E c \in 0..OMax :
              IF c - cur <= 0
              THEN /\ cur' = c /\ accepted' = Append(accepted, c) /\ level' = level + 1 /\ it' = it + 1 /\ tries' = 0
              ELSE /\ level' = level - 1 /\ tries' = tries + 1 /\ UNCHANGED <<cur, accepted, it>>
         /\ trials' = trials + 1 /\ UNCHANGED init
Next == Trial
AcceptedNonIncreasing == \A i \in 1..Len(accepted) : accepted[i] <= (IF i = 1 THEN init ELSE accepted[i - 1])
NeverWorseThanInit == cur <= init
ZeroIterationsReturnInit == MaxIter <= 2 => (cur = init /\ trials = 0)
CurrentIsLastAccepted == cur = (IF accepted = <<>> THEN init ELSE accepted[Len(accepted)])
=============================================================================
