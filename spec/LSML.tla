--------------------------------- MODULE LSML ---------------------------------
(***************************************************************************)
(* C12: LSML's convex objective, its gradient and its line-search scheme.  *)
(*   f(M) = SUM_i w_i [sqrt(d_ab,i) - sqrt(d_cd,i)]_+^2 + tr(M M0^-1) - logdet M *)
(*   with d_ab = v_ab^T M v_ab, d_cd = v_cd^T M v_cd, w normalised to sum 1.     *)
(*   grad f = M0^-1 - M^-1 + SUM_{i violated} w_i [ (1 - sqrt(d_cd/d_ab)) v_ab v_ab^T *)
(*                                               + (1 - sqrt(d_ab/d_cd)) v_cd v_cd^T ] *)
(* Evaluated over exact dyadics with witnesses for every irrational        *)
(* quantity: g_i = sqrt(d_ab d_cd), q1_i = g_i / d_ab, q2_i = g_i / d_cd,   *)
(* P = M^-1, P0 = M0^-1, wn_i = w_i / sum w; log of the Cholesky diagonal   *)
(* is tabulated (libm).  The scheme: ten step sizes per iteration, a step   *)
(* is accepted only if it STRICTLY lowers the best loss; exits: gradient    *)
(* norm < tol, no improving step, max_iter.                                 *)
(***************************************************************************)
EXTENDS DyMat

Violated(M, vab, vcd, i) == Gt(DM!QuadForm(M, vab[i]), DM!QuadForm(M, vcd[i]))

(* [sqrt a - sqrt b]^2 = a + b - 2 sqrt(a b) *)
CompLoss(M, vab, vcd, wn, g) ==
  DM!Sum([i \in 1..Len(vab) |->
     IF Violated(M, vab, vcd, i)
     THEN Mul(wn[i], Sub(Add(DM!QuadForm(M, vab[i]), DM!QuadForm(M, vcd[i])), Add(g[i], g[i])))
     ELSE Zero])
(* tr(M P0) *)
TraceTerm(M, P0) == DM!MatInner(M, P0)
(* logdet M = 2 * SUM log R_ii, R the Cholesky factor (logs tabulated) *)
LogDet(logs) == LET s == DM!Sum(logs) IN Add(s, s)
Objective(M, vab, vcd, wn, g, P0, logs) == Sub(Add(CompLoss(M, vab, vcd, wn, g), TraceTerm(M, P0)), LogDet(logs))

SumMatSeq(f, i, d) == DM!SumMats(f, i, d)           \* (Mat.tla: evaluated eagerly)
Gradient(M, vab, vcd, wn, q1, q2, P, P0) ==
  LET d == Len(M) IN
  DM!MAdd(DM!MSub(P0, P),
          SumMatSeq([i \in 1..Len(vab) |->
             IF Violated(M, vab, vcd, i)
             THEN DM!MScale(wn[i], DM!MAdd(DM!MScale(Sub(One, q1[i]), DM!Outer(vab[i], vab[i])),
                                           DM!MScale(Sub(One, q2[i]), DM!Outer(vcd[i], vcd[i]))))
             ELSE DM!ZeroMat(d, d)], 1, d))

WitnessesOK(M, M0, vab, vcd, w, wn, g, q1, q2, P, P0, R, R0) ==
  LET d == Len(M)  sw == DM!Sum(w)
      I == [i \in 1..d |-> [j \in 1..d |-> IF i = j THEN One ELSE Zero]] IN
  /\ ApproxM(DM!MatMul(M, P), I, 1, 1, Mul(MaxAbsM(M), MaxAbsM(P)))
  /\ ApproxM(DM!MatMul(M0, P0), I, 1, 1, Mul(MaxAbsM(M0), MaxAbsM(P0)))
  /\ ApproxM(DM!Gram(R), M, 2, 2, MaxAbsM(M)) /\ ApproxM(DM!Gram(R0), M0, 2, 2, MaxAbsM(M0))
  /\ \A i \in 1..d : IsPos(R[i][i]) /\ IsPos(R0[i][i])
  /\ \A i \in 1..Len(w) : IsPos(w[i]) /\ Approx(Mul(wn[i], sw), w[i], 2, 2, w[i])
  /\ \A i \in 1..Len(vab) :
        LET a == DM!QuadForm(M, vab[i])  b == DM!QuadForm(M, vcd[i]) IN
        Violated(M, vab, vcd, i) =>
           /\ ~IsNeg(g[i]) /\ Approx(Sq(g[i]), Mul(a, b), 2, 2, Mul(a, b))
           /\ Approx(Mul(q1[i], a), g[i], 2, 2, g[i]) /\ Approx(Mul(q2[i], b), g[i], 2, 2, g[i])
(***************************************************************************)
(* The line-search machine of MC_LSML followed on a RECORDED call history  *)
(* of a real fit (growth of the specification, clause prefix G12).         *)
(* calls[i] = [kind |-> "loss" | "grad", M (the metric the solver passed),  *)
(*             val (the loss returned / the Frobenius norm the solver took  *)
(*             of the gradient), G (the gradient returned, <<>> for loss),  *)
(*             noclip (harness hint: the trial was not clipped by the PSD   *)
(*             projection)].  Protocol of the implementation:               *)
(*   loss(prior);  per iteration it = 1..max_iter:  grad(cur);  stop when   *)
(*   its norm < tol;  ten loss(trial_k), trial_k = Proj(cur - s_k/norm * G) *)
(*   on the documented grid s_k = 10^(-10 + 10 k / 9);  the STRICTLY best    *)
(*   trial below the best loss so far becomes cur;  stop when there is none. *)
(* The comparisons are those the code makes, on the floats it computed.     *)
(***************************************************************************)
NTrials == 10
RECURSIVE LsTrials(_, _, _, _, _, _, _, _)
\* scans the ten trials p+1..p+10 of one iteration: returns <<best index or 0, best loss, on-grid ok>>
LsTrials(c, steps, p, k, cur, gn, G, acc) ==
  IF k > NTrials THEN acc
  ELSE LET t == c[p + k]
           better == Lt(t.val, acc[2])
           onGrid == ~t.noclip \/
                     \A i \in 1..Len(cur) : \A j \in 1..Len(cur) :
                        Leq(Abs(Sub(Mul(gn, Sub(cur[i][j], t.M[i][j])), Mul(steps[k], G[i][j]))),
                            Add(Shift(Mul(steps[k], MaxAbsM(G)), -2), Shift(Mul(gn, Add(MaxAbsM(cur), One)), -3)))
       IN LsTrials(c, steps, p, k + 1, cur, gn, G,
                   <<IF better THEN k ELSE acc[1], IF better THEN t.val ELSE acc[2], acc[3] /\ onGrid, acc[4] /\ t.kind = "loss">>)

RECURSIVE LsRun(_, _, _, _, _, _)
\* at an iteration boundary: p = next call, cur = current metric, sb = best loss so far, it = iterations started
LsRun(ev, p, cur, sb, it, acc) ==
  LET c == ev.calls  n == Len(c) IN
  IF it = ev.max_iter
  THEN [fails |-> acc \cup (IF p = n + 1 THEN {} ELSE {"G12.history_follows_the_line_search_machine"}), cur |-> cur, it |-> it]
  ELSE IF p > n \/ c[p].kind # "grad" \/ c[p].M # cur
  THEN [fails |-> acc \cup {"G12.history_follows_the_line_search_machine"}, cur |-> cur, it |-> it]
  ELSE LET g == c[p]
           normOK == Approx(Sq(g.val), DM!Frob2(g.G), 2, 2, DM!Frob2(g.G))
           acc1 == acc \cup (IF normOK THEN {} ELSE {"G12.step_is_normalised_by_the_gradient_norm"})
       IN IF Lt(g.val, ev.tol)
          THEN [fails |-> acc1 \cup (IF p = n THEN {} ELSE {"G12.history_follows_the_line_search_machine"}), cur |-> cur, it |-> it + 1]
          ELSE IF p + NTrials > n
          THEN [fails |-> acc1 \cup {"G12.history_follows_the_line_search_machine"}, cur |-> cur, it |-> it + 1]
          ELSE LET r == LsTrials(c, ev.steps, p, 1, cur, g.val, g.G, <<0, sb, TRUE, TRUE>>)
                   acc2 == acc1 \cup (IF r[3] THEN {} ELSE {"G12.trial_points_are_on_the_documented_step_grid"})
                                \cup (IF r[4] THEN {} ELSE {"G12.history_follows_the_line_search_machine"})
               IN IF r[1] = 0
                  THEN [fails |-> acc2 \cup (IF p + NTrials = n THEN {} ELSE {"G12.history_follows_the_line_search_machine"}),
                        cur |-> cur, it |-> it + 1]
                  ELSE LsRun(ev, p + NTrials + 1, c[p + r[1]].M, r[2], it + 1, acc2)

LineSearchFails(ev) ==
  LET c == ev.calls
      startOK == Len(c) >= 1 /\ c[1].kind = "loss" /\ ApproxM(c[1].M, ev.M0, 2, 2, MaxAbsM(ev.M0))
  IN IF ~startOK THEN {"G12.search_starts_at_the_documented_prior"}
     ELSE LET r == LsRun(ev, 2, c[1].M, c[1].val, 0, {})
              M == DM!Gram(ev.L)
          IN r.fails
             \cup (IF ApproxM(M, r.cur, 2, 2, MaxAbsM(r.cur)) THEN {} ELSE {"G12.result_is_the_last_accepted_point"})
             \cup (IF r.it = ev.n_iter THEN {} ELSE {"G12.n_iter_counts_the_iterations_started"})
LineSearchClauses == {"G12.search_starts_at_the_documented_prior", "G12.history_follows_the_line_search_machine",
                      "G12.step_is_normalised_by_the_gradient_norm", "G12.trial_points_are_on_the_documented_step_grid",
                      "G12.result_is_the_last_accepted_point", "G12.n_iter_counts_the_iterations_started"}
=============================================================================
