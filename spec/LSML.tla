--------------------------------- MODULE LSML ---------------------------------
(***************************************************************************)
(* C12: LSML's convex objective, its gradient and its line-search scheme.  *)
(*   f(M) = SUM_i w_i [sqrt(d_ab,i) - sqrt(d_cd,i)]_+^2 + tr(M M0^-1) - logdet M *)
(*   with d_ab = v_ab^T M v_ab, d_cd = v_cd^T M v_cd, w normalised to sum 1.     *)
(*   grad f = M0^-1 - M^-1 + SUM_{i violated} w_i [ (1 - sqrt(d_cd/d_ab)) v_ab v_ab^T *)
(*                                               + (1 - sqrt(d_ab/d_cd)) v_cd v_cd^T ] *)
(* Evaluated over exact dyadics with witnesses for every irrational        *)
(* quantity: g_i = sqrt(d_ab d_cd), q1_i = g_i / d_ab, q2_i = g_i / d_cd,   *)
(* P = M^-1, P0 = M0^-1, wn_i = w_i / sum w; log of the Cholesky diagonal   *)
(* is tabulated (libm).  The scheme: ten step sizes per iteration, a step   *)
(* is accepted only if it STRICTLY lowers the best loss; exits: gradient    *)
(* norm < tol, no improving step, max_iter.                                 *)
(***************************************************************************)
EXTENDS DyMat

Violated(M, vab, vcd, i) == Gt(DM!QuadForm(M, vab[i]), DM!QuadForm(M, vcd[i]))

(* [sqrt a - sqrt b]^2 = a + b - 2 sqrt(a b) *)
CompLoss(M, vab, vcd, wn, g) ==
  DM!Sum([i \in 1..Len(vab) |->
     IF Violated(M, vab, vcd, i)
     THEN Mul(wn[i], Sub(Add(DM!QuadForm(M, vab[i]), DM!QuadForm(M, vcd[i])), Add(g[i], g[i])))
     ELSE Zero])
(* tr(M P0) *)
TraceTerm(M, P0) == DM!MatInner(M, P0)
(* logdet M = 2 * SUM log R_ii, R the Cholesky factor (logs tabulated) *)
LogDet(logs) == LET s == DM!Sum(logs) IN Add(s, s)
Objective(M, vab, vcd, wn, g, P0, logs) == Sub(Add(CompLoss(M, vab, vcd, wn, g), TraceTerm(M, P0)), LogDet(logs))

SumMatSeq(f, i, d) == DM!SumMats(f, i, d)           \* (Mat.tla: evaluated eagerly)
Gradient(M, vab, vcd, wn, q1, q2, P, P0) ==
  LET d == Len(M) IN
  DM!MAdd(DM!MSub(P0, P),
          SumMatSeq([i \in 1..Len(vab) |->
             IF Violated(M, vab, vcd, i)
             THEN DM!MScale(wn[i], DM!MAdd(DM!MScale(Sub(One, q1[i]), DM!Outer(vab[i], vab[i])),
                                           DM!MScale(Sub(One, q2[i]), DM!Outer(vcd[i], vcd[i]))))
             ELSE DM!ZeroMat(d, d)], 1, d))

WitnessesOK(M, M0, vab, vcd, w, wn, g, q1, q2, P, P0, R, R0) ==
  LET d == Len(M)  sw == DM!Sum(w)
      I == [i \in 1..d |-> [j \in 1..d |-> IF i = j THEN One ELSE Zero]] IN
  /\ ApproxM(DM!MatMul(M, P), I, 1, 1, Mul(MaxAbsM(M), MaxAbsM(P)))
  /\ ApproxM(DM!MatMul(M0, P0), I, 1, 1, Mul(MaxAbsM(M0), MaxAbsM(P0)))
  /\ ApproxM(DM!Gram(R), M, 2, 2, MaxAbsM(M)) /\ ApproxM(DM!Gram(R0), M0, 2, 2, MaxAbsM(M0))
  /\ \A i \in 1..d : IsPos(R[i][i]) /\ IsPos(R0[i][i])
  /\ \A i \in 1..Len(w) : IsPos(w[i]) /\ Approx(Mul(wn[i], sw), w[i], 2, 2, w[i])
  /\ \A i \in 1..Len(vab) :
        LET a == DM!QuadForm(M, vab[i])  b == DM!QuadForm(M, vcd[i]) IN
        Violated(M, vab, vcd, i) =>
           /\ ~IsNeg(g[i]) /\ Approx(Sq(g[i]), Mul(a, b), 2, 2, Mul(a, b))
           /\ Approx(Mul(q1[i], a), g[i], 2, 2, g[i]) /\ Approx(Mul(q2[i], b), g[i], 2, 2, g[i])
=============================================================================
