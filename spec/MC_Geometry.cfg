CONSTANTS P = 1
 N = 3
INIT Init
NEXT Next
INVARIANT TranslationInvariant
INVARIANT PermutationInvariant
INVARIANT ScalingRule
INVARIANT OrthogonalRule
INVARIANT PairStatInvariant
CHECK_DEADLOCK FALSE
