------------------------------- MODULE MC_SDML -------------------------------
(***************************************************************************)
(* Sanity of the duality-gap certificate on 2x2 instances with a closed-   *)
(* form optimum, in exact rational arithmetic: when |E_12| <= alpha the    *)
(* optimum is M = diag(1/E_11, 1/E_22) with dual point W = diag(E_11,E_22);*)
(* then W is dual feasible, tr(E M) = 2, det(M) det(W) = 1 (i.e. logdet M  *)
(* + logdet W = 0, so the gap alpha*0 + tr(EM) - logdet M - logdet W - 2   *)
(* is exactly 0), and the sub-gradient optimality condition holds.         *)
(***************************************************************************)
EXTENDS RatDy, TLC
VARIABLES e11, e22, e12, alpha
Init == e11 \in 1..3 /\ e22 \in 1..3 /\ e12 \in {-2, -1, 0, 1, 2} /\ alpha \in 1..2
Next == UNCHANGED <<e11, e22, e12, alpha>>
Abs1(n) == IF n < 0 THEN -n ELSE n
Closed == Abs1(e12) <= alpha
M11 == RFrac(1, e11)
M22 == RFrac(1, e22)
TraceIsDim == Closed => REq(RAdd(RMul(RInt(e11), M11), RMul(RInt(e22), M22)), RInt(2))
DetProductOne == Closed => REq(RMul(RMul(M11, M22), RInt(e11 * e22)), ROne)
DualPointFeasible == Closed => (Abs1(0 - e12) <= alpha)          \* W_12 = 0 lies in the box around E_12
(* sub-gradient condition at the diagonal optimum: (E - M^-1)_12 + alpha * z = 0 for some z in [-1, 1] *)
SubgradientOK == Closed => \E zn \in -alpha..alpha : e12 + zn = 0
=============================================================================
