------------------------------ MODULE Calibrate ------------------------------
(***************************************************************************)
(* C16: what an optimal decision threshold IS.  A validation set is a pair *)
(* of sequences D (learned distances) and Y (labels in {-1,+1}).  A        *)
(* threshold t accepts (predicts +1 for) exactly the pairs with D[i] <= t. *)
(* Only finitely many cut-offs behave differently: "reject all" and "at v" *)
(* for each distinct distance v.  Criteria are compared as exact fractions *)
(* by cross-multiplication, over a parameterised ordered ring (integers in *)
(* MC_Calibrate, exact dyadics on recorded behaviours).                    *)
(***************************************************************************)
EXTENDS Integers, Sequences, FiniteSets
CONSTANTS Zero, Add(_, _), Mul(_, _), Leq(_, _), FromInt(_),
          Slack(_)     \* x |-> x (1 + eps): rates are compared as the doubles a user sees, i.e. a rate k/n that
                       \* differs from min_rate only by the rounding of min_rate (0.9 vs 9/10) counts as equal;
                       \* identity in the exact integer model

Idx(D) == 1..Len(D)
Pos(Y) == Cardinality({i \in 1..Len(Y) : Y[i] = 1})
Neg(Y) == Cardinality({i \in 1..Len(Y) : Y[i] = -1})

(* confusion counts when exactly the pairs with D[i] <= t are accepted *)
TPAt(D, Y, t) == Cardinality({i \in Idx(D) : Y[i] = 1 /\ Leq(D[i], t)})
FPAt(D, Y, t) == Cardinality({i \in Idx(D) : Y[i] = -1 /\ Leq(D[i], t)})
CountsAt(D, Y, t) == [tp |-> TPAt(D, Y, t), fp |-> FPAt(D, Y, t),
                      fn |-> Pos(Y) - TPAt(D, Y, t), tn |-> Neg(Y) - FPAt(D, Y, t)]
RejectAll(Y) == [tp |-> 0, fp |-> 0, fn |-> Pos(Y), tn |-> Neg(Y)]

(* the finite set of achievable confusion counts *)
Achievable(D, Y) == {RejectAll(Y)} \cup {CountsAt(D, Y, D[i]) : i \in Idx(D)}

(* n1/d1 >= n2/d2 for non-negative ring elements, a fraction with zero denominator counting as 0 *)
GeqFrac(n1, d1, n2, d2) ==
  IF d2 = Zero THEN TRUE
  ELSE IF d1 = Zero THEN n2 = Zero
  ELSE Leq(Mul(n2, d1), Mul(n1, d2))

(* F-beta = (1+b2) tp / ((1+b2) tp + b2 fn + fp), with b2 = beta^2 a ring element *)
FNum(c, b2) == Mul(Add(FromInt(1), b2), FromInt(c.tp))
FDen(c, b2) == Add(Add(FNum(c, b2), Mul(b2, FromInt(c.fn))), FromInt(c.fp))

Feasible(strategy, c, Y, minRate) ==
  CASE strategy = "max_tpr" -> Leq(Mul(minRate, FromInt(Neg(Y))), Slack(FromInt(c.tn)))     \* TNR >= min_rate
    [] strategy = "max_tnr" -> Leq(Mul(minRate, FromInt(Pos(Y))), Slack(FromInt(c.tp)))     \* TPR >= min_rate
    [] OTHER -> TRUE

(* a at least as good as b for the criterion *)
BetterEq(strategy, a, b, b2) ==
  CASE strategy = "accuracy" -> a.tp + a.tn >= b.tp + b.tn
    [] strategy = "f_beta"   -> GeqFrac(FNum(a, b2), FDen(a, b2), FNum(b, b2), FDen(b, b2))
    [] strategy = "max_tpr"  -> a.tp >= b.tp
    [] strategy = "max_tnr"  -> a.tn >= b.tn

(* counts c are optimal: feasible, and no achievable feasible counts are strictly better *)
OptimalCounts(strategy, c, D, Y, b2, minRate) ==
  /\ Feasible(strategy, c, Y, minRate)
  /\ \A o \in Achievable(D, Y) : Feasible(strategy, o, Y, minRate) => BetterEq(strategy, c, o, b2)

(* the stored threshold thr is optimal on the validation set *)
OptimalThreshold(strategy, thr, D, Y, b2, minRate) ==
  OptimalCounts(strategy, CountsAt(D, Y, thr), D, Y, b2, minRate)

(* ---- parameter validation table (documented in calibrate_threshold) ---- *)
Strategies == {"accuracy", "f_beta", "max_tpr", "max_tnr"}
(* minRateKind \in {"none","nonnumber","below0","above1","ok"}, betaKind \in {"none","nonnumber","ok"} *)
ParamsValid(strategy, minRateKind, betaKind) ==
  /\ strategy \in Strategies
  /\ strategy \in {"max_tpr", "max_tnr"} => minRateKind = "ok"
  /\ strategy = "f_beta" => betaKind = "ok"
=============================================================================
