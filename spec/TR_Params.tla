------------------------------ MODULE TR_Params ------------------------------
(***************************************************************************)
(* Trace spec for the parameter store of real estimators.  The harness     *)
(* assigns an integer token to every distinct Python object it passes in   *)
(* (and to every default object of the constructor signature, read at run  *)
(* time with inspect.signature) and logs, after each call, the tokens of   *)
(* the objects returned by get_params() (0 = an object never passed in).   *)
(* Events: Construct(kw), SetParams(kw), GetParams, AliasFit (a deprecated *)
(* alias given a non-default value, then fit: FutureWarning, and the model *)
(* equals the one obtained with the replacement parameter), UnfittedCall.  *)
(***************************************************************************)
EXTENDS Params, TLC, Json, IOUtils
Batch  == JsonDeserialize(IOEnv.TRACE_FILE)
Traces == Batch.traces
VARIABLES tid, l, store, fails, ex
vars == <<tid, l, store, fails, ex>>

Tr == Traces[tid]
AsFun(rec) == rec       \* JSON objects deserialise to records = functions on strings

Same(logged, expected) == DOMAIN logged = DOMAIN expected /\ \A k \in DOMAIN expected : logged[k] = expected[k]

R(st, f, e) == [st |-> st, fails |-> f, ex |-> e]
Step(st, ev) ==
  CASE ev.ev = "Construct" ->
         LET s == Construct(Tr.defaults, ev.kw)
         IN IF ev.exc # "" THEN R(st, {}, {"C18.constructor_rejected_the_value"})   \* nothing constructed, nothing stored
            ELSE R(s, IF Same(ev.gp, s) THEN {} ELSE {"C18.constructor_stores_arguments_untouched"},
                   {"C18.constructor_stores_arguments_untouched"})
    [] ev.ev = "SetParams" ->
         LET s == SetParams(st, ev.kw)
         IN R(s, IF ev.exc = "" /\ Same(ev.gp, s) THEN {} ELSE {"C18.set_params_stores_arguments_untouched"},
              {"C18.set_params_stores_arguments_untouched"})
    [] ev.ev = "GetParams" ->
         R(st, IF Same(ev.gp, st) THEN {} ELSE {"C18.get_params_returns_identical_objects"},
           {"C18.get_params_returns_identical_objects"})
    [] ev.ev = "AliasFit" ->
         R(st, (IF ev.alias \in DOMAIN Aliases /\ Aliases[ev.alias] = ev.replacement THEN {} ELSE {"C18.alias_table"})
               \cup (IF ev.future_warning THEN {} ELSE {"C18.deprecated_alias_warns"})
               \cup (IF ev.model_alias = ev.model_replacement THEN {} ELSE {"C18.deprecated_alias_maps_to_replacement"})
               \* the alias-built estimator after set_params(<replacement> = another value): its clone is constructed, carries
               \* the value set, and learns what an estimator constructed with that value learns
               \cup (IF ev.clone_exc = "" /\ ev.clone_value_ok /\ ev.model_clone = ev.model_direct THEN {}
                     ELSE {"C18.clone_after_set_params_on_an_alias_built_estimator_reproduces_it"}),
           {"C18.deprecated_alias_warns", "C18.deprecated_alias_maps_to_replacement",
            "C18.clone_after_set_params_on_an_alias_built_estimator_reproduces_it"})
    [] ev.ev = "UnfittedCall" ->
         R(st, IF ev.exc = "NotFittedError" THEN {} ELSE {"C18.unfitted_use_raises_NotFittedError"},
           {"C18.unfitted_use_raises_NotFittedError"})
    [] OTHER -> R(st, {"TRACE.unknown_event"}, {})

Init == tid \in 1..Len(Traces) /\ l = 1 /\ store = Traces[tid].defaults /\ fails = {} /\ ex = {}
Next == /\ l <= Len(Tr.events)
        /\ LET r == Step(store, Tr.events[l])
           IN  store' = r.st /\ ex' = ex \cup r.ex
               /\ fails' = fails \cup {c \o "@" \o ToString(l) : c \in r.fails}
        /\ l' = l + 1 /\ UNCHANGED tid
Done   == l = Len(Tr.events) + 1
Report == Done => PrintT(<<"VERDICT", Tr.tid, fails, ex>>)
=============================================================================
