CONSTANTS Params = {1, 2, 3}
 Data = {1, 2}
 Dim <- DimOf
 Canon <- CanonOf
 HasFitTransform = TRUE
 HasCrossVal = TRUE
 Thresholds = {1}
 ValSets = {1}
 Strategies = {"accuracy"}
 Queries = {"predict"}
 HasThreshold = TRUE
 MaxObjs = 2
 MaxHandles = 1
 Depth = 6
SPECIFICATION Spec
VIEW View
CONSTRAINT BoundedDepth
INVARIANT TypeOK
INVARIANT NfeatOfLastFit
INVARIANT ThresholdNeedsFit
INVARIANT FitThresholdIsCurrent
INVARIANT PrepOnlyWhenFitted
PROPERTY OnlyFitChangesModel
PROPERTY OnlyThreeActionsChangeThreshold
PROPERTY OnlySetParamsChangesParams
PROPERTY OnlyFitAndCalibrateChangePreprocessorInForce
PROPERTY HandlesImmutable
PROPERTY ObjectsNeverDisappear
PROPERTY FitIsHistoryIndependent
CHECK_DEADLOCK FALSE
