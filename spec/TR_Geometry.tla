----------------------------- MODULE TR_Geometry -----------------------------
(***************************************************************************)
(* Trace spec for C19.  An event holds two real fits of the same estimator *)
(* (original and transformed training data) and the learned distances of   *)
(* both models on CORRESPONDING query pairs, plus the two learned matrices.*)
(* TLC checks the relation that Geometry.tla prescribes for the            *)
(* transformation, for the estimators the statement lists.                 *)
(***************************************************************************)
EXTENDS DyMat, TLC, Json, IOUtils
GE == INSTANCE Geometry WITH Zero <- Zero, Add <- Add, Mul <- Mul, Sub <- Sub, Leq <- Leq
Batch  == JsonDeserialize(IOEnv.TRACE_FILE)
Traces == Batch.traces
VARIABLES tid, l, fails, ex
vars == <<tid, l, fails, ex>>
R(f, e) == [fails |-> f, ex |-> e]

All17 == {"Covariance", "LFDA", "LMNN", "NCA", "MLKR", "RCA", "RCA_Supervised", "ITML", "ITML_Supervised", "MMC",
          "MMC_Supervised", "SDML", "SDML_Supervised", "LSML", "LSML_Supervised", "SCML", "SCML_Supervised"}
(* which estimators the statement lists for which relation *)
Applies(rel, est, opt) ==
  CASE rel = "translation" -> est \in All17
    [] rel = "swap"        -> est \in {"ITML", "MMC", "SDML", "LSML"}
    [] rel = "permutation" -> est \in {"Covariance", "RCA"}
    [] rel = "scaling"     -> est \in {"Covariance", "RCA"}
    [] rel = "orthogonal"  -> \/ est \in {"Covariance", "RCA", "LFDA"}
                              \/ est = "LMNN" /\ opt = "identity"
                              \/ est \in {"ITML", "LSML", "MMC"} /\ opt \in {"identity", "covariance"}
    [] OTHER -> FALSE

(* equal up to rounding: the two fits run the same arithmetic on inputs that differ in the last bits.  Closed-form and   *)
(* gradient learners: 2^-15 relative (+ 2^-30 of the largest distance).  Learners that stop on a tolerance amplify the     *)
(* last-bit differences up to that tolerance: the cyclic-projection / projected-gradient solvers (ITML, LSML, MMC) 2^-10,  *)
(* SDML (scikit-learn's graphical lasso stops at a dual gap of 1e-4) 2^-5.  A broken invariance is O(10%) and more.        *)
RelTol(est) == IF est \in {"SDML", "SDML_Supervised"} THEN <<1, -1, <<1024>>>>
               ELSE IF est \in {"ITML", "ITML_Supervised", "LSML", "LSML_Supervised", "MMC", "MMC_Supervised"} THEN <<1, -1, <<32>>>>
               ELSE <<1, -1, <<1>>>>
CloseRel(a, b, est, scale) == Leq(Abs(Sub(a, b)), Add(Mul(Max(Abs(a), Abs(b)), RelTol(est)), Shift(scale, -2)))
SameDistancesE(a, b, est) ==
  /\ Len(a) = Len(b) /\ Len(a) > 0 /\ AllFinV(a) /\ AllFinV(b)
  /\ \A i \in 1..Len(a) : CloseRel(a[i], b[i], est, MaxAbsV(a))

Step(ev) ==
  IF ~Applies(ev.rel, ev.est, ev.opt) THEN R({}, {"C19.not_listed_for_this_estimator"})
  ELSE IF ev.exc # "" THEN R({"C19.fit_returns"}, {})
  ELSE LET c == "C19." \o ev.rel IN
    CASE ev.rel \in {"translation", "swap", "permutation"} ->
           R(IF SameDistancesE(ev.d0, ev.d1, ev.est) THEN {} ELSE {c}, {c})
      [] ev.rel = "scaling" ->
           R(IF SameDistancesE(ev.d0, [i \in 1..Len(ev.d1) |-> Mul(ev.d1[i], ev.c)], ev.est) THEN {} ELSE {c}, {c})
      [] ev.rel = "orthogonal" ->
           R((IF SameDistancesE(ev.d0, ev.d1, ev.est) THEN {} ELSE {c})
             \cup (IF GE!IsOrthogonal(ev.Q, One) /\ AllFinM(ev.M0) /\ AllFinM(ev.M1)
                      /\ LET C == GE!Conjugate(ev.M0, ev.Q) IN
                           \A i \in 1..Len(C) : \A j \in 1..Len(C) : Leq(Abs(Sub(ev.M1[i][j], C[i][j])), Add(Mul(MaxAbsM(ev.M0), RelTol(ev.est)), Shift(MaxAbsM(ev.M0), -2)))
                   THEN {} ELSE {"C19.orthogonal_conjugates_M"}),
             {c, "C19.orthogonal_conjugates_M"})

Init == tid \in 1..Len(Traces) /\ l = 1 /\ fails = {} /\ ex = {}
Next == /\ l <= Len(Traces[tid].events)
        /\ LET r == Step(Traces[tid].events[l])
           IN  fails' = fails \cup {x \o "@" \o ToString(l) : x \in r.fails} /\ ex' = ex \cup r.ex
        /\ l' = l + 1 /\ UNCHANGED tid
Done   == l = Len(Traces[tid].events) + 1
Report == Done => PrintT(<<"VERDICT", Traces[tid].tid, fails, ex>>)
=============================================================================
