-------------------------------- MODULE TR_PSD --------------------------------
(***************************************************************************)
(* Trace spec for C20: components_from_metric on matrices that carry an    *)
(* exact spectral certificate, and the prior / init constructors           *)
(* (_initialize_metric_mahalanobis, _initialize_components) observed       *)
(* directly.  All numbers are exact dyadics; every irrational quantity     *)
(* (Cholesky factor, inverse) enters as a witness that TLC checks.         *)
(***************************************************************************)
EXTENDS DyMat, Options, TLC, Json, IOUtils
PS == INSTANCE PSD WITH Zero <- Zero, Add <- Add, Mul <- Mul, Sub <- Sub, Leq <- Leq
Batch  == JsonDeserialize(IOEnv.TRACE_FILE)
Traces == Batch.traces
VARIABLES tid, l, fails, ex
vars == <<tid, l, fails, ex>>
R(f, e) == [fails |-> f, ex |-> e]
G(c, ok) == IF ok THEN {} ELSE {c}
Eps52 == <<1, -4, <<256>>>>                      \* 2^-52 = 2^8 * B^-4
IdentM(n) == [i \in 1..n |-> [j \in 1..n |-> IF i = j THEN One ELSE Zero]]
EyeKD(k, d) == [i \in 1..k |-> [j \in 1..d |-> IF i = j THEN One ELSE Zero]]

(* ---------- components_from_metric ---------- *)
FromMetricStep(ev) ==
  LET d     == Len(ev.Vs)
      eig   == [i \in 1..d |-> Mul(ev.s2, ev.w[i])]
      mx    == MaxAbsV(eig)
      T     == IF ev.tol_given THEN ev.tol ELSE Mul(Mul(mx, FromInt(d)), Eps52)
      certOK == PS!IsScaledOrthogonal(ev.Vs, ev.s2) /\ PS!Reconstruct(ev.Vs, ev.w) = ev.Msym
      verdict == PS!SpectrumVerdict(eig, T)
      ltl   == DM!Gram(ev.L)
  IN
  IF ~certOK THEN R({"TRACE.bad_spectral_certificate"}, {})
  ELSE IF ev.nonsym
       THEN R(G("C20.nonsymmetric_rejected_with_ValueError", ev.outcome = "ValueError"),
              {"C20.nonsymmetric_rejected_with_ValueError"})
  ELSE IF verdict = "reject"
       THEN R(G("C20.indefinite_rejected_with_NonPSDError", ev.outcome = "NonPSDError"),
              {"C20.indefinite_rejected_with_NonPSDError"})
  ELSE IF verdict = "accept"
       THEN R(G("C20.psd_converted", ev.outcome = "ok")
              \cup (IF ev.outcome = "ok"
                    THEN G("C20.LtL_equals_M", AllFinM(ev.L) /\ Len(ltl) = d /\
                             \A i \in 1..d : \A j \in 1..d :
                                Leq(Abs(Sub(ltl[i][j], ev.Msym[i][j])),
                                    Add(Shift(mx, -2), PS!Four(Mul(T, FromInt(d))))))
                    ELSE {}),
              {"C20.psd_converted", "C20.LtL_equals_M"})
  ELSE R({}, {"C20.spectrum_in_unspecified_band"})

(* ---------- _initialize_metric_mahalanobis ---------- *)
RowSet(P) == {P[i] : i \in 1..Len(P)}
SeqOfSet(S) == LET RECURSIVE F(_) F(s) == IF s = {} THEN <<>> ELSE LET x == CHOOSE x \in s : TRUE IN <<x>> \o F(s \ {x}) IN F(S)
(* n(n-1) * covariance of the rows of X, exactly: n * sum x x^T - (sum x)(sum x)^T *)
ScatterN(X) ==
  LET n == Len(X)  d == Len(X[1])
      s == [j \in 1..d |-> DM!Sum([i \in 1..n |-> X[i][j]])]
  IN [a \in 1..d |-> [b \in 1..d |->
        Sub(Mul(FromInt(n), DM!Sum([i \in 1..n |-> Mul(X[i][a], X[i][b])])), Mul(s[a], s[b]))]]

InitMetricStep(ev) ==
  LET d == ev.d IN
  CASE ev.init = "identity" ->
         R(G("C20.identity_prior_is_identity", ev.outcome = "ok" /\ ev.M = IdentM(d)), {"C20.identity_prior_is_identity"})
    [] ev.init = "covariance" ->
         LET X  == SeqOfSet(RowSet(ev.pts))                 \* the DISTINCT points
             n  == Len(X)
             S  == ScatterN(X)
             k  == FromInt(n * (n - 1))
             sc == MaxAbsM(S)
             MS == DM!MatMul(ev.M, S)
         IN R(G("C20.covariance_prior_is_inverse_covariance_of_distinct_points",
                ev.outcome = "ok" /\ AllFinM(ev.M) /\
                \* M C = I  <=>  M S = n(n-1) I   (full-rank covariance: the stated quantifier)
                ApproxM(MS, [i \in 1..d |-> [j \in 1..d |-> IF i = j THEN k ELSE Zero]], 2, 2, k)),
              {"C20.covariance_prior_is_inverse_covariance_of_distinct_points"})
    [] ev.init = "random" ->
         R(G("C20.random_prior_seed_reproducible", ev.outcome = "ok" /\ ev.M = ev.M2)
           \cup G("C20.random_prior_is_SPD",
                  ev.outcome = "ok" /\ AllFinM(ev.M) /\ AllFinM(ev.chol) /\ Len(ev.chol) = d
                  /\ (\A i \in 1..d : IsPos(ev.chol[i][i]))
                  /\ ApproxM(DM!Gram(ev.chol), ev.M, 2, 2, MaxAbsM(ev.M))
                  /\ \A i \in 1..d : \A j \in 1..d : Approx(ev.M[i][j], ev.M[j][i], 2, 2, MaxAbsM(ev.M))),
           {"C20.random_prior_seed_reproducible", "C20.random_prior_is_SPD"})
    [] ev.init = "array" ->
         CASE ev.arr_class = "spd" ->
                R(G("C20.array_prior_used_as_given", ev.outcome = "ok" /\ ev.M = ev.arr), {"C20.array_prior_used_as_given"})
           [] ev.arr_class = "singular" ->
                R(IF ev.strict THEN G("C20.strict_pd_rejects_singular_prior", ev.outcome # "ok")
                  ELSE G("C20.array_prior_used_as_given", ev.outcome = "ok" /\ ev.M = ev.arr),
                  {"C20.strict_pd_rejects_singular_prior"})
           [] ev.arr_class = "nonsym" ->
                R(G("C20.array_prior_symmetry_checked", ev.outcome = "ValueError"), {"C20.array_prior_symmetry_checked"})
           [] ev.arr_class = "wrongshape" ->
                R(G("C20.array_prior_shape_checked", ev.outcome = "ValueError"), {"C20.array_prior_shape_checked"})
           [] ev.arr_class = "indefinite" ->
                R(G("C20.array_prior_psd_checked", ev.outcome = "NonPSDError"), {"C20.array_prior_psd_checked"})
InverseStep(ev) ==
  R(G("C20.returned_inverse_is_inverse", AllFinM(ev.M) /\ AllFinM(ev.Minv) /\
        ApproxM(DM!MatMul(ev.M, ev.Minv), IdentM(ev.d), 2, 2, Mul(MaxAbsM(ev.M), MaxAbsM(ev.Minv)))),
    {"C20.returned_inverse_is_inverse"})

(* ---------- _pseudo_inverse_from_eig ---------- *)
(* P = V diag(g) V^T with g_i = 1 / w_i when |w_i| > tol and 0 otherwise, tol = max(w) * n * eps unless given.        *)
(* V = Vs / sqrt(s2) with Vs an exact scaled-orthogonal integer matrix, so Q = Vs^T P Vs = s2 * diag(g): checked      *)
(* without any division (Q_ii w_i = s2 for kept eigenvalues).  An eigenvalue within a factor 2 of tol follows the code. *)
MaxV(v) == LET RECURSIVE Mx(_) Mx(i) == IF i = Len(v) THEN v[i] ELSE LET r == Mx(i + 1) IN IF Lt(v[i], r) THEN r ELSE v[i] IN Mx(1)
PinvStep(ev) ==
  LET d    == Len(ev.w)
      tol  == IF ev.tol_given THEN ev.tol ELSE Mul(Mul(MaxV(ev.w), FromInt(d)), Eps52)
      Q    == TLCEval(DM!MatMul(DM!Transpose(ev.Vs), TLCEval(DM!MatMul(ev.P, ev.Vs))))   \* (forced: TLC evaluates function constructors lazily, per application)
      kept(i)    == Gt(Abs(ev.w[i]), Add(tol, tol))
      dropped(i) == Leq(Add(Abs(ev.w[i]), Abs(ev.w[i])), tol)
      qs   == MaxAbsM(Q)
      small(x) == Leq(Abs(x), Shift(qs, -3))          \* 2^-45 of the largest entry
  IN
  IF ~PS!IsScaledOrthogonal(ev.Vs, ev.s2) THEN R({"TRACE.bad_spectral_certificate"}, {})
  ELSE R(G("C20.pseudo_inverse_inverts_eigenvalues_above_cutoff_and_zeroes_the_rest",
           ev.outcome = "ok" /\ AllFinM(ev.P) /\
           (\A i \in 1..d : \A j \in 1..d : i # j => small(Q[i][j])) /\
           (\A i \in 1..d : (kept(i) => Leq(Abs(Sub(Mul(Q[i][i], ev.w[i]), ev.s2)),
                                               \* 2^-30 relative + the rounding noise of the largest entries (2^-45 |Q|max) seen through w_i
                                               Add(Shift(ev.s2, -2), Mul(Abs(ev.w[i]), Shift(qs, -3)))))
                            /\ (dropped(i) => small(Q[i][i])))),
         {"C20.pseudo_inverse_inverts_eigenvalues_above_cutoff_and_zeroes_the_rest"})

(* ---------- _initialize_components ---------- *)
InitComponentsStep(ev) ==
  CASE ev.init = "identity" ->
         R(G("C20.identity_init_is_truncated_identity", ev.outcome = "ok" /\ ev.L = EyeKD(ev.k, ev.d)),
           {"C20.identity_init_is_truncated_identity"})
    [] ev.init = "random" ->
         R(G("C20.random_init_seed_reproducible", ev.outcome = "ok" /\ ev.L = ev.L2 /\ Len(ev.L) = ev.k /\
              \A i \in 1..ev.k : Len(ev.L[i]) = ev.d), {"C20.random_init_seed_reproducible"})
    [] ev.init = "auto" ->
         LET sel == AutoSelect(ev.has_classes, ev.d, ev.n, ev.k, ev.ncls)
             want == CASE sel = "lda" -> ev.cand_lda [] sel = "pca" -> ev.cand_pca [] OTHER -> ev.cand_identity
         IN R(G("C20.auto_init_follows_selection_rule", ev.outcome = "ok" /\ ev.L = want),
              {"C20.auto_init_follows_selection_rule"})
    [] ev.init = "pca" ->
         R(G("C20.pca_init_shape_orthonormal", ev.outcome = "ok" /\ Len(ev.L) = ev.k /\
              ApproxM(DM!MatMul(ev.L, DM!Transpose(ev.L)), IdentM(ev.k), 2, 2, One)),
           {"C20.pca_init_shape_orthonormal"})
    [] ev.init = "lda" ->
         R(G("C20.lda_init_shape", ev.outcome = "ok" /\ Len(ev.L) = ev.k /\ \A i \in 1..ev.k : Len(ev.L[i]) = ev.d),
           {"C20.lda_init_shape"})
    [] ev.init = "array" ->
         CASE ev.arr_class = "ok" ->
                R(G("C20.array_init_used_as_given", ev.outcome = "ok" /\ ev.L = ev.arr), {"C20.array_init_used_as_given"})
           [] OTHER ->
                R(G("C20.array_init_shape_checked", ev.outcome = "ValueError"), {"C20.array_init_shape_checked"})

Step(ev) == CASE ev.ev = "FromMetric" -> FromMetricStep(ev)
              [] ev.ev = "InitMetric" -> InitMetricStep(ev)
              [] ev.ev = "Inverse" -> InverseStep(ev)
              [] ev.ev = "PseudoInverse" -> PinvStep(ev)
              \* an integer-typed SPD array as prior / init gives the model the same numbers as a float array give
              [] ev.ev = "ArrayPriorDtype" ->
                   R(G("C20.array_prior_used_as_given_whatever_its_dtype",
                       \* (the same numbers up to rounding: another dtype / memory layout changes the order of the floating-point sums, which an
                       \*  ill-conditioned fit amplifies - 2^-15 of the largest entry, as for C06's equivalent array-likes)
                       \* (compared as METRICS L^T L: a nearly singular M may be factorised by Cholesky in one run and by its eigen-decomposition in the other)
                       ev.outcome_int = "ok" /\ Len(ev.L_int) > 0 /\
                       LET Mi == DM!Gram(ev.L_int)  Mf == DM!Gram(ev.L_float) IN ApproxM(Mi, Mf, 1, 1, MaxAbsM(Mf))),
                     {"C20.array_prior_used_as_given_whatever_its_dtype"})
              [] ev.ev = "InitComponents" -> InitComponentsStep(ev)
              [] OTHER -> R({"TRACE.unknown_event"}, {})
Init == tid \in 1..Len(Traces) /\ l = 1 /\ fails = {} /\ ex = {}
Next == /\ l <= Len(Traces[tid].events)
        /\ LET r == Step(Traces[tid].events[l])
           IN  fails' = fails \cup {x \o "@" \o ToString(l) : x \in r.fails} /\ ex' = ex \cup r.ex
        /\ l' = l + 1 /\ UNCHANGED tid
Done   == l = Len(Traces[tid].events) + 1
Report == Done => PrintT(<<"VERDICT", Traces[tid].tid, fails, ex>>)
=============================================================================
