-------------------------------- MODULE ITML --------------------------------
(***************************************************************************)
(* C11: ITML's LogDet program and its cyclic Bregman projections.          *)
(*                                                                         *)
(* Problem: minimise  D_ld(M, M0) + gamma * D_ld(diag(xi), diag(xi0))      *)
(*   s.t.  v_i^T M v_i <= xi_i (similar pairs, y_i = +1)                   *)
(*         v_i^T M v_i >= xi_i (dissimilar pairs, y_i = -1).               *)
(* KKT / invariant of the projections (lambda: duals, one per constraint): *)
(*   (K1) M symmetric positive definite                                    *)
(*   (K2) M^-1 - M0^-1 = SUM_i y_i lambda_i v_i v_i^T,   lambda_i >= 0      *)
(*   (K2') 1/xi_i = 1/xi0_i - y_i lambda_i / gamma                          *)
(*   (K3, at convergence) lambda_i = 0 and the slack-adjusted bound holds,  *)
(*        or the constraint is tight: v_i^T M v_i = xi_i                    *)
(*   (K4) if the prior satisfies all bounds, M = M0.                        *)
(* The one-constraint projection (one solver step) is given over exact      *)
(* rationals for the 1-D model MC_ITML, where v, A, xi are scalars.         *)
(***************************************************************************)
EXTENDS RatDy, Sequences

(* ---- one projection in dimension 1 (all quantities rationals) ---- *)
(* state s = [A, lam (seq), xi (seq)], constraint i = [v, y], gamma rational or "inf" *)
GammaInf == <<Zero, Zero>>            \* gamma = infinity (denominator 0 as the sentinel)
IsInf(g) == IsZero(g[2])
GammaProj(g) == IF IsInf(g) THEN ROne ELSE RDiv(g, RAdd(g, ROne))
Project(s, i, c, g) ==
  LET p  == RMul(RMul(c.v, c.v), s.A)                          \* v^T A v
      r  == IF c.y = 1 THEN RSub(RInv(p), RInv(s.xi[i])) ELSE RSub(RInv(s.xi[i]), RInv(p))
      al == RMin(s.lam[i], RMul(GammaProj(g), r))
      be == IF c.y = 1 THEN RDiv(al, RSub(ROne, RMul(al, p))) ELSE RDiv(RNeg(al), RAdd(ROne, RMul(al, p)))
      Av == RMul(s.A, c.v)
      xi1 == IF IsInf(g) THEN s.xi[i]
             ELSE IF c.y = 1 THEN RInv(RAdd(RInv(s.xi[i]), RDiv(al, g)))
             ELSE RInv(RSub(RInv(s.xi[i]), RDiv(al, g)))
  IN [A |-> RAdd(s.A, RMul(be, RMul(Av, Av))),
      lam |-> [s.lam EXCEPT ![i] = RSub(s.lam[i], al)],
      xi |-> [s.xi EXCEPT ![i] = xi1]]

RECURSIVE RSumSeq(_, _)
RSumSeq(q, i) == IF i > Len(q) THEN RZero ELSE RAdd(q[i], RSumSeq(q, i + 1))
(* (K2) in 1-D: 1/A - 1/A0 = SUM y_i lam_i v_i^2 *)
K2Scalar(s, A0, cs) ==
  REq(RSub(RInv(s.A), RInv(A0)),
      RSumSeq([i \in 1..Len(cs) |-> RMul(RMul(IF cs[i].y = 1 THEN s.lam[i] ELSE RNeg(s.lam[i]), cs[i].v), cs[i].v)], 1))
SlackRelation(s, xi0, cs, g) ==
  \A i \in 1..Len(cs) :
     IF IsInf(g) THEN REq(s.xi[i], xi0[i])
     ELSE REq(RInv(s.xi[i]), RSub(RInv(xi0[i]), RDiv(IF cs[i].y = 1 THEN s.lam[i] ELSE RNeg(s.lam[i]), g)))
DualFeasible(s) == \A i \in 1..Len(s.lam) : RLeq(RZero, s.lam[i])
(* a fixed point of all projections satisfies (K3) *)
IsFixedPoint(s, cs, g) == \A i \in 1..Len(cs) : Project(s, i, cs[i], g) = s \/ REq(Project(s, i, cs[i], g).A, s.A)
K3Scalar(s, cs) ==
  \A i \in 1..Len(cs) :
     LET p == RMul(RMul(cs[i].v, cs[i].v), s.A) IN
     \/ REq(p, s.xi[i])
     \/ RIsZero(s.lam[i]) /\ (IF cs[i].y = 1 THEN RLeq(p, s.xi[i]) ELSE RLeq(s.xi[i], p))
=============================================================================
