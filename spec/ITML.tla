-------------------------------- MODULE ITML --------------------------------
(***************************************************************************)
(* C11: ITML's LogDet program and its cyclic Bregman projections.          *)
(*                                                                         *)
(* Problem: minimise  D_ld(M, M0) + gamma * D_ld(diag(xi), diag(xi0))      *)
(*   s.t.  v_i^T M v_i <= xi_i (similar pairs, y_i = +1)                   *)
(*         v_i^T M v_i >= xi_i (dissimilar pairs, y_i = -1).               *)
(* KKT / invariant of the projections (lambda: duals, one per constraint): *)
(*   (K1) M symmetric positive definite                                    *)
(*   (K2) M^-1 - M0^-1 = SUM_i y_i lambda_i v_i v_i^T,   lambda_i >= 0      *)
(*   (K2') 1/xi_i = 1/xi0_i - y_i lambda_i / gamma                          *)
(*   (K3, at convergence) lambda_i = 0 and the slack-adjusted bound holds,  *)
(*        or the constraint is tight: v_i^T M v_i = xi_i                    *)
(*   (K4) if the prior satisfies all bounds, M = M0.                        *)
(* The one-constraint projection (one solver step) is given over exact      *)
(* rationals for the 1-D model MC_ITML, where v, A, xi are scalars.         *)
(***************************************************************************)
EXTENDS RatDy, Sequences

(* ---- one projection in dimension 1 (all quantities rationals) ---- *)
(* state s = [A, lam (seq), xi (seq)], constraint i = [v, y], gamma rational or "inf" *)
GammaInf == <<Zero, Zero>>            \* gamma = infinity (denominator 0 as the sentinel)
IsInf(g) == IsZero(g[2])
GammaProj(g) == IF IsInf(g) THEN ROne ELSE RDiv(g, RAdd(g, ROne))
Project(s, i, c, g) ==
  LET p  == RMul(RMul(c.v, c.v), s.A)                          \* v^T A v
      r  == IF c.y = 1 THEN RSub(RInv(p), RInv(s.xi[i])) ELSE RSub(RInv(s.xi[i]), RInv(p))
      al == RMin(s.lam[i], RMul(GammaProj(g), r))
      be == IF c.y = 1 THEN RDiv(al, RSub(ROne, RMul(al, p))) ELSE RDiv(RNeg(al), RAdd(ROne, RMul(al, p)))
      Av == RMul(s.A, c.v)
      xi1 == IF IsInf(g) THEN s.xi[i]
             ELSE IF c.y = 1 THEN RInv(RAdd(RInv(s.xi[i]), RDiv(al, g)))
             ELSE RInv(RSub(RInv(s.xi[i]), RDiv(al, g)))
  IN [A |-> RAdd(s.A, RMul(be, RMul(Av, Av))),
      lam |-> [s.lam EXCEPT ![i] = RSub(s.lam[i], al)],
      xi |-> [s.xi EXCEPT ![i] = xi1]]

RECURSIVE RSumSeq(_, _)
RSumSeq(q, i) == IF i > Len(q) THEN RZero ELSE RAdd(q[i], RSumSeq(q, i + 1))
(* (K2) in 1-D: 1/A - 1/A0 = SUM y_i lam_i v_i^2 *)
K2Scalar(s, A0, cs) ==
  REq(RSub(RInv(s.A), RInv(A0)),
      RSumSeq([i \in 1..Len(cs) |-> RMul(RMul(IF cs[i].y = 1 THEN s.lam[i] ELSE RNeg(s.lam[i]), cs[i].v), cs[i].v)], 1))
SlackRelation(s, xi0, cs, g) ==
  \A i \in 1..Len(cs) :
     IF IsInf(g) THEN REq(s.xi[i], xi0[i])
     ELSE REq(RInv(s.xi[i]), RSub(RInv(xi0[i]), RDiv(IF cs[i].y = 1 THEN s.lam[i] ELSE RNeg(s.lam[i]), g)))
DualFeasible(s) == \A i \in 1..Len(s.lam) : RLeq(RZero, s.lam[i])
(* a fixed point of all projections satisfies (K3) *)
IsFixedPoint(s, cs, g) == \A i \in 1..Len(cs) : Project(s, i, cs[i], g) = s \/ REq(Project(s, i, cs[i], g).A, s.A)
K3Scalar(s, cs) ==
  \A i \in 1..Len(cs) :
     LET p == RMul(RMul(cs[i].v, cs[i].v), s.A) IN
     \/ REq(p, s.xi[i])
     \/ RIsZero(s.lam[i]) /\ (IF cs[i].y = 1 THEN RLeq(p, s.xi[i]) ELSE RLeq(s.xi[i], p))
(***************************************************************************)
(* The machine in dimension d (growth of the specification beyond C11):    *)
(* the same projection with A a d x d matrix and v a vector of rationals,  *)
(* visited in the ORDER OF THE IMPLEMENTATION - one sweep runs over the    *)
(* constraints as given (the code puts the similar pairs first, then the   *)
(* dissimilar ones) - and the documented stopping rule, evaluated exactly: *)
(*   normsum = |lam|_2 + |lam_old|_2;  stop when normsum = 0 or when        *)
(*   SUM_i |lam_old_i - lam_i| / normsum < tol.                             *)
(* TR_ITML replays recorded fits of the real ITML against it (the duals    *)
(* and slack bounds are not logged: the machine carries them).             *)
(***************************************************************************)
RM == INSTANCE Mat WITH Zero <- RZero, Add <- RAdd, Mul <- RMul, Sub <- RSub, Leq <- RLeq

ProjectM(s, i, c, g) ==
  LET Av == RM!MatVec(s.A, c.v)
      p  == RM!Dot(c.v, Av)                                     \* v^T A v
      r  == IF c.y = 1 THEN RSub(RInv(p), RInv(s.xi[i])) ELSE RSub(RInv(s.xi[i]), RInv(p))
      al == RMin(s.lam[i], RMul(GammaProj(g), r))
      be == IF c.y = 1 THEN RDiv(al, RSub(ROne, RMul(al, p))) ELSE RDiv(RNeg(al), RAdd(ROne, RMul(al, p)))
      xi1 == IF IsInf(g) THEN s.xi[i]
             ELSE IF c.y = 1 THEN RInv(RAdd(RInv(s.xi[i]), RDiv(al, g)))
             ELSE RInv(RSub(RInv(s.xi[i]), RDiv(al, g)))
  IN [A |-> RM!MAdd(s.A, RM!MScale(be, RM!Outer(Av, Av))),
      lam |-> [s.lam EXCEPT ![i] = RSub(s.lam[i], al)],
      xi |-> [s.xi EXCEPT ![i] = xi1]]

RECURSIVE SweepFrom(_, _, _, _)
SweepFrom(s, cs, g, i) == IF i > Len(cs) THEN s ELSE SweepFrom(ProjectM(s, i, cs[i], g), cs, g, i + 1)
OneSweep(s, cs, g) == SweepFrom(s, cs, g, 1)
(* the states after 0, 1, ..., n sweeps *)
RECURSIVE SweepSeq(_, _, _, _)
SweepSeq(acc, cs, g, n) == IF n = 0 THEN acc ELSE SweepSeq(Append(acc, OneSweep(acc[Len(acc)], cs, g)), cs, g, n - 1)
MachineInit(A0, cs, lo, hi) ==
  [A |-> A0, lam |-> [i \in 1..Len(cs) |-> RZero] \o <<>>, xi |-> [i \in 1..Len(cs) |-> IF cs[i].y = 1 THEN lo ELSE hi] \o <<>>]

RAbs(a) == IF IsNeg(a[1]) THEN RNeg(a) ELSE a
RSq(a)  == RMul(a, a)
(* the stopping rule after a sweep that took the duals from lo_ (old) to ln (new), tolerance t >= 0 (a rational):   *)
(*   S < t (sqrt N1 + sqrt N2)  <=>  S^2 - t^2 (N1 + N2) < 2 t^2 sqrt(N1 N2)  - decided exactly by squaring once more *)
StopsAfter(lo_, ln, t) ==
  LET N1 == RSumSeq([i \in 1..Len(ln) |-> RSq(ln[i])] \o <<>>, 1)
      N2 == RSumSeq([i \in 1..Len(lo_) |-> RSq(lo_[i])] \o <<>>, 1)
      S  == RSumSeq([i \in 1..Len(ln) |-> RAbs(RSub(lo_[i], ln[i]))] \o <<>>, 1)
      t2 == RSq(t)
      lhs == RSub(RSq(S), RMul(t2, RAdd(N1, N2)))
  IN  \/ RIsZero(N1) /\ RIsZero(N2)
      \/ /\ ~(RIsZero(N1) /\ RIsZero(N2))
         /\ RIsPos(t)
         /\ \/ IsNeg(lhs[1])
            \/ RLt(RSq(lhs), RMul(RInt(4), RMul(RSq(t2), RMul(N1, N2))))
=============================================================================
