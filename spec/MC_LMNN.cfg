CONSTANTS OMax = 3
 MaxIter = 5
 MaxTries = 3
INIT Init
NEXT Next
INVARIANT AcceptedNonIncreasing
INVARIANT NeverWorseThanInit
INVARIANT ZeroIterationsReturnInit
INVARIANT CurrentIsLastAccepted
CHECK_DEADLOCK FALSE
