INIT Init
NEXT Next
INVARIANT TraceIsDim
INVARIANT DetProductOne
INVARIANT DualPointFeasible
INVARIANT SubgradientOK
CHECK_DEADLOCK FALSE
