------------------------------ MODULE MC_Params ------------------------------
(* Small exhaustive model of the parameter store: sequences of construct / *)
(* set_params / get_params over 3 names and 3 value tokens.  Invariant:    *)
(* what get_params returns is exactly what was last stored under each name *)
(* (tracked independently by a history variable).                          *)
EXTENDS Params, TLC
CONSTANTS Names, Tokens, DefaultTok, MaxOps
VARIABLES store, shadow, n
Defaults == [k \in Names |-> DefaultTok]
Subsets == SUBSET Names
Init == store = Defaults /\ shadow = Defaults /\ n = 0
DoConstruct == \E S \in Subsets : \E kw \in [S -> Tokens] :
                 /\ n < MaxOps /\ store' = Construct(Defaults, kw)
                 /\ shadow' = [k \in Names |-> IF k \in S THEN kw[k] ELSE DefaultTok] /\ n' = n + 1
DoSet == \E S \in Subsets : \E kw \in [S -> Tokens] :
                 /\ n < MaxOps /\ store' = SetParams(store, kw)
                 /\ shadow' = [k \in Names |-> IF k \in S THEN kw[k] ELSE shadow[k]] /\ n' = n + 1
Next == DoConstruct \/ DoSet
RoundTrip == GetParams(store) = shadow
Total == DOMAIN store = Names
=============================================================================
