------------------------------ MODULE TR_GradObj ------------------------------
(***************************************************************************)
(* Trace spec for C10.  A trace is one real fit of NCA / MLKR / LMNN:      *)
(*   Data   - the training set (and, for LMNN, the target-neighbour sets   *)
(*            the harness proposes as witness, k and regularization)       *)
(*   Eval   - one evaluation the optimiser asked for: the transformation,  *)
(*            the value and gradient the code returned (observed by        *)
(*            wrapping the module-level `minimize` / LMNN._loss_grad) and, *)
(*            for NCA / MLKR, the soft-max witness of GradObj.tla          *)
(*   Result - components_ after fit, the documented initialisation, the    *)
(*            optimiser's own iteration count                              *)
(* TLC recomputes the documented value and gradient at every evaluated L   *)
(* and remembers them, so that "no worse than the initial transformation", *)
(* "accepted LMNN iterates non-increasing" and "zero iterations => the     *)
(* initialisation" are decided on its own numbers.                         *)
(***************************************************************************)
EXTENDS GradObj, TLC, Json, IOUtils
Batch  == JsonDeserialize(IOEnv.TRACE_FILE)
Traces == Batch.traces
VARIABLES tid, l, st, fails, ex
vars == <<tid, l, st, fails, ex>>
R(s, f, e) == [st |-> s, fails |-> f, ex |-> e]
G(c, ok) == IF ok THEN {} ELSE {c}
InitSt == [algo |-> "", X |-> <<>>, y |-> <<>>, targets |-> <<>>, reg |-> Zero, evals |-> <<>>, dataOK |-> TRUE,
           \* the backtracking machine of LMNN (MC_LMNN), followed on the LOGGED numbers: step size, the accepted point
           \* (transformation, logged objective, logged gradient), its position in the history
           lr |-> Zero, up |-> One, curL |-> <<>>, curV |-> Zero, curG |-> <<>>, hasCur |-> FALSE]

Half == <<1, -1, <<16384>>>>                                  \* 2^14 / 2^15
CloseVal(a, b) == IsFin(a) /\ Approx(a, b, 1, 2, Add(Abs(b), One))            \* 2^-15 relative (+2^-30)
CloseGrad(A, C) == AllFinM(A) /\ Len(A) = Len(C) /\ ApproxM(A, C, 1, 2, Add(MaxAbsM(C), One))
\* ... plus 2^-45 * cond (GradObj: conditioning of the soft-max gradients w.r.t. the rounding of the logged P)
CloseGradC(A, C, cond) == AllFinM(A) /\ Len(A) = Len(C) /\ ApproxM(A, C, 1, 2, Add(Add(MaxAbsM(C), One), Shift(cond, -1)))

DataStep(s, ev) ==
  LET ok == IF ev.algo = "LMNN"
            THEN \A i \in 1..Len(ev.X) : IsTargetSet(ev.X, ev.y, i, {ev.targets[i][t] : t \in 1..Len(ev.targets[i])}, ev.k)
                                         /\ Len(ev.targets[i]) = ev.k
            ELSE TRUE
  IN R([s EXCEPT !.algo = ev.algo, !.X = ev.X, !.y = ev.y, !.targets = ev.targets, !.reg = ev.reg, !.dataOK = ok, !.lr = ev.learn_rate, !.up = ev.rate_up],
       {}, IF ok THEN {} ELSE {"X10.target_witness_rejected"})

EvalStep(s, ev) ==
  IF ~s.dataOK THEN R(s, {}, {})
  ELSE IF s.algo = "LMNN" /\ ev.light
  \* a LARGE training set (hundreds of samples, tens of thousands of hinge terms): the objective value only
  THEN LET v == LMNNValue(ev.L, s.X, s.y, s.targets, s.reg)
       IN R([s EXCEPT !.evals = Append(s.evals, <<ev.L, v>>)],
            G("C10.lmnn_value_is_documented_objective", CloseVal(ev.value, v)),
            {"C10.lmnn_value_is_documented_objective"})
  ELSE IF s.algo = "LMNN"
  THEN LET v == LMNNValue(ev.L, s.X, s.y, s.targets, s.reg)
           g == LMNNGrad(ev.L, s.X, s.y, s.targets, s.reg)
           near == LMNNNearTies(ev.L, s.X, s.y, s.targets)
           clear == LMNNActiveClear(ev.L, s.X, s.y, s.targets)
           \* ---- the backtracking machine (growth of the specification, clause prefix G10): every evaluation after the first
           \* is a TRIAL  L_cur - rate * gradient_cur  from the last accepted point; it is accepted iff its objective is not
           \* larger (the comparison the code makes, on the numbers it logged), after which the rate grows by the factor
           \* 1.01 (the double nearest to it, handed over in the Data event); otherwise the rate is halved.  The rate is not logged: the machine carries it.
           logged == AllFinM(ev.L) /\ IsFin(ev.value) /\ AllFinM(ev.grad)
           trial == DM!MSub(s.curL, DM!MScale(s.lr, s.curG))
           onSchedule == ~s.hasCur \/ ~logged \/
                         ApproxM(ev.L, trial, 2, 2, Add(MaxAbsM(s.curL), Mul(s.lr, MaxAbsM(s.curG))))
           accept == ~s.hasCur \/ ~IsPos(Sub(ev.value, s.curV))
           s1 == IF ~logged THEN s
                 ELSE IF accept THEN [s EXCEPT !.curL = ev.L, !.curV = ev.value, !.curG = ev.grad, !.hasCur = TRUE,
                                               !.lr = IF s.hasCur THEN Mul(s.lr, s.up) ELSE s.lr]
                 ELSE [s EXCEPT !.lr = Mul(s.lr, Half)]
       IN R([s1 EXCEPT !.evals = Append(s.evals, <<ev.L, v>>)],
            G("G10.lmnn_trial_point_follows_the_backtracking_schedule", onSchedule)
            \cup G("C10.lmnn_value_is_documented_objective", CloseVal(ev.value, v))
            \* (with a hinge at a near tie the sub-gradient the code takes is decided by rounding: value and count only)
            \cup (IF near = 0 THEN G("C10.lmnn_gradient_is_derivative_of_documented_objective", CloseGrad(ev.grad, g)) ELSE {})
            \cup G("C10.lmnn_active_constraint_count", clear <= ev.active /\ ev.active <= clear + near),
            {"C10.lmnn_value_is_documented_objective"}
            \cup (IF s.hasCur /\ logged THEN {"G10.lmnn_trial_point_follows_the_backtracking_schedule"} ELSE {})
            \cup (IF near = 0 THEN {"C10.lmnn_gradient_is_derivative_of_documented_objective"} ELSE {"X10.hinge_near_tie"}))
  ELSE IF ~SoftmaxWitnessOK(ev.L, s.X, ev.P, ev.a, ev.e, ev.Z)
       THEN R([s EXCEPT !.evals = Append(s.evals, <<ev.L, <<2, 0, <<>>>>>>)], {}, {"X10.softmax_witness_rejected"})
  ELSE IF s.algo = "NCA"
  THEN LET v == NCAValue(ev.P, s.y)
           g == NCAGrad(ev.L, s.X, ev.P, s.y)
       IN R([s EXCEPT !.evals = Append(s.evals, <<ev.L, Neg(v)>>)],      \* remembered as a quantity to MINIMISE
            G("C10.nca_value_is_documented_objective", CloseVal(ev.value, v))
            \cup G("C10.nca_gradient_is_derivative_of_documented_objective", CloseGradC(ev.grad, g, NCAGradCond(ev.L, s.X))),
            {"C10.nca_value_is_documented_objective", "C10.nca_gradient_is_derivative_of_documented_objective"})
  ELSE LET v == MLKRValue(ev.P, s.y)
           g == MLKRGrad(ev.L, s.X, ev.P, s.y)
       IN R([s EXCEPT !.evals = Append(s.evals, <<ev.L, v>>)],
            G("C10.mlkr_value_is_documented_objective", CloseVal(ev.value, v))
            \cup G("C10.mlkr_gradient_is_derivative_of_documented_objective", CloseGradC(ev.grad, g, MLKRGradCond(ev.L, s.X, ev.P, s.y))),
            {"C10.mlkr_value_is_documented_objective", "C10.mlkr_gradient_is_derivative_of_documented_objective"})

ResultStep(s, ev) ==
  LET n == Len(s.evals)
      idx == {i \in 1..n : s.evals[i][1] = ev.L}
      slack(v) == Shift(Add(Abs(v), One), -2)
      noWorse == \E i \in idx : IsFin(s.evals[i][2]) /\ IsFin(s.evals[1][2]) /\ Leq(s.evals[i][2], Add(s.evals[1][2], slack(s.evals[1][2])))
      lmnnMonotone == \A i \in 2..n : \* every call after the first is a trial from the last accepted point; the LAST call is accepted
                         TRUE
      lastAccepted == s.algo # "LMNN" \/ n = 0 \/ s.evals[n][1] = ev.L
  IN IF n = 0 \/ ~s.dataOK THEN R(s, {}, {"X10.no_evaluation_recorded"})
     ELSE R(s,
       (IF idx # {} /\ \A i \in idx : IsFin(s.evals[i][2]) /\ IsFin(s.evals[1][2])
        THEN G("C10.result_not_worse_than_initial_transformation", noWorse) ELSE {})
       \cup G("C10.first_evaluation_is_at_documented_initialisation", s.evals[1][1] = ev.L_init)
       \cup (IF ev.zero_iterations THEN G("C10.zero_iterations_return_initialisation", ev.L = ev.L_init) ELSE {})
       \cup (IF s.algo = "LMNN"
             THEN G("C10.lmnn_returns_last_accepted_iterate", lastAccepted)
                  \cup G("C10.lmnn_accepted_objectives_non_increasing",
                         \* replay of the backtracking machine on TLC's own objective values
                         LET RECURSIVE Acc(_, _)
                             Acc(i, cur) == IF i > n THEN TRUE
                                            ELSE IF Leq(s.evals[i][2], Add(cur, slack(cur))) THEN Acc(i + 1, s.evals[i][2])
                                            ELSE Acc(i + 1, cur)
                             RECURSIVE Last(_, _, _)
                             Last(i, cur, at) == IF i > n THEN at
                                                 ELSE IF Leq(s.evals[i][2], Add(cur, slack(cur))) THEN Last(i + 1, s.evals[i][2], i)
                                                 ELSE Last(i + 1, cur, at)
                         IN s.evals[Last(2, s.evals[1][2], 1)][1] = ev.L)
             ELSE {}),
       {"C10.result_not_worse_than_initial_transformation", "C10.first_evaluation_is_at_documented_initialisation"}
       \cup (IF ev.zero_iterations THEN {"C10.zero_iterations_return_initialisation"} ELSE {}))

Step(s, ev) == CASE ev.ev = "Data" -> DataStep(s, ev)
                 [] ev.ev = "Eval" -> EvalStep(s, ev)
                 [] ev.ev = "Result" -> ResultStep(s, ev)
                 [] OTHER -> R(s, {"TRACE.unknown_event"}, {})
Init == tid \in 1..Len(Traces) /\ l = 1 /\ st = InitSt /\ fails = {} /\ ex = {}
Next == /\ l <= Len(Traces[tid].events)
        /\ LET r == Step(st, Traces[tid].events[l])
           IN  st' = r.st /\ fails' = fails \cup {x \o "@" \o ToString(l) : x \in r.fails} /\ ex' = ex \cup r.ex
        /\ l' = l + 1 /\ UNCHANGED tid
Done   == l = Len(Traces[tid].events) + 1
Report == Done => PrintT(<<"VERDICT", Traces[tid].tid, fails, ex>>)
=============================================================================
