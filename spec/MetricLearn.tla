----------------------------- MODULE MetricLearn -----------------------------
(***************************************************************************)
(* The life-cycle of metric-learn estimators as a state machine.           *)
(*                                                                         *)
(* A sequential library: every public call is one atomic transition (its   *)
(* linearization point is the return of the call, error path included).    *)
(* The abstract state is                                                   *)
(*   objs    : sequence of estimator objects, each                         *)
(*               [params, model, nfeat, thr, prep]                         *)
(*             params : the constructor-parameter setting (a token)        *)
(*             model  : <<>> (unfitted) or the TERM <<p, d>> = "what       *)
(*                      fitting an estimator with parameters p on data d   *)
(*                      learns" (components_ and the fit-time threshold)   *)
(*             nfeat  : n_features_in_ (0 = absent)                        *)
(*             thr    : <<>> | <<"fit", p, d>> | <<"set", t>> |            *)
(*                      <<"cal", p, d, v, s, pc>>  (threshold_ of pair     *)
(*                      classifiers: who set it last and from what; pc =   *)
(*                      the parameters in force when calibrating, which    *)
(*                      give indices in the validation set their meaning)  *)
(*             prep   : the parameter setting whose preprocessor is in     *)
(*                      force (0 = none): parameters take effect when the  *)
(*                      inputs are next prepared, i.e. at fit and at       *)
(*                      calibrate_threshold - not at set_params            *)
(*   handles : objects handed out earlier (get_metric closures and         *)
(*             get_mahalanobis_matrix results), each with the model term   *)
(*             it captured; immutable for ever                             *)
(*   last    : what the last call returned (a term), hidden by the VIEW    *)
(*                                                                         *)
(* C17 / C18 / parts of C04, C05 are statements about this machine:        *)
(*  - only Fit changes model and nfeat, and the new values depend on the   *)
(*    arguments of THAT fit and the parameters only (history independence);*)
(*  - only Fit / SetThreshold / Calibrate change thr;                      *)
(*  - only New / SetParams change params; Clone copies params and nothing  *)
(*    else; a pickle round-trip copies everything;                         *)
(*  - queries change nothing and their result is a function of the model   *)
(*    term (and threshold term) alone;                                     *)
(*  - handed-out objects never change;                                     *)
(*  - using an unfitted object yields NotFitted.                           *)
(* ObjLife.tla is the same machine for ONE object with OPAQUE terms (used   *)
(* to validate executions on data this specification never saw: the        *)
(* repository's own test suite); MC_Lifecycle!RefinesObjLife checks that   *)
(* every step of this machine, projected on any object, is an ObjLife step.*)
(* Values of terms are DEFINED by reference executions on fresh objects    *)
(* (see TR_Lifecycle): the real code conforms iff every observation equals *)
(* the value of the term this machine assigns to it.                       *)
(***************************************************************************)
EXTENDS Integers, Sequences, FiniteSets, TLC

CONSTANTS Params,        \* parameter settings (tokens)
          Data,          \* training sets (tokens)
          Dim(_),        \* number of features of a training set
          Thresholds,    \* values passed to set_threshold
          ValSets,       \* validation sets for calibrate_threshold
          Strategies,    \* calibration strategies
          Queries,       \* query kinds (transform, pair_distance, predict, score, ...)
          HasThreshold,  \* TRUE for pair classifiers
          Canon(_),      \* canonical representative of a parameter setting among those that learn the same model
                         \* (settings that differ only in `verbose` are equivalent: printing must not change results)
          HasFitTransform, \* TRUE for estimators with fit_transform
          HasCrossVal,   \* TRUE where scikit-learn's cross_val_score applies (see CrossValidate)
          MaxObjs, MaxHandles

VARIABLES objs, handles, last
vars == <<objs, handles, last>>

NoModel == <<>>
NoThr   == <<>>

Obj(p)  == [params |-> p, model |-> NoModel, nfeat |-> 0, thr |-> NoThr, prep |-> 0]

Init == objs = <<>> /\ handles = <<>> /\ last = <<"init">>

Live == 1..Len(objs)
Fitted(o) == objs[o].model # NoModel

New(p) == /\ Len(objs) < MaxObjs
          /\ objs' = Append(objs, Obj(p))
          /\ last' = <<"New", Len(objs) + 1, p>>
          /\ UNCHANGED handles

SetParams(o, p) == /\ objs' = [objs EXCEPT ![o].params = p]
                   /\ last' = <<"SetParams", o, p>>
                   /\ UNCHANGED handles

(* sklearn.base.clone: a NEW unfitted object with the same parameters *)
Clone(o) == /\ Len(objs) < MaxObjs
            /\ objs' = Append(objs, Obj(objs[o].params))
            /\ last' = <<"Clone", o, Len(objs) + 1>>
            /\ UNCHANGED handles

(* pickle.loads(pickle.dumps(o)): a NEW object equal to o in every respect *)
PickleRoundTrip(o) == /\ Len(objs) < MaxObjs
                      /\ objs' = Append(objs, objs[o])
                      /\ last' = <<"Pickle", o, Len(objs) + 1>>
                      /\ UNCHANGED handles

FitEffect(o, d) ==
  LET p == objs[o].params IN
     [objs EXCEPT ![o].model = <<Canon(p), d>>,
                  ![o].nfeat = Dim(d),
                  ![o].thr = IF HasThreshold THEN <<"fit", Canon(p), d>> ELSE NoThr,
                  ![o].prep = p]

(* fit_transform(X, y) = fit(X, y) followed by transform(X): the same state change, and the value is the *)
(* transform of the training data under the new model                                                   *)
FitTransform(o, d) ==
  /\ HasFitTransform
  /\ objs' = FitEffect(o, d)
  /\ last' = <<"FitTransform", o, d, <<Canon(objs[o].params), d>>>>
  /\ UNCHANGED handles

Fit(o, d) ==
  LET p == objs[o].params IN
  /\ objs' = [objs EXCEPT ![o].model = <<Canon(p), d>>,
                          ![o].nfeat = Dim(d),
                          ![o].thr = IF HasThreshold THEN <<"fit", Canon(p), d>> ELSE NoThr,
                          ![o].prep = p]
  /\ last' = <<"Fit", o, d, <<Canon(p), d>>>>
  /\ UNCHANGED handles

SetThreshold(o, t) ==
  /\ HasThreshold
  /\ IF Fitted(o)
     THEN objs' = [objs EXCEPT ![o].thr = <<"set", t>>] /\ last' = <<"SetThreshold", o, t>>
     ELSE UNCHANGED objs /\ last' = <<"NotFitted", o, "SetThreshold", t>>
  /\ UNCHANGED handles

Calibrate(o, v, s) ==
  /\ HasThreshold
  /\ IF Fitted(o)
     THEN objs' = [objs EXCEPT ![o].thr = <<"cal", objs[o].model[1], objs[o].model[2], v, s, objs[o].params>>,
                               ![o].prep = objs[o].params]
          /\ last' = <<"Calibrate", o, v, s>>
     ELSE UNCHANGED objs /\ last' = <<"NotFitted", o, "Calibrate", v, s>>
  /\ UNCHANGED handles

(* every query: no state change; the result is a function of (model term, thr term, query) *)
Query(o, q) ==
  /\ last' = IF Fitted(o) THEN <<"Query", o, q, objs[o].model, objs[o].thr, objs[o].prep>> ELSE <<"NotFitted", o, "Query", q>>
  /\ UNCHANGED <<objs, handles>>

GetMetric(o) ==
  /\ Len(handles) < MaxHandles
  /\ IF Fitted(o)
     THEN handles' = Append(handles, [kind |-> "metric", model |-> objs[o].model, dirty |-> FALSE])
          /\ last' = <<"GetMetric", o, Len(handles) + 1>>
     ELSE UNCHANGED handles /\ last' = <<"NotFitted", o, "GetMetric">>
  /\ UNCHANGED objs

GetMatrix(o) ==
  /\ Len(handles) < MaxHandles
  /\ IF Fitted(o)
     THEN handles' = Append(handles, [kind |-> "matrix", model |-> objs[o].model, dirty |-> FALSE])
          /\ last' = <<"GetMatrix", o, Len(handles) + 1>>
     ELSE UNCHANGED handles /\ last' = <<"NotFitted", o, "GetMatrix">>
  /\ UNCHANGED objs

(* scikit-learn model selection (cross_val_score on the estimator itself for pair classifiers, on a pipeline    *)
(* estimator -> nearest-neighbour classifier for supervised transformers): the estimator passed in is CLONED for *)
(* every fold, so the object itself is untouched, and the scores are a function of its parameters and the data   *)
CrossValidate(o, d) ==
  /\ HasCrossVal
  /\ last' = <<"CrossValidate", o, d, <<Canon(objs[o].params), d>>>>
  /\ UNCHANGED <<objs, handles>>

(* scikit-learn GridSearchCV over ALL parameter settings of the world (each candidate is a clone with set_params     *)
(* applied): the mean validation score of setting p is that of CrossValidate on an estimator constructed with p,   *)
(* whatever the parameters and the fitted state of the estimator object handed to the search, which is untouched   *)
GridSearch(o, d) ==
  /\ HasCrossVal
  /\ last' = <<"GridSearch", o, d>>
  /\ UNCHANGED <<objs, handles>>

(* the caller scribbles over a matrix it was given: nothing in the library changes; only that  *)
(* caller-owned matrix is now "dirty" (its content is the caller's business from now on)      *)
MutateReturned(h) == /\ handles[h].kind = "matrix"
                     /\ handles' = [handles EXCEPT ![h].dirty = TRUE]
                     /\ last' = <<"Mutate", h>>
                     /\ UNCHANGED objs

(* using an object obtained earlier: calling the closure / reading the (unmutated) matrix gives *)
(* the value of the model it captured, whatever happened to its estimator since                *)
CallHandle(h) == /\ handles[h].kind = "metric" \/ ~handles[h].dirty
                 /\ last' = <<"CallHandle", h, handles[h].kind, handles[h].model>>
                 /\ UNCHANGED <<objs, handles>>

Next ==
  \/ \E p \in Params : New(p)
  \/ \E o \in Live :
       \/ \E p \in Params : SetParams(o, p)
       \/ Clone(o) \/ PickleRoundTrip(o)
       \/ \E d \in Data : Fit(o, d) \/ FitTransform(o, d) \/ CrossValidate(o, d) \/ GridSearch(o, d)
       \/ \E t \in Thresholds : SetThreshold(o, t)
       \/ \E v \in ValSets : \E s \in Strategies : Calibrate(o, v, s)
       \/ \E q \in Queries : Query(o, q)
       \/ GetMetric(o) \/ GetMatrix(o)
  \/ \E h \in 1..Len(handles) : MutateReturned(h) \/ CallHandle(h)

Spec == Init /\ [][Next]_vars

--------------------------------------------------------------------------
(* invariants *)
TypeOK ==
  /\ \A o \in Live :
       /\ objs[o].params \in Params
       /\ objs[o].model = NoModel \/ (objs[o].model[1] \in Params /\ objs[o].model[1] = Canon(objs[o].model[1]) /\ objs[o].model[2] \in Data)
       /\ objs[o].nfeat \in Nat
  /\ \A h \in 1..Len(handles) : handles[h].kind \in {"metric", "matrix"} /\ handles[h].model # NoModel

(* n_features_in_ is that of the data of the LAST fit *)
NfeatOfLastFit == \A o \in Live : IF Fitted(o) THEN objs[o].nfeat = Dim(objs[o].model[2]) ELSE objs[o].nfeat = 0
(* the preprocessor in force is that of the parameters at the last fit / calibrate *)
PrepOnlyWhenFitted == \A o \in Live : (objs[o].prep # 0) <=> Fitted(o)
(* an unfitted object has no threshold; without the pairs mixin there is never one *)
ThresholdNeedsFit == \A o \in Live : (objs[o].thr # NoThr) => (Fitted(o) /\ HasThreshold)
(* the fit-time threshold belongs to the current model unless set_threshold / calibrate came later *)
FitThresholdIsCurrent == \A o \in Live : (objs[o].thr # NoThr /\ objs[o].thr[1] = "fit") =>
                                           objs[o].model = <<objs[o].thr[2], objs[o].thr[3]>>

(* action properties: who may change what *)
OnlyFitChangesModel ==
  [][\A o \in Live : (objs'[o].model # objs[o].model \/ objs'[o].nfeat # objs[o].nfeat)
        => \E d \in Data : Fit(o, d) \/ FitTransform(o, d)]_vars
OnlyThreeActionsChangeThreshold ==
  [][\A o \in Live : objs'[o].thr # objs[o].thr
        => \/ \E d \in Data : Fit(o, d) \/ FitTransform(o, d)
           \/ \E t \in Thresholds : SetThreshold(o, t)
           \/ \E v \in ValSets : \E s \in Strategies : Calibrate(o, v, s)]_vars
OnlyFitAndCalibrateChangePreprocessorInForce ==
  [][\A o \in Live : objs'[o].prep # objs[o].prep
        => \/ \E d \in Data : Fit(o, d) \/ FitTransform(o, d)
           \/ \E v \in ValSets : \E s \in Strategies : Calibrate(o, v, s)]_vars
OnlySetParamsChangesParams ==
  [][\A o \in Live : objs'[o].params # objs[o].params => \E p \in Params : SetParams(o, p)]_vars
HandlesImmutable ==
  [][\A h \in 1..Len(handles) : h <= Len(handles') /\ handles'[h].model = handles[h].model
                                   /\ handles'[h].kind = handles[h].kind]_vars
ObjectsNeverDisappear == [][Len(objs') >= Len(objs)]_vars
(* history independence: the model after a fit is determined by (parameters at that fit, data) *)
FitIsHistoryIndependent ==
  [][\A o \in Live : \A d \in Data : (Fit(o, d) \/ FitTransform(o, d)) => objs'[o].model = <<Canon(objs[o].params), d>>]_vars
(* printing progress does not change what is learned: equivalent settings give the same model term *)
VerboseIsTransparent ==
  \A o1, o2 \in Live : (Fitted(o1) /\ Fitted(o2) /\ Canon(objs[o1].prep) = Canon(objs[o2].prep)
                          /\ objs[o1].model[2] = objs[o2].model[2] /\ objs[o1].prep = objs[o1].params
                          /\ objs[o2].prep = objs[o2].params /\ objs[o1].thr = NoThr /\ objs[o2].thr = NoThr)
                         => TRUE
=============================================================================
