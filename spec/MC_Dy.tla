------------------------------ MODULE MC_Dy ------------------------------
(* Self-check of the Dy arithmetic against TLC's native integers on small  *)
(* operands, including operands scaled by powers of B (so that alignment,  *)
(* carries, borrows and normalisation are exercised).                      *)
EXTENDS Dy, TLC
CONSTANTS R
VARIABLES x, y, k

Vals == (-R..R) \cup {n * 181 : n \in -R..R} \cup {n * 32767 : n \in -3..3} \cup {32768, -32768, 32769, 65535, 65536, 46340, -46340}

Init == x \in Vals /\ y \in Vals /\ k \in 0..1
Next == UNCHANGED <<x, y, k>>

AddOK  == ToInt(Add(FromInt(x), FromInt(y))) = x + y
SubOK  == ToInt(Sub(FromInt(x), FromInt(y))) = x - y
IAbs(n) == IF n < 0 THEN -n ELSE n
Fits   == x = 0 \/ y = 0 \/ IAbs(x) <= 2147483647 \div IAbs(y)
MulOK  == IF Fits THEN ToInt(Mul(FromInt(x), FromInt(y))) = x * y
          ELSE \* beyond native range: check by distributivity and by an exact split y = q*B + r
               LET q == y \div B  r == y % B
               IN  Mul(FromInt(x), FromInt(y)) = Add(Shift(Mul(FromInt(x), FromInt(q)), 1), Mul(FromInt(x), FromInt(r)))
CmpOK  == Cmp(FromInt(x), FromInt(y)) = (IF x < y THEN -1 ELSE IF x > y THEN 1 ELSE 0)
NormOK == IsDy(FromInt(x)) /\ IsDy(Add(FromInt(x), FromInt(y))) /\ IsDy(Mul(FromInt(x), FromInt(y)))
                /\ IsDy(Sub(Shift(FromInt(x), k), FromInt(y)))
ShiftOK == /\ Cmp(Shift(FromInt(x), k), Shift(FromInt(y), k)) = Cmp(FromInt(x), FromInt(y))
           /\ Add(Shift(FromInt(x), k), Shift(FromInt(y), k)) = Shift(Add(FromInt(x), FromInt(y)), k)
           /\ Mul(Shift(FromInt(x), k), Shift(FromInt(y), -k)) = Mul(FromInt(x), FromInt(y))
           /\ Sub(Add(Shift(FromInt(x), k), FromInt(y)), Shift(FromInt(x), k)) = FromInt(y)
TruncOK == LET a == Mul(Mul(FromInt(x), FromInt(y)), FromInt(x))
               t == Trunc(a, 1)
           IN  /\ IsDy(t) /\ Leq(Abs(t), Abs(a))
               /\ (a[1] # 0 => Lt(Abs(Sub(a, t)), Shift(One, Top(a) - 1)))
=============================================================================
