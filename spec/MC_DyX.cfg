CONSTANT N = 2
INIT Init
NEXT Next
INVARIANT SameAdd
INVARIANT SameSub
INVARIANT SameMul
INVARIANT SameCmp
INVARIANT SameTrunc
INVARIANT SameChain
CHECK_DEADLOCK FALSE
INVARIANT SameRat
