---------------------------- MODULE TR_ClosedForm ----------------------------
(***************************************************************************)
(* Trace spec for C09: a recorded fit of Covariance / RCA / LFDA with the  *)
(* training input, the learned components_ and untrusted witnesses         *)
(* (eigen-decompositions, roots, quotients, exp table).  TLC recomputes    *)
(* the documented statistics exactly from the input, VERIFIES the          *)
(* witnesses, and then checks the certificates of ClosedForm.tla against   *)
(* the logged L.  A witness that fails verification makes the case         *)
(* inconclusive (clause ids starting with X09), never a violation.        *)
(***************************************************************************)
EXTENDS ClosedForm, TLC, Json, IOUtils
Batch  == JsonDeserialize(IOEnv.TRACE_FILE)
Traces == Batch.traces
VARIABLES tid, l, fails, ex
vars == <<tid, l, fails, ex>>
R(f, e) == [fails |-> f, ex |-> e]
G(c, ok) == IF ok THEN {} ELSE {c}

CovStep(ev) ==
  LET M == DM!Gram(ev.L) IN
  R(G("C09.covariance_is_pseudo_inverse_of_sample_covariance",
      ev.exc = "" /\ AllFinM(ev.L) /\ CovariancePenrose(ev.X, M)),
    {"C09.covariance_is_pseudo_inverse_of_sample_covariance"})

RcaStep(ev) ==
  LET k == Len(ev.L)  d == Len(ev.X[1]) IN
  IF ev.exc # "" \/ ~AllFinM(ev.L) THEN R({"C09.rca_fit_returns_finite_model"}, {})
  ELSE IF k = d
  THEN R(G("C09.rca_whitens_within_chunk_covariance", RCAWhitens(ev.X, ev.chunks, ev.L)),
         {"C09.rca_whitens_within_chunk_covariance"})
  ELSE IF ~RCAEigenWitnessOK(ev.X, ev.chunks, ev.Vt, ev.lam) THEN R({}, {"X09.rca_eigen_witness_rejected"})
  ELSE IF ~HasGap(ev.lam, k) THEN R({}, {"X09.rca_no_eigen_gap"})
  ELSE R(G("C09.rca_whitens_within_chunk_covariance", RCAWhitens(ev.X, ev.chunks, ev.L))
         \cup G("C09.rca_reduction_keeps_best_total_to_within_directions",
                RCADiscards(ev.X, ev.chunks, ev.L, ev.Vt, k)),
         {"C09.rca_whitens_within_chunk_covariance", "C09.rca_reduction_keeps_best_total_to_within_directions"})

(* rows of L against a verified spectrum (w.Vt rows = eigenvectors, w.lam decreasing, V^T S_w V = I).   *)
(* w is a record of witnesses for ONE variant of the local scale: [a, s, t, A, Vt, lam, coef].          *)
(* Result: "ok" | "fails" | "witness" (a witness was rejected) | "nogap"                                 *)
LfdaVerdict(ev, w, documented) ==
  LET X == ev.X  y == ev.y  n == Len(X)  d == Len(X[1])  k == Len(ev.L)
      PSw == LfdaWithinP(X, y, w.A)
      NPSb == LfdaBetweenNP(X, y, w.A)
      P == FromInt(PClass(y))  nn == FromInt(n)
      sw == MaxAbsM(PSw)  sb == MaxAbsM(NPSb)
      eigOK == /\ \A j \in 1..d : ApproxV(DM!MatVec(NPSb, w.Vt[j]),
                                          DM!VScale(Mul(w.lam[j], nn), DM!MatVec(PSw, w.Vt[j])), 1, 1,
                                          Mul(Add(sb, Mul(Mul(Abs(w.lam[j]), nn), sw)), MaxAbsV(w.Vt[j])))
               /\ \A j \in 1..(d - 1) : Leq(w.lam[j + 1], w.lam[j])
               /\ ApproxM(DM!MatMul(DM!MatMul(w.Vt, PSw), DM!Transpose(w.Vt)),
                          [i \in 1..d |-> [j \in 1..d |-> IF i = j THEN P ELSE Zero]], 1, 1, P)
      gapOK == k = d \/ Leq(Shift(Abs(w.lam[1]), -1), Sub(w.lam[k], w.lam[k + 1]))
      rowOK(r) ==
        CASE ev.embedding = "plain"    -> ApproxV(ev.L[r], DM!VScale(w.coef[r], w.Vt[r]), 1, 1, MaxAbsV(ev.L[r]))
                                          /\ Approx(Sq(w.coef[r]), One, 1, 1, One)
          [] ev.embedding = "weighted" -> ApproxV(ev.L[r], DM!VScale(w.coef[r], w.Vt[r]), 1, 1, MaxAbsV(ev.L[r]))
                                          /\ Approx(Sq(w.coef[r]), w.lam[r], 1, 1, Abs(w.lam[r]))
          [] OTHER -> \* orthonormalized: row r lies in span(v_1..v_r) = S_w-orthogonal complement of v_j, j > r
                      /\ \A j \in (r + 1)..d :
                            Leq(Abs(DM!Dot(ev.L[r], DM!MatVec(PSw, w.Vt[j]))),
                                Shift(Mul(Mul(MaxAbsV(ev.L[r]), sw), MaxAbsV(w.Vt[j])), -1))
                      /\ \A q \in 1..k : Approx(DM!Dot(ev.L[r], ev.L[q]), IF q = r THEN One ELSE Zero, 1, 1, One)
  IN
  IF ~AffinityWitnessOK(X, y, ev.k, w.a, w.s, w.t, w.A, documented) THEN "witness"
  ELSE IF ~eigOK THEN "witness"
  ELSE IF ~gapOK THEN "nogap"
  ELSE IF \A r \in 1..k : rowOK(r) THEN "ok" ELSE "fails"

LfdaStep(ev) ==
  IF ev.exc # "" \/ ~AllFinM(ev.L) THEN R({"C09.lfda_fit_returns_finite_model"}, {})
  ELSE
  LET doc == LfdaVerdict(ev, ev.doc, TRUE) IN
  IF doc = "ok" THEN R({}, {"C09.lfda_components_are_leading_generalised_eigenvectors",
                            "C09.lfda_local_scale_is_kth_nearest_same_class_neighbour"})
  ELSE IF doc = "witness" THEN R({}, {"X09.lfda_witness_rejected"})
  ELSE IF doc = "nogap" THEN R({}, {"X09.lfda_no_eigen_gap"})
  ELSE \* not the documented formula: is it the documented formula up to the NAMED deviation of the local scale?
       LET dev == LfdaVerdict(ev, ev.dev, FALSE) IN
       IF dev = "ok" THEN R({"C09.lfda_local_scale_is_kth_nearest_same_class_neighbour"},
                            {"C09.lfda_components_are_leading_generalised_eigenvectors",
                             "C09.lfda_local_scale_is_kth_nearest_same_class_neighbour"})
       ELSE IF dev = "witness" THEN R({}, {"X09.lfda_deviation_witness_rejected"})
       ELSE IF dev = "nogap" THEN R({}, {"X09.lfda_no_eigen_gap"})       \* (the retained directions are not determined)
       ELSE R({"C09.lfda_components_are_leading_generalised_eigenvectors"},
              {"C09.lfda_components_are_leading_generalised_eigenvectors"})

Step(ev) == CASE ev.ev = "CovarianceFit" -> CovStep(ev)
              [] ev.ev = "RcaFit" -> RcaStep(ev)
              [] ev.ev = "LfdaFit" -> LfdaStep(ev)
              [] OTHER -> R({"TRACE.unknown_event"}, {})
Init == tid \in 1..Len(Traces) /\ l = 1 /\ fails = {} /\ ex = {}
Next == /\ l <= Len(Traces[tid].events)
        /\ LET r == Step(Traces[tid].events[l])
           IN  fails' = fails \cup {x \o "@" \o ToString(l) : x \in r.fails} /\ ex' = ex \cup r.ex
        /\ l' = l + 1 /\ UNCHANGED tid
Done   == l = Len(Traces[tid].events) + 1
Report == Done => PrintT(<<"VERDICT", Traces[tid].tid, fails, ex>>)
=============================================================================
