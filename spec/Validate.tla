------------------------------ MODULE Validate ------------------------------
(***************************************************************************)
(* C06: the input grammar of the data-taking methods, written from the     *)
(* DOCUMENTATION (documented form => accepted, anything else =>            *)
(* ValueError), not from check_input's code.                               *)
(*                                                                         *)
(* An estimator kind is [tsize, labels, ncomp]: tsize = 0 for learners     *)
(* fitted on points, 2/3/4 for pairs/triplets/quadruplets learners;        *)
(* labels = what fit takes besides the data ("none", "class", "real",      *)
(* "chunks", "pair"); ncomp = whether the class has n_components.          *)
(*                                                                         *)
(* A call descriptor c is a STRUCTURAL description of the argument:        *)
(*   ndim   0..4        number of dimensions of the data argument          *)
(*   empty  "no" | "samples" | "features"   a zero-length axis             *)
(*   t      1..5        length of the tuple axis (when there is one)       *)
(*   drel   "fit" | "less" | "more" | "one"  feature count vs the fitted one (one = a single feature; fitted >= 2) *)
(*   dtype  "float" | "int" | "str" | "none"  (strings / None entries)     *)
(*   bad    "none" | "nan_first" | "nan_last" | "inf_first" | "inf_last"   *)
(*          | "neginf_mid"     a non-finite entry and where                *)
(*   lab    "na" | "ok" | "zero" | "two" | "half" | "str"  pair-label alphabet (str: a non-numeric entry) *)
(*   lenrel "na" | "eq" | "shorter" | "longer"  len(labels) vs len(data)   *)
(*   ncomp  "na" | "none" | "one" | "d" | "zero" | "dplus1" | "minus1" | "minusd" (= -n_features) *)
(*   prep   whether the estimator has a preprocessor                       *)
(***************************************************************************)
EXTENDS Integers, Sequences, FiniteSets

Methods == {"fit", "transform", "pair_distance", "pair_score", "score_pairs", "predict",
            "decision_function", "score", "calibrate_threshold"}

(* which methods an estimator kind has *)
HasMethod(k, m) ==
  CASE m \in {"fit", "transform", "pair_distance", "pair_score", "score_pairs"} -> TRUE
    [] m \in {"predict", "decision_function", "score"} -> k.tsize # 0
    [] m = "calibrate_threshold" -> k.tsize = 2

(* the documented form of the data argument: "points" (2-D) or "tuples" (3-D) and the tuple size *)
Form(k, m) ==
  IF m = "transform" THEN "points"
  ELSE IF m = "fit" THEN (IF k.tsize = 0 THEN "points" ELSE "tuples")
  ELSE "tuples"
TupleSize(k, m) ==
  IF m \in {"pair_distance", "pair_score", "score_pairs", "calibrate_threshold"} THEN 2 ELSE k.tsize
FormedNdim(k, m) == IF Form(k, m) = "points" THEN 2 ELSE 3

(* does the call take labels, and are they pair labels (alphabet {-1,+1})? *)
TakesLabels(k, m) ==
  \/ m = "fit" /\ k.labels # "none"
  \/ m = "score" /\ k.tsize = 2
  \/ m = "calibrate_threshold"
PairLabels(k, m) ==
  \/ m = "fit" /\ k.labels = "pair"
  \/ m = "score" /\ k.tsize = 2
  \/ m = "calibrate_threshold"

IsFormed(k, m, c)  == c.ndim = FormedNdim(k, m)
IsIndexed(k, m, c) == c.prep /\ c.ndim = FormedNdim(k, m) - 1
HasTupleAxis(k, m, c) == Form(k, m) = "tuples" /\ (IsFormed(k, m, c) \/ IsIndexed(k, m, c))

WellFormed(k, m, c) ==
  /\ IsFormed(k, m, c) \/ IsIndexed(k, m, c)
  /\ c.empty = "no"
  /\ HasTupleAxis(k, m, c) => c.t = TupleSize(k, m)
  /\ c.drel = "fit"
  /\ c.dtype \in {"float", "int"}
  /\ c.bad = "none"
  /\ TakesLabels(k, m) => c.lenrel = "eq"
  /\ PairLabels(k, m) => c.lab = "ok"
  /\ c.ncomp \in {"na", "none", "one", "d"}

Outcome(k, m, c) == IF WellFormed(k, m, c) THEN "ok" ELSE "ValueError"

(* -------- the enumerated grammar: canonical descriptors with at most MaxDev deviations -------- *)
Default(k, m, prep) ==
  [ndim |-> FormedNdim(k, m), empty |-> "no", t |-> TupleSize(k, m), drel |-> "fit", dtype |-> "float",
   bad |-> "none", lab |-> IF PairLabels(k, m) THEN "ok" ELSE "na",
   lenrel |-> IF TakesLabels(k, m) THEN "eq" ELSE "na",
   ncomp |-> IF m = "fit" /\ k.ncomp THEN "none" ELSE "na", prep |-> prep]

Fields == {"ndim", "empty", "t", "drel", "dtype", "bad", "lab", "lenrel", "ncomp"}
Deviations(k, m, c) == Cardinality({f \in Fields : c[f] # Default(k, m, c.prep)[f]})

Canonical(k, m, c) ==
  LET dflt == Default(k, m, c.prep)
      structured == IsFormed(k, m, c) \/ IsIndexed(k, m, c)
  IN
  /\ ~structured => \A f \in Fields \ {"ndim"} : c[f] = dflt[f]     \* nothing else is meaningful
  /\ ~HasTupleAxis(k, m, c) => c.t = dflt.t
  /\ (IsIndexed(k, m, c) \/ m = "fit") => c.drel = "fit"            \* no fitted reference / no feature axis
  /\ IsIndexed(k, m, c) => (c.dtype = "int" \/ c.dtype = "float") /\ c.bad = "none" /\ c.empty # "features"
  /\ c.dtype \in {"str", "none"} => c.bad = "none"
  /\ c.empty # "no" => c.bad = "none"
  /\ (PairLabels(k, m) <=> c.lab # "na") /\ (TakesLabels(k, m) <=> c.lenrel # "na")
  /\ ((m = "fit" /\ k.ncomp) <=> c.ncomp # "na")

Dom(f) == CASE f = "ndim" -> 0..4
            [] f = "empty" -> {"no", "samples", "features"}
            [] f = "t" -> 1..5
            [] f = "drel" -> {"fit", "less", "more", "one"}
            [] f = "dtype" -> {"float", "int", "str", "none"}
            [] f = "bad" -> {"none", "nan_first", "nan_last", "inf_first", "inf_last", "neginf_mid"}
            [] f = "lab" -> {"na", "ok", "zero", "two", "half", "str"}
            [] f = "lenrel" -> {"na", "eq", "shorter", "longer"}
            [] f = "ncomp" -> {"na", "none", "one", "d", "zero", "dplus1", "minus1", "minusd"}

(* constructive enumeration: the documented form with at most maxDev fields changed *)
Vary(S) == S \cup {[c EXCEPT ![f] = v] : c \in S, f \in Fields, v \in UNION {Dom(g) : g \in Fields}}
VaryF(S) == S \cup UNION {{[c EXCEPT ![f] = v] : v \in Dom(f)} : c \in S, f \in Fields}
Descriptors(k, m, maxDev) ==
  LET base == {Default(k, m, TRUE), Default(k, m, FALSE)}
      one  == VaryF(base)
      two  == IF maxDev >= 2 THEN VaryF(one) ELSE one
  IN  {c \in two : Canonical(k, m, c) /\ Deviations(k, m, c) <= maxDev}
=============================================================================
