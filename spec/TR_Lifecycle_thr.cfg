CONSTANTS Params = {1, 2, 3, 4}
 Data = {1, 2, 3, 4}
 Dim <- TraceDim
 Canon <- TraceCanon
 HasFitTransform = TRUE
 HasCrossVal = TRUE
 Thresholds = {1, 2, 3, 4}
 ValSets = {1, 2, 3}
 Strategies = {1, 2, 3, 4}
 Queries = {1, 2, 3, 4, 5, 6, 7, 8}
 HasThreshold = TRUE
 MaxObjs = 8
 MaxHandles = 8
INIT InitT
NEXT NextT
INVARIANT Report
CHECK_DEADLOCK FALSE
