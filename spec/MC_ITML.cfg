CONSTANTS MaxSteps = 6
INIT Init
NEXT Next
INVARIANT DualsNonNegative
INVARIANT StaysPositive
INVARIANT K2Holds
INVARIANT SlackHolds
INVARIANT FixedPointIsKKT
INVARIANT PriorFeasibleKept
CHECK_DEADLOCK FALSE
