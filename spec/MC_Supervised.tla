---------------------------- MODULE MC_Supervised ----------------------------
(* Refinement sanity for C08 on the abstract level: fitting a supervised      *)
(* class in one step (FitSupervised) reaches the same model TERM as the       *)
(* two-step path Generate ; FitBase with the same hyper-parameters, labels    *)
(* and seed - for every class, with and without unlabeled points.  The data   *)
(* enters a constraint term only through the labelled rows.                   *)
EXTENDS Supervised, TLC
CONSTANTS Classes, Hypers, Labels, Seeds
VARIABLES step, cls, hyper, y, seed, cons, twoStep, composed
vars == <<step, cls, hyper, y, seed, cons, twoStep, composed>>
LabelVectors == {<<0, 0, 1, 1>>, <<0, 1, 0, 1>>, <<0, -1, 1, 1, 0>>, <<-1, 0, 0, 1, 1>>}
Labelled(lab) == {i \in 1..Len(lab) : lab[i] >= 0}
ConsTerm(c, h, lab, s) == <<"constraints", Generator[c], h, lab, Labelled(lab), s>>
FitTerm(b, h, k) == <<"model", b, h, k>>
Init == /\ step = "start" /\ cls \in Classes /\ hyper \in Hypers /\ y \in Labels /\ seed \in Seeds
        /\ cons = <<>> /\ twoStep = <<>> /\ composed = <<>>
Generate == /\ step = "start" /\ cons' = ConsTerm(cls, hyper, y, seed) /\ step' = "generated"
            /\ UNCHANGED <<cls, hyper, y, seed, twoStep, composed>>
FitBase == /\ step = "generated" /\ twoStep' = FitTerm(Base[cls], hyper, cons) /\ step' = "based"
           /\ UNCHANGED <<cls, hyper, y, seed, cons, composed>>
FitSupervised == /\ step = "based"
                 /\ composed' = FitTerm(Base[cls], hyper, ConsTerm(cls, hyper, y, seed)) /\ step' = "done"
                 /\ UNCHANGED <<cls, hyper, y, seed, cons, twoStep>>
Next == Generate \/ FitBase \/ FitSupervised
SameModel == step = "done" => composed = twoStep
GeneratorTotal == cls \in DOMAIN Generator /\ cls \in DOMAIN Base
=============================================================================
