------------------------------ MODULE MC_DyX ------------------------------
(* Cross-check of the Java accelerator (spec/java/Dy.java, which overrides   *)
(* Add, Sub, Mul, Sq, Cmp, Trunc of module Dy) against the pure TLA+         *)
(* definitions (DyRef.tla = verbatim copy of Dy.tla, not overridden), on a   *)
(* grid of operands with different exponents, signs, carries and lengths.    *)
EXTENDS Dy, TLC
R == INSTANCE DyRef
CONSTANTS N
VARIABLES a, b
Ints == (-N..N) \cup {n * 32767 : n \in -2..2} \cup {32768, -32769, 1073741823, -1073741824, 2147483647}
Exps == {-23, -1, 0, 1, 2, 22}
Vals == {Shift(FromInt(n), e) : n \in Ints, e \in Exps} \cup
        {Add(Shift(FromInt(n), 2), FromInt(m)) : n \in {-3, 1, 32767}, m \in {-1, 5, 32767}}
Init == a \in Vals /\ b \in Vals
Next == UNCHANGED <<a, b>>
SameAdd   == Add(a, b) = R!Add(a, b)
SameSub   == Sub(a, b) = R!Sub(a, b)
SameMul   == Mul(a, b) = R!Mul(a, b) /\ Sq(a) = R!Sq(a)
SameCmp   == Cmp(a, b) = R!Cmp(a, b)
SameTrunc == \A k \in 1..3 : Trunc(Mul(a, b), k) = R!Trunc(R!Mul(a, b), k)
SameChain == Sub(Mul(Add(a, b), Sub(a, b)), Sq(a)) = R!Sub(R!Mul(R!Add(a, b), R!Sub(a, b)), R!Sq(a))
SameRat   == b[1] = 0 \/ LET q == RatNorm(a, Abs(b)) IN Mul(q[1], Abs(b)) = Mul(a, q[2]) /\ IsPos(q[2])
Overridden == Add(<<1, 0, <<1>>>>, <<1, 0, <<1>>>>) = <<1, 0, <<2>>>>
=============================================================================
