INIT Init
NEXT Next
INVARIANT Report
CHECK_DEADLOCK FALSE
