---------------------------- MODULE ObsCalibrate ----------------------------
(* C16 on recorded behaviours: the threshold stored by calibrate_threshold  *)
(* (or by fit with calibration_params) is optimal for the criterion on the   *)
(* validation pairs, whose learned distances are logged exactly.             *)
EXTENDS Integers, Sequences, FiniteSets, DyMat

(* x (1 + 2^-45): any two distinct rates k/n, k'/n' with n, n' < 10^6 differ by far more; a min_rate double differs *)
(* from the fraction it was typed as by at most 2^-53 relative                                                  *)
SlackDy(x) == Add(x, Shift(x, -3))
CAL == INSTANCE Calibrate WITH Zero <- Zero, Add <- Add, Mul <- Mul, Leq <- Leq, FromInt <- FromInt, Slack <- SlackDy

(* a threshold of -infinity rejects every pair, +infinity accepts every pair (legal stored values: the *)
(* statement only constrains what predicting with the stored threshold attains); NaN is not a threshold *)
CountsOfThr(ev) ==
  IF ev.thr[1] = -3 THEN CAL!RejectAll(ev.y)
  ELSE IF ev.thr[1] = 3 THEN [tp |-> CAL!Pos(ev.y), fp |-> CAL!Neg(ev.y), fn |-> 0, tn |-> 0]
  ELSE CAL!CountsAt(ev.d, ev.y, ev.thr)

CalFails(ev) ==
  IF ev.exc # "" THEN {"C16.calibrate_returns"}
  ELSE IF ~AllFinV(ev.d) \/ ev.thr[1] = 2 THEN {"C16.threshold_is_a_number"}
  ELSE IF CAL!OptimalCounts(ev.strategy, CountsOfThr(ev), ev.d, ev.y, ev.b2, ev.min_rate) THEN {}
  ELSE {"C16." \o ev.strategy \o "_optimal"}
CalEx(ev) == {"C16." \o ev.strategy \o "_optimal"}

InvalidFails(ev) ==
  IF CAL!ParamsValid(ev.strategy, ev.min_rate_kind, ev.beta_kind) THEN {}
  ELSE (IF ev.exc = "ValueError" THEN {} ELSE {"C16.invalid_params_raise_ValueError"})
       \cup (IF ev.work_done THEN {"C16.invalid_params_rejected_before_fitting"} ELSE {})
InvalidEx == {"C16.invalid_params_raise_ValueError", "C16.invalid_params_rejected_before_fitting"}
=============================================================================
