------------------------------- MODULE Preproc -------------------------------
(***************************************************************************)
(* C05: indicators + preprocessor denote formed points / tuples.           *)
(* P is the preprocessor seen as a function from indicators to points;     *)
(* idx a sequence of indicators (points) or a sequence of tuples of        *)
(* indicators.  The documented meaning is point-wise; the implementation   *)
(* forms tuples column by column (one preprocessor call per column) and    *)
(* stacks the columns back in order.                                       *)
(***************************************************************************)
EXTENDS Integers, Sequences

FormPoints(P, idx) == [i \in 1..Len(idx) |-> P[idx[i]]]
FormTuples(P, T)   == [i \in 1..Len(T) |-> [j \in 1..Len(T[i]) |-> P[T[i][j]]]]

Column(T, j)       == [i \in 1..Len(T) |-> T[i][j]]
(* the calls a callable preprocessor receives for tuples of the given size: one per column, in order *)
CallsForTuples(T, size) == [j \in 1..size |-> Column(T, j)]
CallsForPoints(idx)     == <<idx>>
ColumnWise(P, T, size) ==
  LET cols == [j \in 1..size |-> FormPoints(P, Column(T, j))]
  IN  [i \in 1..Len(T) |-> [j \in 1..size |-> cols[j][i]]]
=============================================================================
