------------------------------- MODULE TR_ITML -------------------------------
(***************************************************************************)
(* Trace spec for C11: one event per real ITML / ITML_Supervised fit with  *)
(* the constraint difference vectors, labels, gamma, the prior matrix, the *)
(* learned components_, and untrusted witnesses: inverses of M and M0, a   *)
(* Cholesky factor of M, the duals lambda and slack bounds xi (read from   *)
(* the solver frame at return; NNLS fallback).  TLC verifies the witnesses *)
(* and evaluates the KKT certificate of ITML.tla in exact arithmetic.      *)
(***************************************************************************)
EXTENDS DyMat, TLC, Json, IOUtils
Batch  == JsonDeserialize(IOEnv.TRACE_FILE)
Traces == Batch.traces
VARIABLES tid, l, fails, ex
vars == <<tid, l, fails, ex>>
R(f, e) == [fails |-> f, ex |-> e]
G(c, ok) == IF ok THEN {} ELSE {c}
IdentM(n) == [i \in 1..n |-> [j \in 1..n |-> IF i = j THEN One ELSE Zero]]

RECURSIVE SumM(_, _, _)
SumM(f, i, n) == IF i > n THEN <<>> ELSE IF i = n THEN f[i] ELSE DM!MAdd(f[i], SumM(f, i + 1, n))

Step(ev) ==
  LET d  == Len(ev.M0)
      M  == DM!Gram(ev.L)
      nC == Len(ev.v)
      sP == Add(MaxAbsM(ev.P), MaxAbsM(ev.P0))
      invOK == /\ AllFinM(ev.P) /\ AllFinM(ev.P0)
               /\ ApproxM(DM!MatMul(M, ev.P), IdentM(d), 1, 1, Mul(MaxAbsM(M), MaxAbsM(ev.P)))
               /\ ApproxM(DM!MatMul(ev.M0, ev.P0), IdentM(d), 1, 1, Mul(MaxAbsM(ev.M0), MaxAbsM(ev.P0)))
      signedLam(i) == IF ev.y[i] = 1 THEN ev.lam[i] ELSE Neg(ev.lam[i])
      comb == SumM([i \in 1..nC |-> DM!MScale(signedLam(i), DM!Outer(ev.v[i], ev.v[i]))], 1, nC)
      p(i) == DM!QuadForm(M, ev.v[i])
      xi0(i) == IF ev.y[i] = 1 THEN ev.bounds[1] ELSE ev.bounds[2]
      converged == ev.n_iter + 1 < ev.max_iter /\ ev.tight_tol
  IN
  IF ev.exc # "" THEN R({"C11.fit_returns"}, {})
  ELSE IF ~AllFinM(ev.L) THEN R({"C11.M_is_finite"}, {})
  ELSE IF ~invOK THEN R({}, {"X11.inverse_witness_rejected"})
  \* outside the precision of a floating-point certificate (counted, never a violation): a bound that is 2^-30 or
  \* less of the squared length of a constraint vector (the documented replacement of a zero bound by 1e-9 does
  \* that) drives the duals to ~1/bound, and a condition number beyond 2^27 makes the inverse witnesses useless
  ELSE IF \E i \in 1..nC : Lt(Shift(xi0(i), 2), DM!Norm2(ev.v[i])) THEN R({}, {"X11.degenerate_bound"})
  ELSE IF Gt(Mul(MaxAbsM(M), MaxAbsM(ev.P)), <<1, 1, <<4096>>>>) THEN R({}, {"X11.ill_conditioned"})
  ELSE R(
    G("C11.M_is_symmetric_positive_definite",
      AllFinM(ev.chol) /\ (\A i \in 1..d : IsPos(ev.chol[i][i])) /\ ApproxM(DM!Gram(ev.chol), M, 1, 1, MaxAbsM(M)))
    \cup G("C11.duals_nonnegative", \A i \in 1..nC : IsFin(ev.lam[i]) /\ ~IsNeg(ev.lam[i]))
    \cup G("C11.inverse_difference_is_signed_combination_of_constraints",
           \* exact in exact arithmetic; in floating point the identity drifts with the number of rank-one updates
           \* (each update divides by 1 -/+ alpha p, which cancels badly once the duals are large): 2^-15 of the
           \* scale for runs of < 200 sweeps, 2^-7 beyond.  An inconsistent dual / matrix update is O(1) of the scale.
           LET D == DM!MSub(DM!MSub(ev.P, ev.P0), comb)
               tolK2 == IF ev.n_iter < 200 THEN Shift(sP, -1) ELSE Mul(sP, <<1, -1, <<256>>>>)
           IN \A i \in 1..d : \A j \in 1..d : Leq(Abs(D[i][j]), tolK2))
    \cup (IF ev.has_xi
          THEN G("C11.slack_relation",
                 \A i \in 1..nC :
                    IF ev.gamma_inf THEN Approx(ev.xi[i], xi0(i), 3, 3, xi0(i))
                    ELSE \* gamma (1/xi0 - 1/xi) = y lambda   <=>   gamma (xi - xi0) = y lambda xi xi0
                         Approx(Mul(ev.gamma, Sub(ev.xi[i], xi0(i))), Mul(signedLam(i), Mul(ev.xi[i], xi0(i))), 1, 1,
                                Add(Mul(ev.gamma, Add(ev.xi[i], xi0(i))), Mul(Abs(ev.lam[i]), Mul(ev.xi[i], xi0(i))))))
          ELSE {})
    \cup (IF converged /\ ev.has_xi
          THEN G("C11.complementary_slackness_at_convergence",
                 \A i \in 1..nC :
                    \/ Approx(p(i), ev.xi[i], 1, 1, ev.xi[i])
                    \/ IsZero(ev.lam[i]) /\ (IF ev.y[i] = 1 THEN Leq(p(i), ev.xi[i]) ELSE Leq(ev.xi[i], p(i))))
          ELSE {})
    \cup (IF \A i \in 1..nC : LET q == DM!QuadForm(ev.M0, ev.v[i]) IN
                IF ev.y[i] = 1 THEN Leq(q, xi0(i)) ELSE Leq(xi0(i), q)
          THEN G("C11.prior_returned_when_it_satisfies_all_bounds", ApproxM(M, ev.M0, 2, 2, MaxAbsM(ev.M0)))
          ELSE {}),
    {"C11.M_is_symmetric_positive_definite", "C11.duals_nonnegative",
     "C11.inverse_difference_is_signed_combination_of_constraints"}
    \cup (IF ev.has_xi THEN {"C11.slack_relation"} ELSE {})
    \cup (IF converged /\ ev.has_xi THEN {"C11.complementary_slackness_at_convergence"} ELSE {})
    \cup (IF \A i \in 1..nC : LET q == DM!QuadForm(ev.M0, ev.v[i]) IN
                IF ev.y[i] = 1 THEN Leq(q, xi0(i)) ELSE Leq(xi0(i), q)
          THEN {"C11.prior_returned_when_it_satisfies_all_bounds"} ELSE {}))

Init == tid \in 1..Len(Traces) /\ l = 1 /\ fails = {} /\ ex = {}
Next == /\ l <= Len(Traces[tid].events)
        /\ LET r == Step(Traces[tid].events[l])
           IN  fails' = fails \cup {x \o "@" \o ToString(l) : x \in r.fails} /\ ex' = ex \cup r.ex
        /\ l' = l + 1 /\ UNCHANGED tid
Done   == l = Len(Traces[tid].events) + 1
Report == Done => PrintT(<<"VERDICT", Traces[tid].tid, fails, ex>>)
=============================================================================
