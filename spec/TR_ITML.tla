------------------------------- MODULE TR_ITML -------------------------------
(***************************************************************************)
(* Trace spec for C11: one event per real ITML / ITML_Supervised fit with  *)
(* the constraint difference vectors, labels, gamma, the prior matrix, the *)
(* learned components_, and untrusted witnesses: inverses of M and M0, a   *)
(* Cholesky factor of M, the duals lambda and slack bounds xi (read from   *)
(* the solver frame at return; NNLS fallback).  TLC verifies the witnesses *)
(* and evaluates the KKT certificate of ITML.tla in exact arithmetic.      *)
(***************************************************************************)
EXTENDS DyMat, ITML, TLC, Json, IOUtils
Batch  == JsonDeserialize(IOEnv.TRACE_FILE)
Traces == Batch.traces
VARIABLES tid, l, fails, ex
vars == <<tid, l, fails, ex>>
R(f, e) == [fails |-> f, ex |-> e]
G(c, ok) == IF ok THEN {} ELSE {c}
IdentM(n) == [i \in 1..n |-> [j \in 1..n |-> IF i = j THEN One ELSE Zero]]

RECURSIVE SumM(_, _, _)
SumM(f, i, n) == IF i > n THEN <<>> ELSE IF i = n THEN f[i] ELSE DM!MAdd(f[i], SumM(f, i + 1, n))

FitStep(ev) ==
  LET d  == Len(ev.M0)
      M  == DM!Gram(ev.L)
      nC == Len(ev.v)
      sP == Add(MaxAbsM(ev.P), MaxAbsM(ev.P0))
      invOK == /\ AllFinM(ev.P) /\ AllFinM(ev.P0)
               /\ ApproxM(DM!MatMul(M, ev.P), IdentM(d), 1, 1, Mul(MaxAbsM(M), MaxAbsM(ev.P)))
               /\ ApproxM(DM!MatMul(ev.M0, ev.P0), IdentM(d), 1, 1, Mul(MaxAbsM(ev.M0), MaxAbsM(ev.P0)))
      signedLam(i) == IF ev.y[i] = 1 THEN ev.lam[i] ELSE Neg(ev.lam[i])
      comb == SumM([i \in 1..nC |-> DM!MScale(signedLam(i), DM!Outer(ev.v[i], ev.v[i]))], 1, nC)
      p(i) == DM!QuadForm(M, ev.v[i])
      xi0(i) == IF ev.y[i] = 1 THEN ev.bounds[1] ELSE ev.bounds[2]
      converged == ev.n_iter + 1 < ev.max_iter /\ ev.tight_tol
  IN
  IF ev.exc # "" THEN R({"C11.fit_returns"}, {})
  ELSE IF ~AllFinM(ev.L) THEN R({"C11.M_is_finite"}, {})
  ELSE IF ~invOK THEN R({}, {"X11.inverse_witness_rejected"})
  \* outside the precision of a floating-point certificate (counted, never a violation): a bound that is 2^-30 or
  \* less of the squared length of a constraint vector (the documented replacement of a zero bound by 1e-9 does
  \* that) drives the duals to ~1/bound, and a condition number beyond 2^27 makes the inverse witnesses useless
  ELSE IF \E i \in 1..nC : Lt(Shift(xi0(i), 2), DM!Norm2(ev.v[i])) THEN R({}, {"X11.degenerate_bound"})
  ELSE IF Gt(Mul(MaxAbsM(M), MaxAbsM(ev.P)), <<1, 1, <<4096>>>>) THEN R({}, {"X11.ill_conditioned"})
  ELSE R(
    G("C11.supervised_constraints_are_implied_by_the_labels", ev.constraints_ok)
    \cup G("C11.M_is_symmetric_positive_definite",
      AllFinM(ev.chol) /\ (\A i \in 1..d : IsPos(ev.chol[i][i])) /\ ApproxM(DM!Gram(ev.chol), M, 1, 1, MaxAbsM(M)))
    \cup G("C11.duals_nonnegative", \A i \in 1..nC : IsFin(ev.lam[i]) /\ ~IsNeg(ev.lam[i]))
    \cup G("C11.inverse_difference_is_signed_combination_of_constraints",
           \* exact in exact arithmetic; in floating point the identity drifts with the number of rank-one updates
           \* (each update divides by 1 -/+ alpha p, which cancels badly once the duals are large): 2^-15 of the
           \* scale for runs of < 200 sweeps, 2^-7 beyond.  An inconsistent dual / matrix update is O(1) of the scale.
           LET D == DM!MSub(DM!MSub(ev.P, ev.P0), comb)
               tolK2 == IF ev.n_iter < 200 THEN Shift(sP, -1) ELSE Mul(sP, <<1, -1, <<256>>>>)
           IN \A i \in 1..d : \A j \in 1..d : Leq(Abs(D[i][j]), tolK2))
    \cup (IF ev.has_xi
          THEN G("C11.slack_relation",
                 \A i \in 1..nC :
                    IF ev.gamma_inf THEN Approx(ev.xi[i], xi0(i), 3, 3, xi0(i))
                    ELSE \* gamma (1/xi0 - 1/xi) = y lambda   <=>   gamma (xi - xi0) = y lambda xi xi0
                         Approx(Mul(ev.gamma, Sub(ev.xi[i], xi0(i))), Mul(signedLam(i), Mul(ev.xi[i], xi0(i))), 1, 1,
                                Add(Mul(ev.gamma, Add(ev.xi[i], xi0(i))), Mul(Abs(ev.lam[i]), Mul(ev.xi[i], xi0(i))))))
          ELSE {})
    \cup (IF converged /\ ev.has_xi
          THEN G("C11.complementary_slackness_at_convergence",
                 \A i \in 1..nC :
                    \/ Approx(p(i), ev.xi[i], 1, 1, ev.xi[i])
                    \/ IsZero(ev.lam[i]) /\ (IF ev.y[i] = 1 THEN Leq(p(i), ev.xi[i]) ELSE Leq(ev.xi[i], p(i))))
          ELSE {})
    \cup (IF \A i \in 1..nC : LET q == DM!QuadForm(ev.M0, ev.v[i]) IN
                IF ev.y[i] = 1 THEN Leq(q, xi0(i)) ELSE Leq(xi0(i), q)
          THEN G("C11.prior_returned_when_it_satisfies_all_bounds", ApproxM(M, ev.M0, 2, 2, MaxAbsM(ev.M0)))
          ELSE {}),
    {"C11.M_is_symmetric_positive_definite", "C11.duals_nonnegative", "C11.supervised_constraints_are_implied_by_the_labels",
     "C11.inverse_difference_is_signed_combination_of_constraints"}
    \cup (IF ev.has_xi THEN {"C11.slack_relation"} ELSE {})
    \cup (IF converged /\ ev.has_xi THEN {"C11.complementary_slackness_at_convergence"} ELSE {})
    \cup (IF \A i \in 1..nC : LET q == DM!QuadForm(ev.M0, ev.v[i]) IN
                IF ev.y[i] = 1 THEN Leq(q, xi0(i)) ELSE Leq(xi0(i), q)
          THEN {"C11.prior_returned_when_it_satisfies_all_bounds"} ELSE {}))

(***************************************************************************)
(* "ItmlSweeps": a small fit (few constraints, few sweeps, data on a coarse *)
(* dyadic grid) replayed against the projection machine of ITML.tla in      *)
(* exact rational arithmetic.  Logged: constraint vectors in the order of   *)
(* the implementation, labels, gamma, bounds_, the prior, max_iter, tol,    *)
(* n_iter_ and components_.  Not logged: duals and slack bounds - the       *)
(* machine carries them.  Behaviour beyond C11 (clause prefix G11): the     *)
(* matrix after n_iter_ + 1 sweeps is the machine's, and the loop stopped   *)
(* exactly when the documented criterion said so (a window of 2^-20 around  *)
(* tol is left open: the implementation evaluates it in floating point).    *)
(***************************************************************************)
ToR(x) == RatNorm(x, One)
SweepStep(ev) ==
  LET d   == Len(ev.M0)
      nC  == Len(ev.v)
      cs  == [i \in 1..nC |-> [v |-> [j \in 1..d |-> ToR(ev.v[i][j])] \o <<>>, y |-> ev.y[i]]] \o <<>>
      g   == IF ev.gamma_inf THEN GammaInf ELSE ToR(ev.gamma)
      A0  == [i \in 1..d |-> [j \in 1..d |-> ToR(ev.M0[i][j])] \o <<>>] \o <<>>
      n   == ev.n_iter + 1
      S   == SweepSeq(<<MachineInit(A0, cs, ToR(ev.bounds[1]), ToR(ev.bounds[2]))>>, cs, g, n)
      M   == DM!Gram(ev.L)
      tolA == Shift(Add(MaxAbsM(M), MaxAbsM(ev.M0)), -2)
      close(i, j) == LET a == S[n + 1].A[i][j] IN Leq(Abs(Sub(Mul(M[i][j], a[2]), a[1])), Mul(tolA, a[2]))
      tS  == RMul(ToR(ev.tol), <<FromInt(1048575), FromInt(1048576)>>)
      tL  == RMul(ToR(ev.tol), <<FromInt(1048577), FromInt(1048576)>>)
  IN
  IF ev.exc # "" THEN R({"G11.small_fit_returns"}, {})
  ELSE IF ~AllFinM(ev.L) THEN R({"G11.small_fit_is_finite"}, {})
  \* NAMED DEVIATION of the implementation: "no slack" is recognised by `gamma is np.inf`, an identity test.  Infinity held by
  \* any other float object gives gamma / (gamma + 1) = NaN, every alpha = min(lambda, NaN) = lambda = 0, and the fit returns
  \* the prior after one sweep without any message.  (Outside C11, whose quantifier is gamma in (0, inf).)
  ELSE IF ev.gamma_inf /\ ~ev.gamma_is_np_inf
       THEN R(G("G11.deviation_infinite_gamma_in_another_float_object_returns_the_prior",
                ev.n_iter = 0 /\ ApproxM(M, ev.M0, 2, 2, MaxAbsM(ev.M0))),
              {"G11.deviation_infinite_gamma_in_another_float_object_returns_the_prior"})
  ELSE R(
    G("G11.matrix_after_the_sweeps_is_that_of_the_projection_machine", \A i \in 1..d : \A j \in 1..d : close(i, j))
    \cup G("G11.no_sweep_before_the_last_met_the_stopping_rule", \A j \in 1..(n - 1) : ~StopsAfter(S[j].lam, S[j + 1].lam, tS))
    \cup (IF n < ev.max_iter THEN G("G11.stopped_early_only_by_the_stopping_rule", StopsAfter(S[n].lam, S[n + 1].lam, tL)) ELSE {})
    \cup G("G11.machine_keeps_duals_nonnegative", \A j \in 1..(n + 1) : DualFeasible(S[j])),
    {"G11.matrix_after_the_sweeps_is_that_of_the_projection_machine", "G11.no_sweep_before_the_last_met_the_stopping_rule",
     "G11.machine_keeps_duals_nonnegative"}
    \cup (IF n < ev.max_iter THEN {"G11.stopped_early_only_by_the_stopping_rule"} ELSE {}))

Step(ev) == IF ev.ev = "ItmlSweeps" THEN SweepStep(ev) ELSE FitStep(ev)

Init == tid \in 1..Len(Traces) /\ l = 1 /\ fails = {} /\ ex = {}
Next == /\ l <= Len(Traces[tid].events)
        /\ LET r == Step(Traces[tid].events[l])
           IN  fails' = fails \cup {x \o "@" \o ToString(l) : x \in r.fails} /\ ex' = ex \cup r.ex
        /\ l' = l + 1 /\ UNCHANGED tid
Done   == l = Len(Traces[tid].events) + 1
Report == Done => PrintT(<<"VERDICT", Traces[tid].tid, fails, ex>>)
=============================================================================
