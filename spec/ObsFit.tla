------------------------------- MODULE ObsFit -------------------------------
(***************************************************************************)
(* C03: postcondition of `fit` for a documented configuration on a         *)
(* well-formed training set, evaluated on what the real code returned.     *)
(* ev.cfg is the configuration enumerated by MC_Options (Options.tla),     *)
(* ev.d / ev.n the shape of the points seen by this fit.                   *)
(***************************************************************************)
EXTENDS Integers, Sequences, FiniteSets, DyMat, Options

FF(c, ok) == IF ok THEN {} ELSE {c}

FitFails(ev) ==
  LET c == ev.cfg
      L == ev.L
      rows == Len(L)
      MS == Sq(Sum1M(L))
  IN  IF ev.exc # "" THEN {"C03.fit_returns"}
      ELSE FF("C03.returns_self", ev.returned_self)
           \cup FF("C03.real_float_2d", ev.dtype_kind = "f" /\ ev.ndim = 2)
           \cup FF("C03.finite", AllFinM(L))
           \cup FF("C03.n_columns", \A i \in 1..rows : Len(L[i]) = ev.d)
           \cup FF("C03.n_rows",
                   IF MayBeLowRank(c)
                   THEN rows = ev.d \/ (rows < ev.d /\ ev.lowrank_warning)
                   ELSE rows = ExpectedK(c))
           \cup FF("C03.n_features_in", ev.nfeat = ev.d)
           \cup FF("C03.transform_shape", ev.tshape = <<ev.n, rows>>)
           \cup FF("C03.M_symmetric_psd",
                   /\ Len(ev.M) = ev.d /\ AllFinM(ev.M)
                   /\ \A i \in 1..ev.d : \A j \in 1..ev.d : Approx(ev.M[i][j], ev.M[j][i], 3, 3, MS)
                   /\ \A p \in 1..Len(ev.probes) :
                        Geq(DM!QuadForm(ev.M, ev.probes[p]),
                            Neg(Shift(Mul(MS, Sq(MaxAbsV(ev.probes[p]))), -2))))
FitEx == {"C03.fit_returns", "C03.returns_self", "C03.real_float_2d", "C03.finite", "C03.n_columns",
          "C03.n_rows", "C03.n_features_in", "C03.transform_shape", "C03.M_symmetric_psd"}
=============================================================================
