------------------------------ MODULE MC_Metric ------------------------------
(***************************************************************************)
(* Exhaustive model for C01 / C02 on a small exact domain: every integer   *)
(* transformation L with entries in -R..R of shape K x D (rank-deficient   *)
(* ones included) and every triple of points on the grid -P..P ^ D.  The   *)
(* DEFINITION of the learned distance is a pseudo-metric and all its views *)
(* coincide; so any deviation observed on the code is a deviation from the *)
(* definition.  Nondeterminism is split over two levels (pick L in Init,   *)
(* pick the triple in Next) so that all TLC workers are used.              *)
(***************************************************************************)
EXTENDS Integers, Sequences, FiniteSets, TLC
CONSTANTS K, D, R, P

IAdd(a, b) == a + b
IMul(a, b) == a * b
ISub(a, b) == a - b
ILeq(a, b) == a <= b
MH == INSTANCE Mahalanobis WITH Zero <- 0, Add <- IAdd, Mul <- IMul, Sub <- ISub, Leq <- ILeq
MI == INSTANCE Mat WITH Zero <- 0, Add <- IAdd, Mul <- IMul, Sub <- ISub, Leq <- ILeq

VARIABLES L, x, y, z, phase
vars == <<L, x, y, z, phase>>

Pts  == [1..D -> -P..P]
LMat == [1..K -> [1..D -> -R..R]]

Init == L \in LMat /\ x = [i \in 1..D |-> 0] /\ y = x /\ z = x /\ phase = "model"
PickX == phase = "model" /\ phase' = "x" /\ x' \in Pts /\ UNCHANGED <<L, y, z>>
PickY == phase = "x" /\ phase' = "xy" /\ y' \in Pts /\ UNCHANGED <<L, x, z>>
PickZ == phase = "xy" /\ phase' = "query" /\ z' \in Pts /\ UNCHANGED <<L, x, y>>
Next == PickX \/ PickY \/ PickZ

dxy == MH!SqDist(L, x, y)
dyx == MH!SqDist(L, y, x)
dyz == MH!SqDist(L, y, z)
dxz == MH!SqDist(L, x, z)

NonNegative  == dxy >= 0
ZeroSelf     == MH!SqDist(L, x, x) = 0
Symmetric    == dxy = dyx
Triangle     == MH!TriangleSq(dxz, dxy, dyz)
(* C02: all views agree and M is symmetric PSD *)
ViewM        == MH!SqDistM(MH!MetricMatrix(L), x, y) = dxy
ViewEmbed    == MH!SqEuclid(MH!Embed(L, x), MH!Embed(L, y)) = dxy
MSymmetric   == MI!IsSym(MH!MetricMatrix(L))
MPSD         == MI!QuadForm(MH!MetricMatrix(L), x) >= 0
(* sanity of the squared-form triangle test itself: on perfect squares it agrees with the plain one *)
IsSq(n) == \E r \in 0..(4 * K * D * R * P + 1) : r * r = n
Root(n) == CHOOSE r \in 0..(4 * K * D * R * P + 1) : r * r = n
TriangleFormOK == (IsSq(dxz) /\ IsSq(dxy) /\ IsSq(dyz)) =>
                     (MH!TriangleSq(dxz, dxy, dyz) <=> Root(dxz) <= Root(dxy) + Root(dyz))
=============================================================================
