---------------------------- MODULE Mahalanobis ----------------------------
(***************************************************************************)
(* What a fitted Mahalanobis learner MEANS (documentation of               *)
(* MahalanobisMixin): a linear map L (components_, k x d); the embedding   *)
(* x |-> L x; the squared distance ||L(x - y)||^2; the matrix M = L^T L.   *)
(* All "views" of the metric are defined from L alone.  Squared forms are  *)
(* used throughout so that no irrational number is needed.                 *)
(***************************************************************************)
EXTENDS Integers, Sequences
CONSTANTS Zero, Add(_, _), Mul(_, _), Sub(_, _), Leq(_, _)

M == INSTANCE Mat

Embed(L, x)       == M!MatVec(L, x)                    \* transform of one point
Transform(L, X)   == [i \in 1..Len(X) |-> Embed(L, X[i])]
SqDist(L, x, y)   == M!Norm2(Embed(L, M!VSub(x, y)))   \* d(x,y)^2
MetricMatrix(L)   == M!Gram(L)
SqDistM(Mt, x, y) == M!QuadForm(Mt, M!VSub(x, y))      \* (x-y)^T M (x-y)
SqEuclid(a, b)    == M!Norm2(M!VSub(a, b))

(* pseudo-metric axioms in squared form; a = d(x,z)^2, b = d(x,y)^2, c = d(y,z)^2 *)
NonNeg(a)  == Leq(Zero, a)
(* sqrt a <= sqrt b + sqrt c  <=>  a <= b + c  \/  (a - b - c)^2 <= 4 b c  (all >= 0) *)
TriangleSq(a, b, c) ==
  LET r == Sub(Sub(a, b), c)
  IN  Leq(r, Zero) \/ Leq(Mul(r, r), Mul(Add(Add(Add(b, b), b), b), c))
=============================================================================
