------------------------------ MODULE Classify ------------------------------
(***************************************************************************)
(* What the tuple classifiers MEAN (documentation of the pairs / triplets  *)
(* / quadruplets mixins), over a parameterised ordered group so that the   *)
(* same definitions are model-checked on integers (MC_Classify) and        *)
(* evaluated on exact doubles in trace validation (ObsClassify).           *)
(***************************************************************************)
EXTENDS Integers, Sequences
CONSTANTS Zero, Sub(_, _), Neg(_), Leq(_, _)

Lt(a, b) == Leq(a, b) /\ a # b

(* pairs: +1 (similar) exactly when the learned distance is <= threshold_ *)
PairPredict(d, thr) == IF Leq(d, thr) THEN 1 ELSE -1
PairDecision(d)     == Neg(d)

(* triplets (a, b, c): +1 exactly when d(a,b) < d(a,c) *)
TripletDecision(dab, dac) == Sub(dac, dab)
TripletPredict(dab, dac)  == IF Lt(dab, dac) THEN 1 ELSE -1

(* quadruplets (a, b, c, d): sign of d(c,d) - d(a,b) *)
QuadDecision(dab, dcd) == Sub(dcd, dab)
QuadPredict(dab, dcd)  == IF Lt(dab, dcd) THEN 1 ELSE IF dab = dcd THEN 0 ELSE -1

(* ROC-AUC of decision values s against labels y in {-1,+1}, by exact pair counting:        *)
(* AUC = (concordant + ties/2) / (P * N).  Auc2 is twice the numerator, PN the denominator. *)
RECURSIVE CountFrom(_, _, _, _)
CountFrom(s, y, i, j) ==
  IF i > Len(s) THEN 0
  ELSE IF j > Len(s) THEN CountFrom(s, y, i + 1, 1)
  ELSE (IF y[i] = 1 /\ y[j] = -1
        THEN (IF Lt(s[j], s[i]) THEN 2 ELSE IF s[i] = s[j] THEN 1 ELSE 0)
        ELSE 0) + CountFrom(s, y, i, j + 1)
Auc2(s, y) == CountFrom(s, y, 1, 1)
NPos(y) == Len(SelectSeq(y, LAMBDA v : v = 1))
NNeg(y) == Len(SelectSeq(y, LAMBDA v : v = -1))
PN(y)   == NPos(y) * NNeg(y)

(* fraction of +1 predictions, as numerator / denominator *)
NumPlus(p) == Len(SelectSeq(p, LAMBDA v : v = 1))
=============================================================================
