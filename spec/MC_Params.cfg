CONSTANTS Names = {"a", "b", "c"}
 Tokens = {1, 2}
 DefaultTok = 0
 MaxOps = 3
INIT Init
NEXT Next
INVARIANT RoundTrip
INVARIANT Total
CHECK_DEADLOCK FALSE
