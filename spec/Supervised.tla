------------------------------ MODULE Supervised ------------------------------
(***************************************************************************)
(* C08: a *_Supervised estimator = constraint generation from the labels   *)
(* (with the estimator's random_state) followed by the weakly-supervised   *)
(* base algorithm with the same hyper-parameters.  Which generator and     *)
(* which tuple shape each class uses is the documented table below.        *)
(***************************************************************************)
EXTENDS Integers, Sequences, FiniteSets

Generator == [ITML_Supervised |-> "pairs", MMC_Supervised |-> "pairs", SDML_Supervised |-> "pairs",
              LSML_Supervised |-> "quadruplets", RCA_Supervised |-> "chunks", SCML_Supervised |-> "knn_triplets"]
Base      == [ITML_Supervised |-> "ITML", MMC_Supervised |-> "MMC", SDML_Supervised |-> "SDML",
              LSML_Supervised |-> "LSML", RCA_Supervised |-> "RCA", SCML_Supervised |-> "SCML"]
(* default number of pair constraints *)
DefaultNConstraints(nClasses) == 20 * nClasses * nClasses
(* LSML_Supervised draws as many negative as positive pairs (pair-of-pairs quadruplets) *)
SameLength(cls) == cls = "LSML_Supervised"
=============================================================================
