--------------------------------- MODULE SDML ---------------------------------
(***************************************************************************)
(* C13: SDML minimises over positive definite M                            *)
(*    g(M) = tr(E M) - logdet M + alpha * ||M||_1,off                      *)
(*    E    = M0^-1 + balance * SUM_i y_i v_i v_i^T                         *)
(* Optimality is certified by a DUAL-FEASIBLE point W (weak duality):      *)
(*    W positive definite, W_ii = E_ii, |W_ij - E_ij| <= alpha (i # j)     *)
(*    g(M) >= g* >= logdet W + d     so     Gap = g(M) - logdet W - d >= 0 *)
(* bounds the sub-optimality of M.  logdet enters through the (witnessed   *)
(* and verified) Cholesky factor and a table of libm logs.                 *)
(***************************************************************************)
EXTENDS DyMat, FiniteSets

SumMatSeq(f, i, d) == DM!SumMats(f, i, d)           \* (Mat.tla: evaluated eagerly)
(* the matrix handed to the graphical lasso *)
EmpiricalMatrix(P0, balance, v, y) ==
  LET d == Len(P0) IN
  DM!MAdd(P0, DM!MScale(balance,
          SumMatSeq([i \in 1..Len(v) |-> DM!MScale(FromInt(y[i]), DM!Outer(v[i], v[i]))], 1, d)))

OffDiagL1(M) == DM!Sum([i \in 1..Len(M) |-> DM!Sum([j \in 1..Len(M) |-> IF i = j THEN Zero ELSE Abs(M[i][j])])])
LogDetFromLogs(logs) == LET s == DM!Sum(logs) IN Add(s, s)
Primal(E, M, alpha, logsM) == Add(Sub(DM!MatInner(E, M), LogDetFromLogs(logsM)), Mul(alpha, OffDiagL1(M)))
Dual(W, logsW) == Add(LogDetFromLogs(logsW), FromInt(Len(W)))

DualFeasible(W, E, alpha) ==
  \A i \in 1..Len(W) : \A j \in 1..Len(W) :
     IF i = j THEN W[i][j] = E[i][j] ELSE Leq(Abs(Sub(W[i][j], E[i][j])), alpha)
IsCholesky(R, A) == /\ AllFinM(R) /\ Len(R) = Len(A) /\ (\A i \in 1..Len(R) : IsPos(R[i][i]))
                    /\ ApproxM(DM!Gram(R), A, 2, 2, MaxAbsM(A))

(* ---- the documented prior M0 ------------------------------------------------------------------------------------ *)
(* 'identity': M0 = I.  'covariance': M0^-1 = covariance of the DISTINCT points that occur in the pairs (a point      *)
(* shared by several pairs counts once).  n(n-1) * cov = n SUM x x^T - (SUM x)(SUM x)^T exactly, no division.          *)
RowSet(P) == {P[i] : i \in 1..Len(P)}
SeqOfSet(S) == LET RECURSIVE F(_) F(s) == IF s = {} THEN <<>> ELSE LET x == CHOOSE x \in s : TRUE IN <<x>> \o F(s \ {x}) IN F(S)
ScatterN(X) ==
  LET n == Len(X)  d == Len(X[1])
      s == [j \in 1..d |-> DM!Sum([i \in 1..n |-> X[i][j]])]
  IN [a \in 1..d |-> [b \in 1..d |->
        Sub(Mul(FromInt(n), DM!Sum([i \in 1..n |-> Mul(X[i][a], X[i][b])])), Mul(s[a], s[b]))]]
IsCovariancePriorInverse(P0, pts) ==
  LET X == SeqOfSet(RowSet(pts))
      n == Len(X)
      S == ScatterN(X)
  IN n >= 2 /\ ApproxM(DM!MScale(FromInt(n * (n - 1)), P0), S, 2, 2, MaxAbsM(S))
IsIdentity(A) == \A i \in 1..Len(A) : \A j \in 1..Len(A) : A[i][j] = (IF i = j THEN One ELSE Zero)
=============================================================================
