--------------------------------- MODULE SDML ---------------------------------
(***************************************************************************)
(* C13: SDML minimises over positive definite M                            *)
(*    g(M) = tr(E M) - logdet M + alpha * ||M||_1,off                      *)
(*    E    = M0^-1 + balance * SUM_i y_i v_i v_i^T                         *)
(* Optimality is certified by a DUAL-FEASIBLE point W (weak duality):      *)
(*    W positive definite, W_ii = E_ii, |W_ij - E_ij| <= alpha (i # j)     *)
(*    g(M) >= g* >= logdet W + d     so     Gap = g(M) - logdet W - d >= 0 *)
(* bounds the sub-optimality of M.  logdet enters through the (witnessed   *)
(* and verified) Cholesky factor and a table of libm logs.                 *)
(***************************************************************************)
EXTENDS DyMat

RECURSIVE SumMatSeq(_, _, _)
SumMatSeq(f, i, d) == IF i > Len(f) THEN DM!ZeroMat(d, d) ELSE DM!MAdd(f[i], SumMatSeq(f, i + 1, d))
(* the matrix handed to the graphical lasso *)
EmpiricalMatrix(P0, balance, v, y) ==
  LET d == Len(P0) IN
  DM!MAdd(P0, DM!MScale(balance,
          SumMatSeq([i \in 1..Len(v) |-> DM!MScale(FromInt(y[i]), DM!Outer(v[i], v[i]))], 1, d)))

OffDiagL1(M) == DM!Sum([i \in 1..Len(M) |-> DM!Sum([j \in 1..Len(M) |-> IF i = j THEN Zero ELSE Abs(M[i][j])])])
LogDetFromLogs(logs) == LET s == DM!Sum(logs) IN Add(s, s)
Primal(E, M, alpha, logsM) == Add(Sub(DM!MatInner(E, M), LogDetFromLogs(logsM)), Mul(alpha, OffDiagL1(M)))
Dual(W, logsW) == Add(LogDetFromLogs(logsW), FromInt(Len(W)))

DualFeasible(W, E, alpha) ==
  \A i \in 1..Len(W) : \A j \in 1..Len(W) :
     IF i = j THEN W[i][j] = E[i][j] ELSE Leq(Abs(Sub(W[i][j], E[i][j])), alpha)
IsCholesky(R, A) == /\ AllFinM(R) /\ Len(R) = Len(A) /\ (\A i \in 1..Len(R) : IsPos(R[i][i]))
                    /\ ApproxM(DM!Gram(R), A, 2, 2, MaxAbsM(A))
=============================================================================
