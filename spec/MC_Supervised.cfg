CONSTANTS Classes = {"ITML_Supervised", "MMC_Supervised", "SDML_Supervised", "LSML_Supervised", "RCA_Supervised", "SCML_Supervised"}
 Hypers = {1, 2}
 Labels <- LabelVectors
 Seeds = {1, 2}
INIT Init
NEXT Next
INVARIANT SameModel
INVARIANT GeneratorTotal
CHECK_DEADLOCK FALSE
