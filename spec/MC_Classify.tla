----------------------------- MODULE MC_Classify -----------------------------
(***************************************************************************)
(* The threshold life-cycle of a pairs classifier and the decision rules   *)
(* of all three tuple classifiers on a small integer domain with every tie *)
(* pattern (distance = threshold, equal distances, zero distance).         *)
(* Actions: Fit / Calibrate (threshold := some calibrated value),          *)
(* SetThreshold(t), Predict(d).  Only those three change the threshold.    *)
(* The behaviours of this model are also replayed into the real code.      *)
(***************************************************************************)
EXTENDS Integers, Sequences, FiniteSets, TLC
CONSTANTS DMax, TSet, MaxOps

ISub(a, b) == a - b
INeg(a) == -a
ILeq(a, b) == a <= b
C == INSTANCE Classify WITH Zero <- 0, Sub <- ISub, Neg <- INeg, Leq <- ILeq

Dist == 0..DMax
TSetDefault == {-1, 0, 1, 2, 3}
VARIABLES phase, thr, hist, nops
vars == <<phase, thr, hist, nops>>

Init == phase = "unfitted" /\ thr = 0 /\ hist = <<>> /\ nops = 0

Fit(t) == /\ nops < MaxOps /\ phase' = "fitted" /\ thr' = t
          /\ hist' = Append(hist, <<"fit", t>>) /\ nops' = nops + 1
Calibrate(t) == /\ nops < MaxOps /\ phase = "fitted" /\ thr' = t /\ UNCHANGED phase
                /\ hist' = Append(hist, <<"calibrate", t>>) /\ nops' = nops + 1
SetThreshold(t) == /\ nops < MaxOps /\ phase = "fitted" /\ thr' = t /\ UNCHANGED phase
                   /\ hist' = Append(hist, <<"set_threshold", t>>) /\ nops' = nops + 1
Predict(d) == /\ nops < MaxOps /\ phase = "fitted" /\ UNCHANGED <<phase, thr>>
              /\ hist' = Append(hist, <<"predict", d, C!PairPredict(d, thr)>>) /\ nops' = nops + 1
Next == \/ \E t \in TSet : Fit(t) \/ Calibrate(t) \/ SetThreshold(t)
        \/ \E d \in Dist : Predict(d)

(* threshold in force at history position i = value of the last fit/calibrate/set_threshold before i *)
RECURSIVE ThrAt(_, _)
ThrAt(h, i) == IF i = 0 THEN 0
               ELSE IF h[i][1] \in {"fit", "calibrate", "set_threshold"} THEN h[i][2]
               ELSE ThrAt(h, i - 1)

PredictUsesCurrentThreshold ==
  \A i \in 1..Len(hist) : hist[i][1] = "predict" =>
      hist[i][3] = (IF hist[i][2] <= ThrAt(hist, i - 1) THEN 1 ELSE -1)
MonotoneInDistance ==
  \A i, j \in 1..Len(hist) :
     (hist[i][1] = "predict" /\ hist[j][1] = "predict" /\ ThrAt(hist, i) = ThrAt(hist, j)
        /\ hist[i][2] <= hist[j][2] /\ hist[j][3] = 1) => hist[i][3] = 1
ThresholdOnlyChangedByThreeActions ==
  [][thr' # thr => \E t \in TSet : Fit(t) \/ Calibrate(t) \/ SetThreshold(t)]_vars

(* decision rules: exhaustive over all pairs of distances *)
TripletRules == \A a, b \in Dist :
   /\ C!TripletDecision(a, b) = -C!TripletDecision(b, a)                 \* swap negates
   /\ (C!TripletPredict(a, b) = 1) <=> (a < b)
   /\ (C!TripletPredict(a, b) = 1) <=> (C!TripletDecision(a, b) > 0)
   /\ (a = b) => (C!TripletPredict(a, b) = -1 /\ C!TripletPredict(b, a) = -1)
QuadRules == \A a, b \in Dist :
   /\ C!QuadDecision(a, b) = -C!QuadDecision(b, a)
   /\ C!QuadPredict(a, b) = -C!QuadPredict(b, a)
   /\ C!QuadPredict(a, b) = (IF b - a > 0 THEN 1 ELSE IF b - a = 0 THEN 0 ELSE -1)
PairRules == \A d \in Dist : \A t \in TSet :
   /\ (C!PairPredict(d, t) = 1) <=> (d <= t)
   /\ C!PairDecision(d) = -d
(* AUC by pair counting: perfect separation gives 1, flipping the labels gives the complement *)
AucRules == \A a, b, c \in Dist :
   LET s == <<-a, -b, -c>>  y == <<1, -1, -1>>  yf == <<-1, 1, 1>>
   IN  /\ C!PN(y) = 2 /\ C!Auc2(s, y) \in 0..4
       /\ C!Auc2(s, y) + C!Auc2(s, yf) = 2 * C!PN(y)
       /\ (a < b /\ a < c) => C!Auc2(s, y) = 2 * C!PN(y)
=============================================================================
