---------------------------- MODULE MC_Calibrate ----------------------------
(***************************************************************************)
(* Exhaustive model of threshold calibration on tie-rich validation sets:  *)
(* every labelled multiset of up to N pairs with distances in 0..DMax      *)
(* (heavy ties, conflicting duplicates, zero distances), both labels       *)
(* present, x strategy x beta^2 x min_rate (as Num/Den).  Invariants: an   *)
(* optimal achievable cut-off always exists; ANY threshold value has the   *)
(* confusion counts of one of the finitely many candidates (so the finite  *)
(* candidate set is complete); documented corner cases.  Every state is    *)
(* also a test case for the real calibrate_threshold (spec -> code).       *)
(***************************************************************************)
EXTENDS Integers, Sequences, FiniteSets, TLC
CONSTANTS N, DMax

IAdd(a, b) == a + b
IMul(a, b) == a * b
ILeq(a, b) == a <= b
IFrom(n) == n
ISlack(n) == n
C == INSTANCE Calibrate WITH Zero <- 0, Add <- IAdd, Mul <- IMul, Leq <- ILeq, FromInt <- IFrom, Slack <- ISlack

VARIABLES D, Y, strategy, b2n, mrn
vars == <<D, Y, strategy, b2n, mrn>>
(* beta^2 = b2n / 4 and min_rate = mrn / 4 ; in the integer model both sides are scaled by 4 *)
B2 == {0, 1, 4, 16}          \* beta in {0, 1/2, 1, 2}
MR == 0..4                    \* min_rate in {0, 1/4, 1/2, 3/4, 1}

Sym == {<<d, y>> : d \in 0..DMax, y \in {-1, 1}}
Ord(p) == 2 * p[1] + (IF p[2] = 1 THEN 1 ELSE 0)
(* multisets as non-decreasing sequences of symbols *)
SortedSeqs(n) == {s \in [1..n -> Sym] : \A i \in 1..(n - 1) : Ord(s[i]) <= Ord(s[i + 1])}
Cases == UNION {SortedSeqs(n) : n \in 2..N}

Init == \E s \in Cases :
          /\ D = [i \in 1..Len(s) |-> s[i][1]] /\ Y = [i \in 1..Len(s) |-> s[i][2]]
          /\ \E i, j \in 1..Len(s) : s[i][2] = 1 /\ s[j][2] = -1
          /\ strategy \in C!Strategies
          /\ b2n \in (IF strategy = "f_beta" THEN B2 ELSE {4})
          /\ mrn \in (IF strategy \in {"max_tpr", "max_tnr"} THEN MR ELSE {0})
Next == UNCHANGED vars

(* scaled ring: counts are multiplied by 4 where they meet b2n / mrn *)
Feas(c) == CASE strategy = "max_tpr" -> mrn * C!Neg(Y) <= 4 * c.tn
             [] strategy = "max_tnr" -> mrn * C!Pos(Y) <= 4 * c.tp
             [] OTHER -> TRUE
FNum4(c) == (4 + b2n) * c.tp
FDen4(c) == (4 + b2n) * c.tp + b2n * c.fn + 4 * c.fp
Better(a, b) == CASE strategy = "accuracy" -> a.tp + a.tn >= b.tp + b.tn
                  [] strategy = "f_beta" -> C!GeqFrac(FNum4(a), FDen4(a), FNum4(b), FDen4(b))
                  [] strategy = "max_tpr" -> a.tp >= b.tp
                  [] strategy = "max_tnr" -> a.tn >= b.tn
Opt(c) == Feas(c) /\ \A o \in C!Achievable(D, Y) : Feas(o) => Better(c, o)

OptimumExists == \E c \in C!Achievable(D, Y) : Opt(c)
CandidatesComplete == \A t \in -1..(DMax + 1) : C!CountsAt(D, Y, t) \in C!Achievable(D, Y)
RejectAllFeasibleForTpr == strategy = "max_tpr" => Feas(C!RejectAll(Y))
AcceptAllFeasibleForTnr == strategy = "max_tnr" => Feas(C!CountsAt(D, Y, DMax))
(* the scaled integer criteria agree with the ring-parameterised ones of Calibrate.tla (b2 = b2n/4 = 1 when b2n = 4) *)
AgreesWithRing == (b2n = 4 /\ mrn \in {0, 4}) =>
   \A c \in C!Achievable(D, Y) :
      Opt(c) <=> C!OptimalCounts(strategy, c, D, Y, 1, mrn \div 4)
ParamTable == \A s \in C!Strategies \cup {"bogus"} : \A m \in {"none", "nonnumber", "below0", "above1", "ok"} :
                \A b \in {"none", "nonnumber", "ok"} :
                  C!ParamsValid(s, m, b) <=> (s # "bogus" /\ (s \in {"max_tpr", "max_tnr"} => m = "ok") /\ (s = "f_beta" => b = "ok"))
=============================================================================
