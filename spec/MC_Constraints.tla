---------------------------- MODULE MC_Constraints ----------------------------
(***************************************************************************)
(* Exhaustive model over ALL label vectors of length 1..N on the alphabet  *)
(* {-1,0,1,2} (unknown labels, unbalanced and singleton classes).          *)
(* Checked on the model: the feasibility pre-check of `chunks` is          *)
(* equivalent to the existence of a valid chunking (brute force over all   *)
(* assignments); sound pairs exist exactly when the class structure allows *)
(* it; the k-NN triplet count formula.  The label vectors are dumped and   *)
(* replayed into the real Constraints helper (spec -> code).               *)
(***************************************************************************)
EXTENDS Constraints, TLC
CONSTANTS N, NChunks, Sizes, BruteForceLen
VARIABLES y
Alphabet == {-1, 0, 1, 2}
Init == \E n \in 1..N : y \in [1..n -> Alphabet]
Next == UNCHANGED y

FeasibleIffChunkingExists ==
  Len(y) <= BruteForceLen =>
    \A n \in NChunks : \A size \in Sizes :
       Feasible(y, n, size) <=> \E ch \in [1..Len(y) -> -1..(n - 1)] : ValidChunks(y, ch, n, size)
PosExistsIff == PosExists(y) <=> \E c \in Classes(y) : Cardinality(Members(y, c)) >= 2
NegExistsIff == NegExists(y) <=> Cardinality(Classes(y)) >= 2
KnnCountFormula ==
  InQuantifierKnn(y) =>
    \A kg \in 1..2 : \A ki \in 1..2 :
       KnnCount(y, kg, ki) = SumSet(Classes(y), [c \in Classes(y) |->
           Cardinality(Members(y, c)) * Min(kg, Cardinality(Members(y, c)) - 1)
              * Min(ki, Cardinality(Known(y)) - Cardinality(Members(y, c)))])
=============================================================================
