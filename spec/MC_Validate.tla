----------------------------- MODULE MC_Validate -----------------------------
(* Enumerates the whole descriptor grammar per (estimator kind, method) as  *)
(* states; invariants: the decision table is total and single-valued, each  *)
(* (kind, method, prep) has exactly one well-formed descriptor per accepted *)
(* representation (formed; indexed iff a preprocessor is present), and any  *)
(* single deviation from the documented form is rejected.  The states are   *)
(* dumped and each becomes a call on the real estimators (spec -> code).    *)
EXTENDS Validate, TLC
CONSTANTS MaxDev
VARIABLES k, m, c
Kinds == {[tsize |-> 0, labels |-> "none", ncomp |-> FALSE], [tsize |-> 0, labels |-> "class", ncomp |-> TRUE],
          [tsize |-> 0, labels |-> "class", ncomp |-> FALSE], [tsize |-> 0, labels |-> "real", ncomp |-> TRUE],
          [tsize |-> 0, labels |-> "chunks", ncomp |-> TRUE], [tsize |-> 2, labels |-> "pair", ncomp |-> FALSE],
          [tsize |-> 3, labels |-> "none", ncomp |-> FALSE], [tsize |-> 4, labels |-> "none", ncomp |-> FALSE]}
Init == /\ k \in Kinds /\ m \in Methods /\ HasMethod(k, m)
        /\ c \in Descriptors(k, m, MaxDev)
Next == UNCHANGED <<k, m, c>>
OutcomeTotal == Outcome(k, m, c) \in {"ok", "ValueError"}
WellFormedIffNoDeviationOrIndexed ==
  WellFormed(k, m, c) <=> (\/ Deviations(k, m, c) = 0
                           \/ (c.prep /\ IsIndexed(k, m, c) /\ c.dtype \in {"float", "int"} /\
                               \A f \in Fields \ {"ndim", "dtype", "ncomp"} : c[f] = Default(k, m, TRUE)[f]
                               /\ c.ncomp \in {"na", "none", "one", "d"})
                           \/ (WellFormed(k, m, c) /\ (c.dtype = "int" \/ c.ncomp \in {"one", "d"})))
SingleDeviationRejected ==
  (Deviations(k, m, c) = 1 /\ c.dtype # "int" /\ c.ncomp \notin {"one", "d"} /\ ~IsIndexed(k, m, c)) => Outcome(k, m, c) = "ValueError"
=============================================================================
