----------------------------- MODULE ObjLifeApa -----------------------------
(* Apalache wrapper: the per-object machine ObjLife over UNBOUNDED digests, thresholds and dimensions.        *)
(* IndInv is an inductive invariant: Init => IndInv (length 0) and IndInv /\ Next => IndInv' (length 1).      *)
EXTENDS Integers


VARIABLES
  \* @type: $state;
  s,
  \* @type: Str;
  last,
  \* @type: Bool;
  isPairs

INSTANCE ObjLife WITH NoThr <- 0

\* @type: Set($state);
Cand == [fitted : BOOLEAN, dig : Int, hasthr : BOOLEAN, thr : Int, nfeat : Int, par : {7}]

Init == s = Fresh(7) /\ last = "new" /\ isPairs \in BOOLEAN
DoFit == \E t \in Cand : \E d \in Int : \E ok \in BOOLEAN :
            /\ d >= 1 /\ t.nfeat >= -1
            /\ Fit(s, t, d, ok, isPairs)
            /\ (~ok => t = s)
            /\ (~isPairs => t.hasthr = s.hasthr /\ t.thr = s.thr)
            /\ (~t.hasthr => t.thr = 0)
            /\ s' = t /\ last' = "fit" /\ UNCHANGED isPairs
DoQuery == \E raised \in BOOLEAN : Query(s, s, raised) /\ s' = s /\ last' = "query" /\ UNCHANGED isPairs
DoSet == \E t \in Cand : \E v \in Int : \E raised \in BOOLEAN :
            isPairs /\ SetThreshold(s, t, v, raised) /\ s' = t /\ last' = "set_threshold" /\ UNCHANGED isPairs
DoCal == \E t \in Cand : \E raised \in BOOLEAN :
            isPairs /\ Calibrate(s, t, raised) /\ s' = t /\ last' = "calibrate_threshold" /\ UNCHANGED isPairs
Next == DoFit \/ DoQuery \/ DoSet \/ DoCal

IndInit == s \in Cand /\ last \in {"new", "fit", "query", "set_threshold", "calibrate_threshold"} /\ isPairs \in BOOLEAN
           /\ WellFormed(s) /\ (~isPairs => ~s.hasthr) /\ s.par = 7 /\ s.nfeat >= -1
IndInv == WellFormed(s) /\ (~isPairs => ~s.hasthr) /\ s.par = 7 /\ s.nfeat >= -1
(* action invariants (evaluated on every transition from ANY state satisfying IndInv) *)
ParamsNeverChange == s'.par = s.par
ModelOnlyByFit == (s'.dig # s.dig \/ s'.nfeat # s.nfeat \/ s'.fitted # s.fitted) => last' = "fit"
ThrOnlyByThresholdActions == (s'.thr # s.thr \/ s'.hasthr # s.hasthr) => last' \in {"fit", "set_threshold", "calibrate_threshold"}
QueriesAreSilent == last' = "query" => s' = s
ActionInv == ParamsNeverChange /\ ModelOnlyByFit /\ ThrOnlyByThresholdActions /\ QueriesAreSilent
=============================================================================
