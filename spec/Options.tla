------------------------------- MODULE Options -------------------------------
(***************************************************************************)
(* The documented option space of the 17 estimators (constructor           *)
(* documentation) and what `fit` must produce for each configuration on a  *)
(* well-formed training set (C03).  A configuration is a record            *)
(*   [cls, d, ncls, nc, opt, emb, k]                                       *)
(* d = n_features, ncls = number of classes in the training set, nc =      *)
(* n_components (0 encodes None), opt = the init / prior / basis option    *)
(* ("na" when the estimator has none), emb = LFDA embedding_type, k = LFDA *)
(* k (0 encodes None).                                                     *)
(***************************************************************************)
EXTENDS Integers, Sequences, FiniteSets

Estimators == {"Covariance", "LFDA", "LMNN", "NCA", "MLKR", "RCA", "RCA_Supervised", "ITML",
               "ITML_Supervised", "MMC", "MMC_Supervised", "SDML", "SDML_Supervised", "LSML",
               "LSML_Supervised", "SCML", "SCML_Supervised"}

HasNComponents == {"LFDA", "LMNN", "NCA", "MLKR", "RCA", "RCA_Supervised"}
TransformInit  == {"LMNN", "NCA", "MLKR"}
MetricPrior    == {"ITML", "ITML_Supervised", "LSML", "LSML_Supervised", "SDML", "SDML_Supervised",
                   "MMC", "MMC_Supervised"}
PairsLearners       == {"ITML", "MMC", "SDML"}
TripletsLearners    == {"SCML"}
QuadrupletsLearners == {"LSML"}
TupleSize(cls) == IF cls \in PairsLearners THEN 2 ELSE IF cls \in TripletsLearners THEN 3
                  ELSE IF cls \in QuadrupletsLearners THEN 4 ELSE 0

OptDomain(cls) ==
  IF cls \in {"LMNN", "NCA"} THEN {"auto", "pca", "lda", "identity", "random", "array"}
  ELSE IF cls = "MLKR" THEN {"auto", "pca", "identity", "random", "array"}
  ELSE IF cls \in MetricPrior THEN {"identity", "covariance", "random", "array"}
  ELSE IF cls = "SCML" THEN {"triplet_diffs", "array"}
  ELSE IF cls = "SCML_Supervised" THEN {"lda", "triplet_diffs", "array"}
  ELSE {"na"}

EmbDomain(cls) == IF cls = "LFDA" THEN {"weighted", "orthonormalized", "plain"} ELSE {"na"}
KDomain(cls)   == IF cls = "LFDA" THEN 0..3 ELSE {0}
NcDomain(cls, d) == IF cls \in HasNComponents THEN 0..d ELSE {0}

(* effective number of components asked for *)
NcEff(c) == IF c.nc = 0 THEN c.d ELSE c.nc

(* documented restriction: the 'lda' transformation init needs n_components <= n_classes - 1 *)
Documented(c) ==
  /\ (c.cls \in TransformInit /\ c.opt = "lda") => NcEff(c) <= c.ncls - 1
  /\ (c.cls = "LFDA" /\ c.nc # 0) => TRUE

Configs(Ds, Ncls) ==
  {c \in [cls : Estimators, d : Ds, ncls : Ncls, nc : 0..8, opt : {"auto", "pca", "lda", "identity", "random",
           "array", "covariance", "triplet_diffs", "na"}, emb : {"weighted", "orthonormalized", "plain", "na"},
           k : 0..3] :
      /\ c.opt \in OptDomain(c.cls) /\ c.emb \in EmbDomain(c.cls) /\ c.k \in KDomain(c.cls)
      /\ c.nc \in NcDomain(c.cls, c.d) /\ Documented(c)}

(* cheaper enumeration of the same set (a set-builder over the full product is too wide for TLC) *)
ConfigsOf(cls, Ds, Ncls) ==
  {cc \in {[cls |-> cls, d |-> d, ncls |-> n, nc |-> nc, opt |-> o, emb |-> e, k |-> k] :
        d \in Ds, n \in Ncls, nc \in 0..8, o \in OptDomain(cls), e \in EmbDomain(cls), k \in KDomain(cls)} :
        cc.nc \in NcDomain(cls, cc.d) /\ Documented(cc)}
AllConfigs(Ds, Ncls) == UNION {ConfigsOf(cls, Ds, Ncls) : cls \in Estimators}

(* ---- the transformation-init selection rule ('auto'), documented in _initialize_components ---- *)
AutoSelect(hasClasses, d, nSamples, ncomp, ncls) ==
  IF hasClasses /\ ncomp <= (IF d < ncls - 1 THEN d ELSE ncls - 1) THEN "lda"
  ELSE IF ncomp < (IF d < nSamples THEN d ELSE nSamples) THEN "pca"
  ELSE "identity"

(* ---- C03: expected number of rows of components_ ---- *)
ExpectedK(c) == NcEff(c)
(* SCML may legitimately learn fewer rows than features (documented low-rank case, with a warning) *)
MayBeLowRank(c) == c.cls \in {"SCML", "SCML_Supervised"}
=============================================================================
