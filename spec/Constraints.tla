----------------------------- MODULE Constraints -----------------------------
(***************************************************************************)
(* C07: what constraints derived from partial labels must satisfy.         *)
(* y is the caller's label vector (sequence of integers, negative =        *)
(* unknown); all indices are 1-based positions in the CALLER's arrays.     *)
(* Points for the neighbour search are integer vectors (exact distances).  *)
(***************************************************************************)
EXTENDS Integers, Sequences, FiniteSets

Known(y)   == {i \in 1..Len(y) : y[i] >= 0}
Classes(y) == {y[i] : i \in Known(y)}
Members(y, c) == {i \in Known(y) : y[i] = c}
Min(a, b) == IF a < b THEN a ELSE b

(* sum of the function f over the finite set S *)
RECURSIVE SumSet(_, _)
SumSet(S, f) == IF S = {} THEN 0 ELSE LET x == CHOOSE x \in S : TRUE IN f[x] + SumSet(S \ {x}, f)

(* ---------------- positive / negative pairs ---------------- *)
SoundPos(y, a, b) == a \in Known(y) /\ b \in Known(y) /\ a # b /\ y[a] = y[b]
SoundNeg(y, c, d) == c \in Known(y) /\ d \in Known(y) /\ y[c] # y[d]
NoRepeat(A, B) == \A i, j \in 1..Len(A) : i # j => <<A[i], B[i]>> # <<A[j], B[j]>>
PosExists(y) == \E a, b \in Known(y) : SoundPos(y, a, b)
NegExists(y) == \E a, b \in Known(y) : SoundNeg(y, a, b)

PairsFailures(y, n, sameLength, A, B, C, D, warned) ==
  (IF Len(A) = Len(B) /\ Len(C) = Len(D) THEN {} ELSE {"C07.pairs.arrays_same_length"})
  \cup (IF \A i \in 1..Min(Len(A), Len(B)) : SoundPos(y, A[i], B[i]) THEN {} ELSE {"C07.pairs.positive_sound"})
  \cup (IF \A i \in 1..Min(Len(C), Len(D)) : SoundNeg(y, C[i], D[i]) THEN {} ELSE {"C07.pairs.negative_sound"})
  \cup (IF Len(A) = Len(B) /\ Len(C) = Len(D) /\ NoRepeat(A, B) /\ NoRepeat(C, D) THEN {} ELSE {"C07.pairs.no_repeat"})
  \cup (IF Len(A) <= n /\ Len(C) <= n THEN {} ELSE {"C07.pairs.at_most_n"})
  \cup (IF sameLength => Len(A) = Len(C) THEN {} ELSE {"C07.pairs.same_length"})
  \cup (IF (Len(A) < n \/ Len(C) < n) => warned THEN {} ELSE {"C07.pairs.warning_when_fewer"})
PairsClauses == {"C07.pairs.arrays_same_length", "C07.pairs.positive_sound", "C07.pairs.negative_sound",
                 "C07.pairs.no_repeat", "C07.pairs.at_most_n", "C07.pairs.same_length", "C07.pairs.warning_when_fewer"}

(* ---------------- chunks ---------------- *)
(* ch[i] = chunk number (0-based) of point i, or -1 *)
ChunkMembers(ch, k) == {i \in 1..Len(ch) : ch[i] = k}
ValidChunks(y, ch, n, size) ==
  /\ Len(ch) = Len(y)
  /\ \A i \in 1..Len(ch) : ch[i] \in -1..(n - 1)
  /\ \A k \in 0..(n - 1) :
        /\ Cardinality(ChunkMembers(ch, k)) = size
        /\ \A i, j \in ChunkMembers(ch, k) : i \in Known(y) /\ y[i] = y[j]
MaxChunks(y, size) == SumSet(Classes(y), [c \in Classes(y) |-> Cardinality(Members(y, c)) \div size])
Feasible(y, n, size) == MaxChunks(y, size) >= n

(* ---------------- k-NN triplets ---------------- *)
SqD(X, i, j) == SumSet(1..Len(X[i]), [k \in 1..Len(X[i]) |-> (X[i][k] - X[j][k]) * (X[i][k] - X[j][k])])
Genuine(y, a)  == {j \in Known(y) : j # a /\ y[j] = y[a]}
Impostor(y, a) == {j \in Known(y) : y[j] # y[a]}
(* N is a set of k nearest elements of S to a (ties: any valid choice) *)
IsKNearest(X, S, a, N, k) ==
  /\ N \subseteq S /\ Cardinality(N) = k
  /\ \A p \in N : \A q \in S \ N : SqD(X, a, p) <= SqD(X, a, q)
TripletsOf(T, a) == {t \in 1..Len(T) : T[t][1] = a}
KnnFailures(X, y, kg, ki, T) ==
  (IF \A t \in 1..Len(T) : T[t][1] \in Known(y) /\ T[t][2] \in Known(y) /\ T[t][3] \in Known(y)
   THEN {} ELSE {"C07.knn.only_known_points_in_caller_frame"})
  \cup (IF \A t \in 1..Len(T) : T[t][1] \in 1..Len(y) /\ T[t][2] \in 1..Len(y) /\ T[t][3] \in 1..Len(y)
           => (T[t][2] # T[t][1] /\ y[T[t][2]] = y[T[t][1]] /\ y[T[t][3]] # y[T[t][1]])
        THEN {} ELSE {"C07.knn.labels_respected"})
  \cup (IF \A a \in Known(y) :
             LET G  == {T[t][2] : t \in TripletsOf(T, a)}
                 I  == {T[t][3] : t \in TripletsOf(T, a)}
                 kgE == Min(kg, Cardinality(Genuine(y, a)))
                 kiE == Min(ki, Cardinality(Impostor(y, a)))
             IN  /\ IsKNearest(X, Genuine(y, a), a, G, kgE)
                 /\ IsKNearest(X, Impostor(y, a), a, I, kiE)
        THEN {} ELSE {"C07.knn.nearest_neighbours"})
  \cup (IF \A a \in Known(y) :
             LET G  == {T[t][2] : t \in TripletsOf(T, a)}
                 I  == {T[t][3] : t \in TripletsOf(T, a)}
             IN  \A g \in G : \A i \in I : Cardinality({t \in TripletsOf(T, a) : T[t][2] = g /\ T[t][3] = i}) = 1
        THEN {} ELSE {"C07.knn.every_combination_exactly_once"})
KnnClauses == {"C07.knn.only_known_points_in_caller_frame", "C07.knn.labels_respected",
               "C07.knn.nearest_neighbours", "C07.knn.every_combination_exactly_once"}
KnnCount(y, kg, ki) == SumSet(Known(y), [a \in Known(y) |->
                           Min(kg, Cardinality(Genuine(y, a))) * Min(ki, Cardinality(Impostor(y, a)))])

(* ---------------- the statement's quantifier ---------------- *)
InQuantifierPairs(y)  == PosExists(y) /\ NegExists(y)
InQuantifierChunks(y, size) == \E c \in Classes(y) : Cardinality(Members(y, c)) >= size
InQuantifierKnn(y) == Cardinality(Classes(y)) >= 2 /\ \A c \in Classes(y) : Cardinality(Members(y, c)) >= 2
=============================================================================
