CONSTANT R = 40
INIT Init
NEXT Next
INVARIANT AddOK
INVARIANT SubOK
INVARIANT MulOK
INVARIANT CmpOK
INVARIANT NormOK
INVARIANT ShiftOK
INVARIANT TruncOK
CHECK_DEADLOCK FALSE
