CONSTANTS
  Digs = {1, 2}
  Thrs = {10, 20}
  Dims = {2, 3}
  IsPairs = TRUE
SPECIFICATION Spec
INVARIANT TypeOK
INVARIANT Inv
INVARIANT ThresholdOnlyOnPairs
PROPERTY ModelOnlyByFit
PROPERTY ThrOnlyByThresholdActions
PROPERTY ParamsNeverChange
PROPERTY QueriesAreSilent
CHECK_DEADLOCK FALSE
