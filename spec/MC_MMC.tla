------------------------------- MODULE MC_MMC -------------------------------
(* All runs of the cycle machine of MMC.tla up to MaxCycles cycles over    *)
(* candidates with arbitrary feasibility and objective values in 0..ObjMax.*)
(* Invariants: the kept iterate is the initial one or an accepted          *)
(* candidate; once a candidate has been accepted the kept iterate is       *)
(* feasible; the objective of the kept iterate never decreases after the   *)
(* first acceptance; a kept iterate is never replaced by a non-improving   *)
(* or infeasible candidate.                                                *)
EXTENDS MMC, TLC
CONSTANTS MaxCycles, ObjMax
VARIABLES cycle, kept, everAccepted, hist
vars == <<cycle, kept, everAccepted, hist>>
Init == /\ cycle = 0 /\ everAccepted = FALSE /\ hist = <<>>
        /\ \E o \in 0..ObjMax : kept = [id |-> 0, sat |-> FALSE, obj |-> o]     \* the initial matrix (over budget)
Next == /\ cycle < MaxCycles
        /\ \E s \in BOOLEAN : \E o \in 0..ObjMax :
             LET cand == [id |-> cycle + 1, sat |-> s, obj |-> o] IN
             /\ kept' = CycleStep(cycle, kept, cand)
             /\ everAccepted' = (everAccepted \/ kept' = cand)
             /\ hist' = Append(hist, <<kept, cand, kept'>>)
        /\ cycle' = cycle + 1
KeptIsFeasibleOnceAccepted == everAccepted => kept.sat
KeptIsInitOrCandidate == kept.id \in 0..cycle
MonotoneObjective == \A i \in 1..Len(hist) : (i > 1 /\ hist[i][3] # hist[i][1]) => hist[i][3].obj > hist[i][1].obj
NeverReplacedByWorse == \A i \in 1..Len(hist) :
    (hist[i][3] = hist[i][2] /\ hist[i][2] # hist[i][1]) => (hist[i][2].sat /\ (i = 1 \/ hist[i][2].obj > hist[i][1].obj))
FirstFeasibleCandidateIsAccepted == \A i \in 1..Len(hist) : (i = 1 /\ hist[i][2].sat) => hist[i][3] = hist[i][2]
=============================================================================
