------------------------------- MODULE MC_SCML -------------------------------
(* The best-checkpoint bookkeeping of SCML over an abstract objective oracle: *)
(* at every checkpoint the objective takes an arbitrary value in 0..OMax and   *)
(* the weights are kept iff it is STRICTLY lower than the best so far.         *)
(* Invariant: the kept checkpoint is the FIRST one attaining the minimum of    *)
(* all objectives seen.                                                        *)
EXTENDS Integers, Sequences, TLC
CONSTANTS OMax, MaxCheckpoints
VARIABLES objs, bestAt, bestObj
Init == objs = <<>> /\ bestAt = 0 /\ bestObj = OMax + 1            \* +infinity
Next == /\ Len(objs) < MaxCheckpoints
        /\ \E o \in 0..OMax :
             /\ objs' = Append(objs, o)
             /\ IF o < bestObj THEN bestAt' = Len(objs) + 1 /\ bestObj' = o ELSE UNCHANGED <<bestAt, bestObj>>
FirstLowestWins == objs # <<>> =>
   /\ bestAt \in 1..Len(objs) /\ objs[bestAt] = bestObj
   /\ \A i \in 1..Len(objs) : objs[i] >= bestObj
   /\ \A i \in 1..(bestAt - 1) : objs[i] > bestObj
=============================================================================
