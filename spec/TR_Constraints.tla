---------------------------- MODULE TR_Constraints ----------------------------
(***************************************************************************)
(* Trace specification for the Constraints helper (C07) and for the        *)
(* constraint-related clauses of C08: each event is one call of the real   *)
(* positive_negative_pairs / chunks / generate_knntriplets / wrap_pairs    *)
(* with its arguments and full result (indices converted to 1-based).      *)
(* Integers and sets only.  A clause is evaluated only when the case lies  *)
(* inside the property's quantifier (decided here, not in the harness).    *)
(***************************************************************************)
EXTENDS Constraints, TLC, Json, IOUtils

Batch  == JsonDeserialize(IOEnv.TRACE_FILE)
Traces == Batch.traces
VARIABLES tid, l, fails, ex
vars == <<tid, l, fails, ex>>

R(f, e) == [fails |-> f, ex |-> e]

PairsStep(ev) ==
  IF ~InQuantifierPairs(ev.y) THEN R({}, {"C07.pairs.outside_quantifier"})
  ELSE IF ev.exc # "" THEN R({"C07.pairs.returns"}, {"C07.pairs.returns"})
  ELSE R(PairsFailures(ev.y, ev.n, ev.same_length, ev.A, ev.B, ev.C, ev.D, ev.warned)
         \cup (IF ev.A = ev.A2 /\ ev.B = ev.B2 /\ ev.C = ev.C2 /\ ev.D = ev.D2 THEN {} ELSE {"C07.pairs.seed_reproducible"}),
         PairsClauses \cup {"C07.pairs.seed_reproducible"})

ChunksStep(ev) ==
  IF ~InQuantifierChunks(ev.y, ev.size) THEN R({}, {"C07.chunks.outside_quantifier"})
  ELSE IF Feasible(ev.y, ev.n, ev.size)
       THEN R((IF ev.exc = "" /\ ValidChunks(ev.y, ev.ch, ev.n, ev.size) THEN {} ELSE {"C07.chunks.valid"})
              \cup (IF ev.exc = "" /\ ev.ch = ev.ch2 THEN {} ELSE {"C07.chunks.seed_reproducible"}),
              {"C07.chunks.valid", "C07.chunks.seed_reproducible"})
       ELSE R(IF ev.exc = "ValueError" THEN {} ELSE {"C07.chunks.infeasible_raises_ValueError"},
              {"C07.chunks.infeasible_raises_ValueError"})

KnnStep(ev) ==
  IF ~InQuantifierKnn(ev.y) THEN R({}, {"C07.knn.outside_quantifier"})
  ELSE IF ev.exc # "" THEN R({"C07.knn.returns"}, {"C07.knn.returns"})
  ELSE R(KnnFailures(ev.X, ev.y, ev.kg, ev.ki, ev.T)
         \cup (IF Len(ev.T) = KnnCount(ev.y, ev.kg, ev.ki) THEN {} ELSE {"C07.knn.count"}),
         KnnClauses \cup {"C07.knn.count"})

(* wrap_pairs: pairs are (X[a], X[b]) labelled +1 followed by (X[c], X[d]) labelled -1, in order *)
WrapStep(ev) ==
  LET na == Len(ev.A)  nc == Len(ev.C)
  IN R(IF /\ Len(ev.pairs) = na + nc /\ Len(ev.labels) = na + nc
          /\ \A i \in 1..na : ev.pairs[i] = <<ev.X[ev.A[i]], ev.X[ev.B[i]]>> /\ ev.labels[i] = 1
          /\ \A i \in 1..nc : ev.pairs[na + i] = <<ev.X[ev.C[i]], ev.X[ev.D[i]]>> /\ ev.labels[na + i] = -1
       THEN {} ELSE {"C07.wrap_pairs"}, {"C07.wrap_pairs"})

(* calls made by the repository's own tests and by every *_Supervised fit they run (pytest tracing plugin): the same   *)
(* definitions, minus what a recorded call cannot show (the warning, re-running with the same seed)                     *)
SuiteClause(c) == "C07.suite_" \o SubSeq(c, 5, Len(c))           \* "C07.pairs.x" -> "C07.suite_pairs.x"
SuitePairsStep(ev) ==
  IF ~InQuantifierPairs(ev.y) THEN R({}, {"C07.pairs.outside_quantifier"})
  ELSE R({SuiteClause(c) : c \in PairsFailures(ev.y, ev.n, ev.same_length, ev.A, ev.B, ev.C, ev.D, TRUE)},
         {SuiteClause(c) : c \in PairsClauses \ {"C07.pairs.warning_when_fewer"}})
SuiteChunksStep(ev) ==
  IF ~InQuantifierChunks(ev.y, ev.size) THEN R({}, {"C07.chunks.outside_quantifier"})
  ELSE IF Feasible(ev.y, ev.n, ev.size)
       THEN R(IF ev.exc = "" /\ ValidChunks(ev.y, ev.ch, ev.n, ev.size) THEN {} ELSE {"C07.suite_chunks.valid"},
              {"C07.suite_chunks.valid"})
       ELSE R(IF ev.exc = "ValueError" THEN {} ELSE {"C07.suite_chunks.infeasible_raises_ValueError"},
              {"C07.suite_chunks.infeasible_raises_ValueError"})

Step(ev) ==
  CASE ev.ev = "ConsPairs"  -> PairsStep(ev)
    [] ev.ev = "CallConsPairs"  -> SuitePairsStep(ev)
    [] ev.ev = "CallConsChunks" -> SuiteChunksStep(ev)
    [] ev.ev = "ConsChunks" -> ChunksStep(ev)
    [] ev.ev = "ConsKnn"    -> KnnStep(ev)
    [] ev.ev = "WrapPairs"  -> WrapStep(ev)
    [] OTHER -> R({"TRACE.unknown_event"}, {})

Init == tid \in 1..Len(Traces) /\ l = 1 /\ fails = {} /\ ex = {}
Next == /\ l <= Len(Traces[tid].events)
        /\ LET r == Step(Traces[tid].events[l])
           IN  fails' = fails \cup {c \o "@" \o ToString(l) : c \in r.fails} /\ ex' = ex \cup r.ex
        /\ l' = l + 1 /\ UNCHANGED tid
Done   == l = Len(Traces[tid].events) + 1
Report == Done => PrintT(<<"VERDICT", Traces[tid].tid, fails, ex>>)
=============================================================================
