----------------------------- MODULE TR_Validate -----------------------------
(***************************************************************************)
(* Trace spec for C06.  Every event is one call of a data-taking method of *)
(* a real estimator with an argument materialised from a structural        *)
(* descriptor enumerated by MC_Validate; the logged outcome ("ok" or the   *)
(* exception class) must be the one Validate!Outcome prescribes, and for   *)
(* well-formed arguments the result digests under equivalent array-likes   *)
(* (list, integer dtype, Fortran order, non-contiguous view, indices       *)
(* through a preprocessor) must equal (up to rounding) those for the        *)
(* float64 C-ordered array.                                                *)
(***************************************************************************)
EXTENDS Validate, DyMat, TLC, Json, IOUtils
Batch  == JsonDeserialize(IOEnv.TRACE_FILE)
Traces == Batch.traces
VARIABLES tid, l, fails, ex
vars == <<tid, l, fails, ex>>
R(f, e) == [fails |-> f, ex |-> e]

(* "the same results": the same numbers up to floating-point rounding.  A different memory layout may *)
(* change the summation order inside BLAS by an ulp, which an iterative learner can amplify by a few   *)
(* orders of magnitude; 2^-15 of the largest entry separates that from any semantic difference.        *)
SameNumbers(v, b) == /\ Len(v) = Len(b) /\ Len(b) > 0 /\ AllFinV(b)
                     /\ AllFinV(v) /\ \A i \in 1..Len(b) : Approx(v[i], b[i], 2, 1, MaxAbsV(b))

Step(ev) ==
  LET exp == Outcome(ev.k, ev.m, ev.c) IN
  IF exp = "ValueError"
  THEN R(IF ev.outcome = "ValueError" THEN {} ELSE {"C06.malformed_input_raises_ValueError"},
         {"C06.malformed_input_raises_ValueError"})
  ELSE R((IF ev.outcome = "ok" THEN {} ELSE {"C06.wellformed_input_accepted"})
         \cup (IF ev.outcome = "ok" /\ \E i \in 1..Len(ev.vals) : ~SameNumbers(ev.vals[i], ev.base_vals)
               THEN {"C06.equivalent_arraylikes_same_result"} ELSE {}),
         {"C06.wellformed_input_accepted", "C06.equivalent_arraylikes_same_result"})

Init == tid \in 1..Len(Traces) /\ l = 1 /\ fails = {} /\ ex = {}
Next == /\ l <= Len(Traces[tid].events)
        /\ LET r == Step(Traces[tid].events[l])
           IN  fails' = fails \cup {x \o "@" \o ToString(l) : x \in r.fails} /\ ex' = ex \cup r.ex
        /\ l' = l + 1 /\ UNCHANGED tid
Done   == l = Len(Traces[tid].events) + 1
Report == Done => PrintT(<<"VERDICT", Traces[tid].tid, fails, ex>>)
=============================================================================
