CONSTANTS MaxCycles = 4
 ObjMax = 2
INIT Init
NEXT Next
INVARIANT KeptIsFeasibleOnceAccepted
INVARIANT KeptIsInitOrCandidate
INVARIANT MonotoneObjective
INVARIANT NeverReplacedByWorse
INVARIANT FirstFeasibleCandidateIsAccepted
CHECK_DEADLOCK FALSE
