-------------------------------- MODULE TR_LSML --------------------------------
(* Trace spec for C12: one event per real LSML / LSML_Supervised fit with     *)
(* the quadruplet difference vectors, the weights, the prior, the learned     *)
(* components_, the witnesses of LSML.tla and - for the weight-scaling clause *)
(* - the model learned with all weights multiplied by a constant.             *)
EXTENDS LSML, TLC, Json, IOUtils
Batch  == JsonDeserialize(IOEnv.TRACE_FILE)
Traces == Batch.traces
VARIABLES tid, l, fails, ex
vars == <<tid, l, fails, ex>>
R(f, e) == [fails |-> f, ex |-> e]
G(c, ok) == IF ok THEN {} ELSE {c}

FitStep(ev) ==
  LET M == DM!Gram(ev.L)
      d == Len(ev.M0)
      wOK == WitnessesOK(M, ev.M0, ev.vab, ev.vcd, ev.w, ev.wn, ev.g, ev.q1, ev.q2, ev.P, ev.P0, ev.chol, ev.chol0)
      fM  == Objective(M, ev.vab, ev.vcd, ev.wn, ev.g, ev.P0, ev.logs)
      fM0 == Objective(ev.M0, ev.vab, ev.vcd, ev.wn, ev.g0, ev.P0, ev.logs0)
      grad == Gradient(M, ev.vab, ev.vcd, ev.wn, ev.q1, ev.q2, ev.P, ev.P0)
      gn2 == DM!Frob2(grad)
      noViolationUnderPrior == \A i \in 1..Len(ev.vab) : ~Violated(ev.M0, ev.vab, ev.vcd, i)
      stoppedEarly == ev.n_iter < ev.max_iter
  IN
  IF ev.exc # "" THEN R({"C12.fit_returns"}, {})
  ELSE IF ~AllFinM(ev.L) THEN R({"C12.M_is_finite"}, {})
  ELSE IF ~wOK THEN R({}, {"X12.witness_rejected"})
  ELSE R(
    G("C12.M_is_symmetric_positive_definite", TRUE)      \* the verified Cholesky witness of L^T L is the certificate
    \cup G("C12.objective_not_larger_than_at_prior",
           Leq(fM, Add(fM0, Shift(Add(Abs(fM0), One), -2))))
    \cup (IF noViolationUnderPrior
          THEN G("C12.prior_returned_when_all_constraints_hold", ApproxM(M, ev.M0, 2, 2, MaxAbsM(ev.M0))) ELSE {})
    \cup (IF stoppedEarly
          THEN G("C12.early_stop_is_stationary_within_tol",
                 \* ||grad||_F <= tol (1 + 2^-10)   <=>   ||grad||^2 <= tol^2 (1 + 2^-10)^2
                 Leq(gn2, Add(Sq(ev.tol), Mul(Sq(ev.tol), <<1, -1, <<72>>>>))))
          ELSE {})
    \cup (IF ev.has_scaled
          THEN G("C12.weights_are_scale_invariant", ApproxM(DM!Gram(ev.L_scaled), M, 1, 1, MaxAbsM(M))) ELSE {}),
    {"C12.M_is_symmetric_positive_definite", "C12.objective_not_larger_than_at_prior"}
    \cup (IF noViolationUnderPrior THEN {"C12.prior_returned_when_all_constraints_hold"} ELSE {})
    \cup (IF stoppedEarly THEN {"C12.early_stop_is_stationary_within_tol"} ELSE {})
    \cup (IF ev.has_scaled THEN {"C12.weights_are_scale_invariant"} ELSE {}))

(* "LsmlRun": the call history of one real fit (every _total_loss / _gradient call of the solver, observed by wrapping
   the two methods) followed by the line-search machine of LSML.tla *)
RunStep(ev) ==
  IF ev.exc # "" THEN R({"G12.recorded_fit_returns"}, {})
  ELSE R(LineSearchFails(ev), LineSearchClauses)
Step(ev) == IF ev.ev = "LsmlRun" THEN RunStep(ev) ELSE FitStep(ev)

Init == tid \in 1..Len(Traces) /\ l = 1 /\ fails = {} /\ ex = {}
Next == /\ l <= Len(Traces[tid].events)
        /\ LET r == Step(Traces[tid].events[l])
           IN  fails' = fails \cup {x \o "@" \o ToString(l) : x \in r.fails} /\ ex' = ex \cup r.ex
        /\ l' = l + 1 /\ UNCHANGED tid
Done   == l = Len(Traces[tid].events) + 1
Report == Done => PrintT(<<"VERDICT", Traces[tid].tid, fails, ex>>)
=============================================================================
