---------------------------- MODULE ObsClassify ----------------------------
(***************************************************************************)
(* C04 observation clauses: the decision rules of Classify.tla evaluated   *)
(* on exact doubles recorded from the real code.  `thr` is the threshold   *)
(* of the abstract state (set only by Fit / Calibrate / SetThreshold).     *)
(***************************************************************************)
EXTENDS Integers, Sequences, FiniteSets, DyMat

CD == INSTANCE Classify WITH Zero <- Zero, Sub <- Sub, Neg <- Neg, Leq <- Leq

CF(c, ok) == IF ok THEN {} ELSE {c}
SameLen(a, b) == Len(a) = Len(b)

PairsFails(thr, ev) ==
  LET n == Len(ev.d) IN
  IF ~(AllFinV(ev.d) /\ AllFinV(ev.dec) /\ ev.thr[1] # 2 /\ SameLen(ev.d, ev.pred) /\ SameLen(ev.d, ev.dec))
  THEN {"C04.pairs_outputs_wellformed"}
  ELSE CF("C04.threshold_unchanged_by_queries", ev.thr = thr)
       \* a stored threshold of -infinity / +infinity (what calibration stores for "reject all" / "accept all")
       \* compares as such: distance <= -inf never, distance <= +inf always
       \cup CF("C04.pairs_predict", \A i \in 1..n : ev.pred[i] =
                 (IF thr[1] = -3 THEN -1 ELSE IF thr[1] = 3 THEN 1 ELSE CD!PairPredict(ev.d[i], thr)))
       \cup CF("C04.pairs_decision_is_negated_distance", \A i \in 1..n : ev.dec[i] = CD!PairDecision(ev.d[i]))
       \cup (IF ev.has_score
             THEN CF("C04.pairs_score_is_auc",
                     IsFin(ev.score) /\ CD!PN(ev.y) > 0 /\
                     Approx(Mul(ev.score, FromInt(2 * CD!PN(ev.y))), FromInt(CD!Auc2(ev.dec, ev.y)), 2, 2, One))
             ELSE {})
(* the distances that predict compares are those of the points the tuples DESIGNATE (formed points, or the rows of the  *)
(* estimator's CURRENT preprocessor that the indices name) under the model in force: d_i ~ ||L (p_i - q_i)||            *)
DesignatedFails(L, ev) ==
  IF "pts" \notin DOMAIN ev \/ ~AllFinV(ev.d) \/ Len(ev.pts) # Len(ev.d) THEN {}
  ELSE LET n == Len(ev.pts)
           allp == [i \in 1..(2 * n) |-> ev.pts[(i + 1) \div 2][IF i % 2 = 1 THEN 1 ELSE 2]]
           mx == MaxAbsSeq([i \in 1..(2 * n) |-> MaxAbsV(allp[i])], 1)
           S2 == Sq(Mul(Sum1M(L), Add(mx, mx)))
           \* (allowance relative to the scale of the DIFFERENCE of the two points, not to their magnitude)
           Sd2(i) == LET m == MaxAbsV(DM!VSub(ev.pts[i][1], ev.pts[i][2])) IN Sq(Mul(Sum1M(L), Add(m, m)))
       IN CF("C04.pairs_distance_is_of_designated_points",
             \A i \in 1..n : ~IsNeg(ev.d[i]) /\
                 Approx(Sq(ev.d[i]), DM!Dot(DM!MatVec(L, DM!VSub(ev.pts[i][1], ev.pts[i][2])),
                                            DM!MatVec(L, DM!VSub(ev.pts[i][1], ev.pts[i][2]))), 2, 3, Sd2(i)))
PairsEx(ev) == {"C04.threshold_unchanged_by_queries", "C04.pairs_predict", "C04.pairs_decision_is_negated_distance"}
               \cup (IF ev.has_score THEN {"C04.pairs_score_is_auc"} ELSE {})

TripletsFails(ev) ==
  LET n == Len(ev.dab) IN
  IF ~(AllFinV(ev.dab) /\ AllFinV(ev.dac) /\ AllFinV(ev.dec) /\ AllFinV(ev.dec_sw) /\ IsFin(ev.score)
       /\ SameLen(ev.dab, ev.pred) /\ SameLen(ev.dab, ev.dec) /\ SameLen(ev.dab, ev.dec_sw))
  THEN {"C04.triplets_outputs_wellformed"}
  ELSE CF("C04.triplets_predict", \A i \in 1..n : ev.pred[i] = CD!TripletPredict(ev.dab[i], ev.dac[i]))
       \cup CF("C04.triplets_decision", \A i \in 1..n :
                  Approx(ev.dec[i], CD!TripletDecision(ev.dab[i], ev.dac[i]), 3, 3, Max(ev.dab[i], ev.dac[i])))
       \cup CF("C04.triplets_swap_negates", \A i \in 1..n : ev.dec_sw[i] = Neg(ev.dec[i]))
       \cup CF("C04.triplets_score_is_fraction_positive",
               Approx(Mul(ev.score, FromInt(n)), FromInt(CD!NumPlus(ev.pred)), 2, 2, One))
TripletsEx == {"C04.triplets_predict", "C04.triplets_decision", "C04.triplets_swap_negates",
               "C04.triplets_score_is_fraction_positive"}

QuadsFails(ev) ==
  LET n == Len(ev.dab) IN
  IF ~(AllFinV(ev.dab) /\ AllFinV(ev.dcd) /\ AllFinV(ev.dec) /\ AllFinV(ev.dec_sw)
       /\ SameLen(ev.dab, ev.pred) /\ SameLen(ev.dab, ev.dec) /\ SameLen(ev.dab, ev.dec_sw))
  THEN {"C04.quadruplets_outputs_wellformed"}
  ELSE CF("C04.quadruplets_predict", \A i \in 1..n : ev.pred[i] = CD!QuadPredict(ev.dab[i], ev.dcd[i]))
       \cup CF("C04.quadruplets_decision", \A i \in 1..n :
                  Approx(ev.dec[i], CD!QuadDecision(ev.dab[i], ev.dcd[i]), 3, 3, Max(ev.dab[i], ev.dcd[i])))
       \cup CF("C04.quadruplets_swap_negates", \A i \in 1..n : ev.dec_sw[i] = Neg(ev.dec[i]))
       \* beyond the listed properties (G = growth of the specification): the quadruplets score is the mean of the
       \* predictions rescaled to [0,1], i.e. (#(+1) + #(0)/2) / n - a tie counts half
       \cup CF("G04.quadruplets_score_counts_ties_half",
               IsFin(ev.score) /\ Approx(Mul(ev.score, FromInt(2 * n)),
                                         FromInt(2 * CD!NumPlus(ev.pred) + Len(SelectSeq(ev.pred, LAMBDA v : v = 0))), 2, 2, One))
QuadsEx == {"C04.quadruplets_predict", "C04.quadruplets_decision", "C04.quadruplets_swap_negates",
            "G04.quadruplets_score_counts_ties_half"}
=============================================================================
