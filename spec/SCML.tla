--------------------------------- MODULE SCML ---------------------------------
(***************************************************************************)
(* C15: SCML learns M = SUM_i w_i b_i b_i^T, w >= 0, by stochastic dual    *)
(* averaging on the triplet hinge loss.  With D the (n_triplets x n_basis) *)
(* matrix of basis-wise distance differences and a batch idx_t of B        *)
(* triplet indices at iteration t = 0, 1, ... :                            *)
(*   slack_k  = 1 + D[k] . w                 (k in idx_t)                   *)
(*   raw_t    = SUM_{k in idx_t, slack_k > 0} D[k]          (= B * grad_t)  *)
(*   S_t      = S_{t-1} + raw_t              (= B (t+1) * average gradient) *)
(*   Q_t      = Q_{t-1} + raw_t^2 (entrywise) (= B^2 * ada-grad^2)          *)
(*   w_j      = max(-(S_t,j + B (t+1) beta), 0) / (gamma (B delta + sqrt Q_t,j)) *)
(* (an exact rewriting of the documented update w = -(t+1) / (gamma (delta *)
(* + ada)) * min(avg + beta, 0) that needs no division by t+1 or B).       *)
(* Every output_iter iterations the objective                              *)
(*   obj = beta SUM w + (1/n) SUM_{k: 1 + D[k].w > 0} (1 + D[k].w)          *)
(* is evaluated on ALL triplets and the weights are kept iff obj is        *)
(* STRICTLY lower than the best so far (first lowest checkpoint wins).     *)
(* sqrt Q and the quotient are witnessed per iteration and verified.       *)
(***************************************************************************)
EXTENDS DyMat

(* delta = 1/1000 is not dyadic: the update is multiplied through by 1000 instead *)
Thousand == FromInt(1000)

SlackOf(D, k, w) == Add(One, DM!Dot(D[k], w))
(* decision "slack > 0" with an ambiguity window: "pos", "nonpos" or "ambiguous" *)
SlackSign(s) == IF Gt(s, <<1, -2, <<1>>>>) THEN "pos" ELSE IF Lt(s, <<-1, -2, <<1>>>>) THEN "nonpos"
                ELSE IF IsZero(s) THEN "nonpos" ELSE "ambiguous"

RECURSIVE SumRows(_, _, _, _)
SumRows(D, idx, w, i) ==          \* raw gradient of a batch (sequence idx of triplet numbers, repeats allowed)
  IF i > Len(idx) THEN DM!ZeroVec(Len(w))
  ELSE LET rest == SumRows(D, idx, w, i + 1) IN
       IF SlackSign(SlackOf(D, idx[i], w)) = "pos" THEN DM!VAdd(D[idx[i]], rest) ELSE rest
BatchAmbiguous(D, idx, w) == \E i \in 1..Len(idx) : SlackSign(SlackOf(D, idx[i], w)) = "ambiguous"

(* witnessed update: r_j = sqrt(Q_j) and w_j (gamma (B/1000 + r_j)) = max(-(S_j + B (t+1) beta), 0) *)
StepWitnessOK(S, Q, t1, bsz, beta, gamma, r, w) ==
  \A j \in 1..Len(S) :
     LET numer == LET v == Neg(Add(S[j], Mul(FromInt(bsz * t1), beta))) IN IF IsPos(v) THEN v ELSE Zero
         den1000 == Mul(gamma, Add(FromInt(bsz), Mul(Thousand, r[j])))      \* 1000 * gamma * (B delta + r)
     IN /\ ~IsNeg(r[j]) /\ Approx(Sq(r[j]), Q[j], 2, 3, Add(Q[j], One))
        /\ ~IsNeg(w[j]) /\ Approx(Mul(w[j], den1000), Mul(Thousand, numer), 2, 3, Add(Mul(Thousand, numer), One))
        /\ (IsZero(numer) => IsZero(w[j]))

(* objective * n_triplets (no division):  n beta SUM w + SUM_{slack>0} slack *)
ObjectiveN(D, w, beta) ==
  Add(Mul(Mul(FromInt(Len(D)), beta), DM!Sum(w)),
      DM!Sum([k \in 1..Len(D) |-> LET s == SlackOf(D, k, w) IN IF IsPos(s) THEN s ELSE Zero]))

(* the learned matrix from basis and weights *)
SumMatSeq(f, i, d) == DM!SumMats(f, i, d)           \* (Mat.tla: evaluated eagerly)
MetricFrom(basis, w) == SumMatSeq([i \in 1..Len(basis) |-> DM!MScale(w[i], DM!Outer(basis[i], basis[i]))], 1, Len(basis[1]))
=============================================================================
