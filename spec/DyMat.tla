------------------------------- MODULE DyMat -------------------------------
(* The matrix / Mahalanobis definitions instantiated over exact dyadics,   *)
(* plus the approximate comparisons (tolerances) used when a logged IEEE   *)
(* double is compared with TLC's exact value.  ALL tolerances live here.   *)
EXTENDS Integers, Sequences, Dy

DM == INSTANCE Mat WITH Zero <- Zero, Add <- Add, Mul <- Mul, Sub <- Sub, Leq <- Leq
DH == INSTANCE Mahalanobis WITH Zero <- Zero, Add <- Add, Mul <- Mul, Sub <- Sub, Leq <- Leq

(* exporter codes for non-finite doubles: <<2,0,<<>>>> nan, <<3,..>> +inf, <<-3,..>> -inf *)
IsFin(a)     == a[1] \in {-1, 0, 1}
AllFinV(v)   == \A i \in 1..Len(v) : IsFin(v[i])
AllFinM(A)   == \A i \in 1..Len(A) : AllFinV(A[i])

RECURSIVE MaxAbsSeq(_, _)
(* (LET: an operator argument is re-evaluated at every use, which would make this recursion exponential) *)
MaxAbsSeq(v, i) == IF i > Len(v) THEN Zero
                   ELSE LET a == Abs(v[i])  r == MaxAbsSeq(v, i + 1) IN IF Lt(a, r) THEN r ELSE a
MaxAbsV(v) == MaxAbsSeq(DM!Eager(v), 1)
MaxAbsM(A) == MaxAbsSeq(DM!Eager([i \in 1..Len(A) |-> MaxAbsV(A[i])]), 1)
Sum1V(v)   == DM!Sum([i \in 1..Len(v) |-> Abs(v[i])])
Sum1M(A)   == DM!Sum([i \in 1..Len(A) |-> Sum1V(A[i])])

(* Tolerance units: B^-1 = 2^-15, B^-2 = 2^-30, B^-3 = 2^-45.  IEEE double rounding is 2^-53 per *)
(* operation, so 2^-30 relative leaves > 20 bits of head-room for accumulated rounding in the code   *)
(* while any semantic error (wrong operand, formula, sign, missing root) is O(1) relative.          *)
ApproxRel(a, b, k)        == Close(a, b, k, Max(Abs(a), Abs(b)))
ApproxAbs(a, b, k, scale) == Close(a, b, k, scale)
(* |a - b| <= B^-k * max(|a|,|b|) + B^-j * scale *)
Approx(a, b, k, j, scale) == Leq(Abs(Sub(a, b)), Add(Shift(Max(Abs(a), Abs(b)), -k), Shift(scale, -j)))

ApproxV(u, v, k, j, scale) == Len(u) = Len(v) /\ \A i \in 1..Len(u) : Approx(u[i], v[i], k, j, scale)
ApproxM(A, C, k, j, scale) == Len(A) = Len(C) /\ \A i \in 1..Len(A) : ApproxV(A[i], C[i], k, j, scale)

(* r is (approximately) the non-negative square root of a:  r >= 0 and r*r ~ a *)
IsSqrt(r, a, k, j, scale) == ~IsNeg(r) /\ Approx(Sq(r), a, k, j, scale)
=============================================================================
