----------------------------- MODULE TR_Lifecycle -----------------------------
(***************************************************************************)
(* Trace specification binding the life-cycle machine MetricLearn.tla to   *)
(* the real code.  Each event of a recorded history is consumed by THE     *)
(* SAME ACTION of MetricLearn.tla (New, SetParams, Clone, PickleRoundTrip, *)
(* Fit, SetThreshold, Calibrate, Query, GetMetric, GetMatrix,              *)
(* MutateReturned, CallHandle); after the step, the projection of the real *)
(* objects logged with the event (digests of get_params(), components_,    *)
(* threshold_, n_features_in_ of EVERY live object, digest of every        *)
(* caller-owned array, digest of the call's output) must equal the VALUE   *)
(* of the abstract state.  Values of terms are defined by reference        *)
(* executions on fresh objects, shipped with the trace as `ref` (model     *)
(* digest per (params, data), threshold digest per threshold term, output  *)
(* digest per (model, threshold, query)).  So any dependence on history,   *)
(* any side effect on arguments / parameters / other objects / handed-out  *)
(* objects shows up as a mismatch.  The step relation is total: an event   *)
(* that no action matches is itself a failure.                             *)
(***************************************************************************)
EXTENDS MetricLearn, Json, IOUtils

Batch  == JsonDeserialize(IOEnv.TRACE_FILE)
Traces == Batch.traces

VARIABLES tid, l, fails, ex, arr     \* arr: digest of all caller-owned arrays as last seen
tvars == <<objs, handles, last, tid, l, fails, ex, arr>>

TraceDim(d) == Traces[tid].dims[d]
TraceCanon(p) == Traces[tid].canon[p]
Ref == Traces[tid].ref
Ev  == Traces[tid].events[l]

(* index of a threshold term among the reference variants of a model *)
ThrIndex(thr) ==
  IF thr = NoThr THEN 1
  ELSE IF thr[1] = "fit" THEN 1
  ELSE IF thr[1] = "set" THEN 1 + thr[2]
  ELSE 1 + Ref.nt + (thr[4] - 1) * Ref.ns + thr[5]
(* the reference table of query outputs is indexed by model (p, d), preprocessor in force, threshold variant, query *)

ValThr(o, thr) ==
  IF thr = NoThr THEN "none"
  ELSE IF thr[1] = "fit" THEN Ref.thrfit[thr[2]][thr[3]]
  ELSE IF thr[1] = "set" THEN Ref.thrset[thr[2]]
  ELSE Ref.thrcal[thr[2]][thr[3]][thr[6]][thr[4]][thr[5]]

(* expected projection of object record r *)
Proj(r) == << Ref.params[r.params],
              IF r.model = NoModel THEN "none" ELSE Ref.model[r.model[1]][r.model[2]],
              r.nfeat,
              ValThr(0, r.thr) >>

FieldName(i) == CASE i = 1 -> "C18.params_stored_untouched"
                  [] i = 2 -> "C17.model_is_function_of_last_fit"
                  [] i = 3 -> "C17.n_features_in_of_last_fit"
                  [] i = 4 -> "C17.threshold_is_function_of_last_threshold_action"

(* clauses failing when the logged post-state `post` is compared with the abstract objects `os` *)
StateFails(os, post, arrays, expected) ==
  (IF Len(post) = Len(os) THEN {} ELSE {"TRACE.object_count"})
  \cup UNION {{FieldName(i) : i \in {j \in 1..4 : post[o][j] # Proj(os[o])[j]}} :
                o \in 1..(IF Len(post) < Len(os) THEN Len(post) ELSE Len(os))}
  \cup (IF arrays = expected THEN {} ELSE {"C17.arguments_and_parameter_arrays_unmodified"})
StateClauses == {"C18.params_stored_untouched", "C17.model_is_function_of_last_fit", "C17.n_features_in_of_last_fit",
                 "C17.threshold_is_function_of_last_threshold_action", "C17.arguments_and_parameter_arrays_unmodified"}

InitT == Init /\ tid \in 1..Len(Traces) /\ l = 1 /\ fails = {} /\ ex = {} /\ arr = Traces[tid].ref.arrays

Matches(ev) ==
  CASE ev.ev = "New"          -> New(ev.p)
    [] ev.ev = "SetParams"    -> ev.obj \in Live /\ SetParams(ev.obj, ev.p)
    [] ev.ev = "Clone"        -> ev.obj \in Live /\ Clone(ev.obj)
    [] ev.ev = "Pickle"       -> ev.obj \in Live /\ PickleRoundTrip(ev.obj)
    [] ev.ev = "Fit"          -> ev.obj \in Live /\ Fit(ev.obj, ev.data)
    [] ev.ev = "FitTransform" -> ev.obj \in Live /\ FitTransform(ev.obj, ev.data)
    [] ev.ev = "CrossValidate" -> ev.obj \in Live /\ CrossValidate(ev.obj, ev.data)
    [] ev.ev = "GridSearch"   -> ev.obj \in Live /\ GridSearch(ev.obj, ev.data)
    [] ev.ev = "SetThreshold" -> ev.obj \in Live /\ SetThreshold(ev.obj, ev.t)
    [] ev.ev = "Calibrate"    -> ev.obj \in Live /\ Calibrate(ev.obj, ev.v, ev.s)
    [] ev.ev = "Query"        -> ev.obj \in Live /\ Query(ev.obj, ev.q)
    [] ev.ev = "GetMetric"    -> ev.obj \in Live /\ GetMetric(ev.obj)
    [] ev.ev = "GetMatrix"    -> ev.obj \in Live /\ GetMatrix(ev.obj)
    [] ev.ev = "Mutate"       -> ev.h \in 1..Len(handles) /\ MutateReturned(ev.h)
    [] ev.ev = "CallHandle"   -> ev.h \in 1..Len(handles) /\ CallHandle(ev.h)
    [] OTHER -> FALSE

(* clauses about the call's own outcome, evaluated on the post-state (primed) *)
OutcomeFails(ev) ==
  CASE ev.ev = "Query" ->
         IF last'[1] = "NotFitted"
         THEN (IF ev.exc = "NotFittedError" THEN {} ELSE {"C18.unfitted_use_raises_NotFittedError"})
         ELSE (IF ev.exc = "" /\ ev.out = Ref.query[last'[4][1]][last'[4][2]][last'[6]][ThrIndex(last'[5])][ev.q]
               THEN {} ELSE {"C17.query_output_is_function_of_model"})
    [] ev.ev \in {"SetThreshold", "Calibrate", "GetMetric", "GetMatrix"} ->
         IF last'[1] = "NotFitted"
         THEN (IF ev.exc = "NotFittedError" THEN {} ELSE {"C18.unfitted_use_raises_NotFittedError"})
         ELSE (IF ev.exc = "" THEN {} ELSE {"TRACE.call_raised"})
    [] ev.ev = "CallHandle" ->
         IF ev.out = (IF last'[3] = "metric" THEN Ref.metric[last'[4][1]][last'[4][2]]
                      ELSE Ref.matrix[last'[4][1]][last'[4][2]])
         THEN {} ELSE {"C17.handed_out_objects_unaffected"}
    [] ev.ev = "Fit" -> IF ev.exc = "" THEN {} ELSE {"TRACE.fit_raised"}
    [] ev.ev = "CrossValidate" ->
         IF ev.exc = "" /\ ev.out = Ref.crossval[last'[4][1]][last'[4][2]] THEN {}
         ELSE {"G17.cross_val_score_is_function_of_parameters_and_data"}
    [] ev.ev = "GridSearch" ->
         IF ev.exc = "" /\ ev.out = Ref.gridsearch[last'[3]] THEN {}
         ELSE {"G17.grid_search_scores_are_the_cross_val_scores_of_each_setting"}
    [] ev.ev = "FitTransform" ->
         IF ev.exc # "" THEN {"TRACE.fit_raised"}
         ELSE IF ev.out = Ref.fit_transform[last'[4][1]][last'[4][2]] THEN {} ELSE {"G17.fit_transform_is_fit_then_transform"}
    [] ev.ev \in {"New", "SetParams", "Clone"} ->
         IF ev.identical THEN {} ELSE {"C18.get_params_returns_identical_objects"}
    [] OTHER -> {}
OutcomeClauses(ev) ==
  CASE ev.ev = "Query" -> {"C17.query_output_is_function_of_model", "C18.unfitted_use_raises_NotFittedError"}
    [] ev.ev = "CallHandle" -> {"C17.handed_out_objects_unaffected"}
    [] ev.ev \in {"New", "SetParams"} -> {"C18.get_params_returns_identical_objects"}
    [] ev.ev = "Clone" -> {"C18.get_params_returns_identical_objects", "C18.clone_reproduces_an_unfitted_estimator"}
    [] ev.ev = "Pickle" -> {"C18.pickle_preserves_state"}
    [] OTHER -> {}

Tag(S) == {c \o "@" \o ToString(l) : c \in S}

(* clone / pickle round-trip must produce an object (sklearn.base.clone raises when a constructor does not store a       *)
(* parameter as the identical object it was given): a raising Clone / Pickle ends the history, nothing changes            *)
CopyRaised == Ev.ev \in {"Clone", "Pickle"} /\ Ev.exc # ""
NextT ==
  /\ l <= Len(Traces[tid].events)
  /\ \/ /\ CopyRaised
        /\ UNCHANGED <<objs, handles, last>>
        /\ fails' = fails \cup Tag({IF Ev.ev = "Clone" THEN "C18.clone_reproduces_an_unfitted_estimator"
                                                      ELSE "C18.pickle_preserves_state"})
     \/ /\ ~CopyRaised
        /\ Matches(Ev)
        /\ fails' = fails \cup Tag(StateFails(objs', Ev.post, Ev.arrays, arr) \cup OutcomeFails(Ev)
                                   \* the reference value of a model term is the fit of a FRESH estimator constructed with the
                                   \* same parameters: a fit that differs from it also breaks "clone / set_params behave
                                   \* identically when fitted" (C18)
                                   \cup (IF Ev.ev \in {"Fit", "FitTransform"} /\ "C17.model_is_function_of_last_fit" \in StateFails(objs', Ev.post, Ev.arrays, arr)
                                         THEN {"C18.fit_equals_fit_of_fresh_estimator_with_same_parameters"} ELSE {}))
     \/ /\ ~CopyRaised
        /\ ~ENABLED Matches(Ev)
        /\ UNCHANGED <<objs, handles, last>>
        /\ fails' = fails \cup Tag({"TRACE.no_matching_action"})
  /\ ex' = ex \cup StateClauses \cup OutcomeClauses(Ev)
              \cup (IF Ev.ev \in {"Fit", "FitTransform"} THEN {"C18.fit_equals_fit_of_fresh_estimator_with_same_parameters"} ELSE {})
              \cup (IF Ev.ev = "FitTransform" THEN {"G17.fit_transform_is_fit_then_transform"} ELSE {})
              \cup (IF Ev.ev = "CrossValidate" THEN {"G17.cross_val_score_is_function_of_parameters_and_data"} ELSE {})
              \cup (IF Ev.ev = "GridSearch" THEN {"G17.grid_search_scores_are_the_cross_val_scores_of_each_setting"} ELSE {})
  /\ arr' = Ev.arrays      \* a change is blamed on the event that made it, once
  /\ l' = l + 1 /\ UNCHANGED tid

Done   == l = Len(Traces[tid].events) + 1
Report == Done => PrintT(<<"VERDICT", Traces[tid].tid, fails, ex>>)
=============================================================================
