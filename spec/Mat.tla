------------------------------- MODULE Mat -------------------------------
(***************************************************************************)
(* Vectors and matrices over a PARAMETERISED ordered ring.                 *)
(* A vector is a sequence of scalars; a matrix a sequence of rows.         *)
(* Instantiated with TLC integers in the exhaustive models (MatI) and with *)
(* the exact dyadics of Dy.tla in the trace specifications (MatD), so the  *)
(* same definitions of "what the library means" are model-checked on small *)
(* exact domains and evaluated on behaviours of the real code.             *)
(***************************************************************************)
EXTENDS Integers, Sequences
CONSTANTS Zero, Add(_, _), Mul(_, _), Sub(_, _), Leq(_, _)

(* TLC evaluates a function constructor [i \in S |-> e] LAZILY: e is re-evaluated at every application, and Len() of *)
(* such a value evaluates ALL its entries.  Concatenating with the empty sequence turns it into an explicit tuple whose *)
(* entries are evaluated once - semantically the identity on sequences.  Every constructor below is eager.              *)
Eager(f) == f \o <<>>

RECURSIVE SumSeq(_, _)
SumSeq(s, i) == IF i > Len(s) THEN Zero ELSE Add(s[i], SumSeq(s, i + 1))
Sum(s) == SumSeq(Eager(s), 1)

Dim(v)    == Len(v)
Rows(A)   == Len(A)
Cols(A)   == IF Len(A) = 0 THEN 0 ELSE Len(A[1])
IsMat(A, r, c) == Len(A) = r /\ \A i \in 1..r : Len(A[i]) = c

Dot(u, v)      == Sum([i \in 1..Len(u) |-> Mul(u[i], v[i])])
VSub(u, v)     == Eager([i \in 1..Len(u) |-> Sub(u[i], v[i])])
VAdd(u, v)     == Eager([i \in 1..Len(u) |-> Add(u[i], v[i])])
VScale(c, v)   == Eager([i \in 1..Len(v) |-> Mul(c, v[i])])
Norm2(v)       == Dot(v, v)
MatVec(A, v)   == Eager([i \in 1..Len(A) |-> Dot(A[i], v)])
Col(A, j)      == Eager([i \in 1..Len(A) |-> A[i][j]])
Transpose(A)   == Eager([j \in 1..Cols(A) |-> Col(A, j)])
MatMul(A, C)   == LET Ct == Transpose(C) IN Eager([i \in 1..Len(A) |-> Eager([j \in 1..Len(Ct) |-> Dot(A[i], Ct[j])])])
MAdd(A, C)     == Eager([i \in 1..Len(A) |-> VAdd(A[i], C[i])])
MSub(A, C)     == Eager([i \in 1..Len(A) |-> VSub(A[i], C[i])])
MScale(c, A)   == Eager([i \in 1..Len(A) |-> VScale(c, A[i])])
Outer(u, v)    == Eager([i \in 1..Len(u) |-> Eager([j \in 1..Len(v) |-> Mul(u[i], v[j])])])
Gram(L)        == MatMul(Transpose(L), L)             \* L^T L
QuadForm(M, v) == Dot(v, MatVec(M, v))                \* v^T M v
Trace(A)       == Sum([i \in 1..Len(A) |-> A[i][i]])
Frob2(A)       == Sum([i \in 1..Len(A) |-> Norm2(A[i])])
IsSym(A)       == \A i \in 1..Len(A) : \A j \in 1..Len(A) : A[i][j] = A[j][i]
Ident(n, one)  == Eager([i \in 1..n |-> Eager([j \in 1..n |-> IF i = j THEN one ELSE Zero])])
ZeroVec(n)     == Eager([i \in 1..n |-> Zero])
ZeroMat(r, c)  == Eager([i \in 1..r |-> ZeroVec(c)])
(* sum of a sequence of d x d matrices, from position i on *)
RECURSIVE SumMatsR(_, _, _)
SumMatsR(f, i, d) == IF i > Len(f) THEN ZeroMat(d, d) ELSE MAdd(f[i], SumMatsR(f, i + 1, d))
SumMats(f, i, d) == SumMatsR(Eager(f), i, d)
MatInner(A, C) == Sum([i \in 1..Len(A) |-> Dot(A[i], C[i])])   \* <A, C> = tr(A^T C)
=============================================================================
