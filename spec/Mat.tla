------------------------------- MODULE Mat -------------------------------
(***************************************************************************)
(* Vectors and matrices over a PARAMETERISED ordered ring.                 *)
(* A vector is a sequence of scalars; a matrix a sequence of rows.         *)
(* Instantiated with TLC integers in the exhaustive models (MatI) and with *)
(* the exact dyadics of Dy.tla in the trace specifications (MatD), so the  *)
(* same definitions of "what the library means" are model-checked on small *)
(* exact domains and evaluated on behaviours of the real code.             *)
(***************************************************************************)
EXTENDS Integers, Sequences
CONSTANTS Zero, Add(_, _), Mul(_, _), Sub(_, _), Leq(_, _)

RECURSIVE SumSeq(_, _)
SumSeq(s, i) == IF i > Len(s) THEN Zero ELSE Add(s[i], SumSeq(s, i + 1))
Sum(s) == SumSeq(s, 1)

Dim(v)    == Len(v)
Rows(A)   == Len(A)
Cols(A)   == IF Len(A) = 0 THEN 0 ELSE Len(A[1])
IsMat(A, r, c) == Len(A) = r /\ \A i \in 1..r : Len(A[i]) = c

Dot(u, v)      == Sum([i \in 1..Len(u) |-> Mul(u[i], v[i])])
VSub(u, v)     == [i \in 1..Len(u) |-> Sub(u[i], v[i])]
VAdd(u, v)     == [i \in 1..Len(u) |-> Add(u[i], v[i])]
VScale(c, v)   == [i \in 1..Len(v) |-> Mul(c, v[i])]
Norm2(v)       == Dot(v, v)
MatVec(A, v)   == [i \in 1..Len(A) |-> Dot(A[i], v)]
Col(A, j)      == [i \in 1..Len(A) |-> A[i][j]]
Transpose(A)   == [j \in 1..Cols(A) |-> Col(A, j)]
MatMul(A, C)   == [i \in 1..Len(A) |-> [j \in 1..Cols(C) |-> Dot(A[i], Col(C, j))]]
MAdd(A, C)     == [i \in 1..Len(A) |-> VAdd(A[i], C[i])]
MSub(A, C)     == [i \in 1..Len(A) |-> VSub(A[i], C[i])]
MScale(c, A)   == [i \in 1..Len(A) |-> VScale(c, A[i])]
Outer(u, v)    == [i \in 1..Len(u) |-> [j \in 1..Len(v) |-> Mul(u[i], v[j])]]
Gram(L)        == MatMul(Transpose(L), L)             \* L^T L
QuadForm(M, v) == Dot(v, MatVec(M, v))                \* v^T M v
Trace(A)       == Sum([i \in 1..Len(A) |-> A[i][i]])
Frob2(A)       == Sum([i \in 1..Len(A) |-> Norm2(A[i])])
IsSym(A)       == \A i \in 1..Len(A) : \A j \in 1..Len(A) : A[i][j] = A[j][i]
Ident(n, one)  == [i \in 1..n |-> [j \in 1..n |-> IF i = j THEN one ELSE Zero]]
ZeroVec(n)     == [i \in 1..n |-> Zero]
ZeroMat(r, c)  == [i \in 1..r |-> ZeroVec(c)]
MatInner(A, C) == Sum([i \in 1..Len(A) |-> Dot(A[i], C[i])])   \* <A, C> = tr(A^T C)
=============================================================================
