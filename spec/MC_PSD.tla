------------------------------- MODULE MC_PSD -------------------------------
(***************************************************************************)
(* All symmetric matrices M = Vs diag(w) Vs^T of size 2 and 3 with Vs from *)
(* a set of exact scaled-orthogonal integer matrices (identity, signed     *)
(* permutations, the 3-4-5 Givens rotation in each coordinate plane) and   *)
(* integer spectra w of every sign pattern and rank.  Invariants: M is     *)
(* symmetric; its quadratic form is >= 0 on the whole integer grid when    *)
(* w >= 0; when some w_i < 0 the matching column of Vs is an exact witness *)
(* of indefiniteness.  The states are dumped and replayed into             *)
(* components_from_metric (spec -> code).                                  *)
(***************************************************************************)
EXTENDS Integers, Sequences, FiniteSets, TLC
CONSTANTS WMax, P
IAdd(a, b) == a + b
IMul(a, b) == a * b
ISub(a, b) == a - b
ILeq(a, b) == a <= b
PS == INSTANCE PSD WITH Zero <- 0, Add <- IAdd, Mul <- IMul, Sub <- ISub, Leq <- ILeq
MI == INSTANCE Mat WITH Zero <- 0, Add <- IAdd, Mul <- IMul, Sub <- ISub, Leq <- ILeq

Vs2 == { <<<<5, 0>>, <<0, 5>>>>, <<<<0, 5>>, <<5, 0>>>>, <<<<0, -5>>, <<5, 0>>>>,
         <<<<3, -4>>, <<4, 3>>>>, <<<<4, 3>>, <<-3, 4>>>>, <<<<-3, 4>>, <<4, 3>>>> }
Vs3 == { <<<<5, 0, 0>>, <<0, 5, 0>>, <<0, 0, 5>>>>, <<<<0, 5, 0>>, <<0, 0, 5>>, <<5, 0, 0>>>>,
         <<<<3, -4, 0>>, <<4, 3, 0>>, <<0, 0, 5>>>>, <<<<5, 0, 0>>, <<0, 3, -4>>, <<0, 4, 3>>>>,
         <<<<3, 0, -4>>, <<0, 5, 0>>, <<4, 0, 3>>>>, <<<<0, 3, -4>>, <<5, 0, 0>>, <<0, 4, 3>>>> }
VARIABLES Vs, w
Init == \/ Vs \in Vs2 /\ w \in [1..2 -> -WMax..WMax]
        \/ Vs \in Vs3 /\ w \in [1..3 -> -WMax..WMax]
Next == UNCHANGED <<Vs, w>>
M == PS!Reconstruct(Vs, w)
n == Len(Vs)
Grid == [1..n -> -P..P]
Orthogonal == PS!IsScaledOrthogonal(Vs, 25)
Symmetric  == MI!IsSym(M)
PSDIffSpectrum == (\A i \in 1..n : w[i] >= 0) => \A x \in Grid : MI!QuadForm(M, x) >= 0
NegativeWitness == \A i \in 1..n : w[i] < 0 => MI!QuadForm(M, MI!Col(Vs, i)) = 625 * w[i]
VerdictTotal == PS!SpectrumVerdict([i \in 1..n |-> 25 * w[i]], 0) \in {"accept", "reject"}
=============================================================================
