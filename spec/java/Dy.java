/*
 * Java accelerator ("module override") for the operators of spec/Dy.tla.
 *
 * The TLA+ definitions in Dy.tla are the reference; this class only makes TLC evaluate them with
 * java.math.BigInteger instead of interpreting limb recursion (measured: ~1000x faster).  TLC loads a
 * class named like the module from the spec directory and replaces every operator for which a public
 * static method of the same name and arity exists.  spec/DyRef.tla is a verbatim copy of Dy.tla under
 * another module name (so it is NOT overridden); MC_DyX.tla model-checks that every overridden
 * operator returns exactly the value of the pure TLA+ definition on a grid of operands, and the
 * same is re-checked on operands taken from real traces.
 */
import java.math.BigInteger;

import tlc2.value.impl.IntValue;
import tlc2.value.impl.TupleValue;
import tlc2.value.impl.Value;

public class Dy {
  private static final int BB = 15;
  private static final BigInteger MASK = BigInteger.valueOf((1 << BB) - 1);

  private static final class D {
    final BigInteger n;   // signed integer mantissa
    final int e;          // value = n * 2^(15 e)
    D(BigInteger n, int e) { this.n = n; this.e = e; }
  }

  private static Value[] elems(Value v) {
    TupleValue t = (TupleValue) v.toTuple();
    if (t == null) {
      throw new RuntimeException("Dy override: not a tuple: " + v);
    }
    return t.elems;
  }

  private static D dec(Value v) {
    Value[] t = elems(v);
    int s = ((IntValue) t[0]).val;
    int e = ((IntValue) t[1]).val;
    Value[] m = elems(t[2]);
    BigInteger n = BigInteger.ZERO;
    for (int i = m.length - 1; i >= 0; i--) {
      n = n.shiftLeft(BB).or(BigInteger.valueOf(((IntValue) m[i]).val));
    }
    if (s < 0) {
      n = n.negate();
    } else if (s == 0) {
      n = BigInteger.ZERO;
    }
    return new D(n, e);
  }

  private static Value enc(BigInteger n, int e) {
    int s = n.signum();
    if (s == 0) {
      return new TupleValue(new Value[] {IntValue.gen(0), IntValue.gen(0), new TupleValue(new Value[0])});
    }
    n = n.abs();
    int z = n.getLowestSetBit() / BB;
    if (z > 0) {
      n = n.shiftRight(z * BB);
      e += z;
    }
    int len = (n.bitLength() + BB - 1) / BB;
    Value[] m = new Value[len];
    for (int i = 0; i < len; i++) {
      m[i] = IntValue.gen(n.and(MASK).intValue());
      n = n.shiftRight(BB);
    }
    return new TupleValue(new Value[] {IntValue.gen(s), IntValue.gen(e), new TupleValue(m)});
  }

  private static BigInteger at(D a, int e) {
    return a.n.shiftLeft(BB * (a.e - e));
  }

  public static Value Add(Value x, Value y) {
    D a = dec(x), b = dec(y);
    if (a.n.signum() == 0) { return enc(b.n, b.e); }
    if (b.n.signum() == 0) { return enc(a.n, a.e); }
    int e = Math.min(a.e, b.e);
    return enc(at(a, e).add(at(b, e)), e);
  }

  public static Value Sub(Value x, Value y) {
    D a = dec(x), b = dec(y);
    if (b.n.signum() == 0) { return enc(a.n, a.e); }
    if (a.n.signum() == 0) { return enc(b.n.negate(), b.e); }
    int e = Math.min(a.e, b.e);
    return enc(at(a, e).subtract(at(b, e)), e);
  }

  public static Value Mul(Value x, Value y) {
    D a = dec(x), b = dec(y);
    if (a.n.signum() == 0 || b.n.signum() == 0) { return enc(BigInteger.ZERO, 0); }
    return enc(a.n.multiply(b.n), a.e + b.e);
  }

  public static Value Sq(Value x) {
    return Mul(x, x);
  }

  public static Value Cmp(Value x, Value y) {
    D a = dec(x), b = dec(y);
    int sa = a.n.signum(), sb = b.n.signum();
    if (sa != sb) { return IntValue.gen(sa < sb ? -1 : 1); }
    if (sa == 0) { return IntValue.gen(0); }
    int e = Math.min(a.e, b.e);
    return IntValue.gen(at(a, e).compareTo(at(b, e)));
  }

  /* n/d reduced by gcd, as a pair of integer-valued dyadics with d > 0 (inputs are made integral by a common shift) */
  public static Value RatNorm(Value x, Value y) {
    D a = dec(x), b = dec(y);
    if (b.n.signum() == 0) { return new TupleValue(new Value[] {x, y}); }
    int e = Math.min(a.e, b.e);
    BigInteger n = at(a, e), d = at(b, e);
    if (d.signum() < 0) { n = n.negate(); d = d.negate(); }
    BigInteger g = n.gcd(d);
    if (g.signum() != 0) { n = n.divide(g); d = d.divide(g); }
    return new TupleValue(new Value[] {enc(n, 0), enc(d, 0)});
  }

  public static Value Trunc(Value x, Value kv) {
    int k = ((IntValue) kv).val;
    D a = dec(x);
    if (a.n.signum() == 0) { return enc(BigInteger.ZERO, 0); }
    BigInteger m = a.n.abs();
    int z = m.getLowestSetBit() / BB;       // normalise first so that Len(limbs) is the TLA+ one
    m = m.shiftRight(z * BB);
    int e = a.e + z;
    int len = (m.bitLength() + BB - 1) / BB;
    if (len <= k) { return enc(a.n, a.e); }
    int d = len - k;
    m = m.shiftRight(d * BB);
    return enc(a.n.signum() < 0 ? m.negate() : m, e + d);
  }
}
