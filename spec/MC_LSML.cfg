CONSTANTS LMax = 3
 MaxIter = 3
 NTrials = 3
INIT Init
NEXT Next
INVARIANT StrictDecrease
INVARIANT NeverWorseThanPrior
INVARIANT EarlyStopReasons
CHECK_DEADLOCK FALSE
