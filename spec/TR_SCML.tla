-------------------------------- MODULE TR_SCML --------------------------------
(***************************************************************************)
(* Trace spec for C15.  One event per real SCML / SCML_Supervised fit: the *)
(* basis and the weights handed to the components builder (observed by     *)
(* wrapping it), the distance-difference matrix (wrapped helper), the      *)
(* mini-batches regenerated from the integer seed, and per iteration the   *)
(* witnesses (sqrt Q, w) from an untrusted transcription.  TLC verifies    *)
(* M = SUM w_i b_i b_i^T with w >= 0, the basis clauses, and RE-EXECUTES   *)
(* the documented scheme of SCML.tla step by step (every witness checked,  *)
(* hinge decisions taken by TLC itself) to decide that the reported        *)
(* weights are those of the first checkpoint with the lowest objective.    *)
(***************************************************************************)
EXTENDS SCML, FiniteSets, TLC, Json, IOUtils
Batch  == JsonDeserialize(IOEnv.TRACE_FILE)
Traces == Batch.traces
VARIABLES tid, l, fails, ex
vars == <<tid, l, fails, ex>>
R(f, e) == [fails |-> f, ex |-> e]
G(c, ok) == IF ok THEN {} ELSE {c}

(* replay: returns [status, best] where status \in {"ok", "witness", "ambiguous"} and best the kept weights *)
RECURSIVE Replay(_, _, _, _, _, _, _)
Replay(ev, t, w, S, Q, bestObj, best) ==
  \* t = number of iterations done so far; w = weights after t iterations
  IF t = ev.max_iter THEN [status |-> "ok", best |-> best]
  ELSE
  LET idx == ev.batches[t + 1] IN
  IF BatchAmbiguous(ev.D, idx, w) THEN [status |-> "ambiguous", best |-> best]
  ELSE
  LET raw == SumRows(ev.D, idx, w, 1)
      S1  == DM!VAdd(S, raw)
      Q1  == [j \in 1..Len(Q) |-> Add(Q[j], Sq(raw[j]))]
      wit == ev.steps[t + 1]
  IN IF ~StepWitnessOK(S1, Q1, t + 1, ev.batch_size, ev.beta, ev.gamma, wit.r, wit.w)
     THEN [status |-> "witness", best |-> best]
     ELSE IF (t + 1) % ev.output_iter = 0
          THEN LET o == ObjectiveN(ev.D, wit.w, ev.beta) IN
               IF bestObj = <<>> \/ Lt(o, bestObj[1])
               THEN Replay(ev, t + 1, wit.w, S1, Q1, <<o>>, wit.w)
               ELSE Replay(ev, t + 1, wit.w, S1, Q1, bestObj, best)
          ELSE Replay(ev, t + 1, wit.w, S1, Q1, bestObj, best)

Step(ev) ==
  LET nb == Len(ev.basis)  d == Len(ev.basis[1])
      M == IF Len(ev.L) = 0 THEN DM!ZeroMat(d, d) ELSE DM!Gram(ev.L)      \* no active basis: zero rows, the zero metric
      active == {i \in 1..nb : IsPos(ev.w_reported[i])}
      zero == DM!ZeroVec(nb)
  IN
  IF ev.exc # "" THEN R({"C15.fit_returns"}, {})
  ELSE
  LET base ==
        G("C15.weights_nonnegative", AllFinV(ev.w_reported) /\ \A i \in 1..nb : ~IsNeg(ev.w_reported[i]))
        \cup G("C15.metric_is_weighted_sum_of_basis_outer_products",
               AllFinM(ev.L) /\ ApproxM(M, MetricFrom(ev.basis, ev.w_reported), 2, 2, Add(MaxAbsM(M), <<1, -3, <<1>>>>)))
        \cup G("C15.low_rank_shape_and_warning",
               IF Cardinality(active) < d THEN Len(ev.L) = Cardinality(active) /\ ev.lowrank_warning
               ELSE Len(ev.L) = d)
        \cup (IF ev.generated_basis
              THEN G("C15.generated_basis_has_n_basis_unit_rows",
                     nb = ev.n_basis /\ \A i \in 1..nb : Approx(DM!Norm2(ev.basis[i]), One, 2, 2, One))
              ELSE {})
      rep == IF ev.probes_ok THEN Replay(ev, 0, zero, zero, zero, <<>>, zero) ELSE [status |-> "noprobe", best |-> zero]
  IN R(base \cup (IF rep.status = "ok"
                  THEN G("C15.weights_are_first_lowest_checkpoint_of_documented_scheme",
                         ApproxV(rep.best, ev.w_reported, 1, 2, Add(MaxAbsV(ev.w_reported), <<1, -2, <<1>>>>)))
                  ELSE {}),
       {"C15.weights_nonnegative", "C15.metric_is_weighted_sum_of_basis_outer_products", "C15.low_rank_shape_and_warning"}
       \cup (IF ev.generated_basis THEN {"C15.generated_basis_has_n_basis_unit_rows"} ELSE {})
       \cup (IF rep.status = "ok" THEN {"C15.weights_are_first_lowest_checkpoint_of_documented_scheme"}
             ELSE {"X15.scheme_replay_" \o rep.status}))

Init == tid \in 1..Len(Traces) /\ l = 1 /\ fails = {} /\ ex = {}
Next == /\ l <= Len(Traces[tid].events)
        /\ LET r == Step(Traces[tid].events[l])
           IN  fails' = fails \cup {x \o "@" \o ToString(l) : x \in r.fails} /\ ex' = ex \cup r.ex
        /\ l' = l + 1 /\ UNCHANGED tid
Done   == l = Len(Traces[tid].events) + 1
Report == Done => PrintT(<<"VERDICT", Traces[tid].tid, fails, ex>>)
=============================================================================
