------------------------------ MODULE MC_Preproc ------------------------------
(* All index arrays of up to MaxRows tuples (MaxRows + 1 for points and    *)
(* pairs) over a store of NPts points,                                     *)
(* tuple sizes 1 (points), 2, 3, 4, repeats and arbitrary order included:  *)
(* column-wise formation equals the point-wise definition, preserves row   *)
(* and column order, and uses exactly `size` preprocessor calls.  The      *)
(* index arrays are dumped and replayed on the real estimators.            *)
EXTENDS Preproc, TLC
CONSTANTS NPts, MaxRows, Sizes
VARIABLES size, T
Store == [i \in 1..NPts |-> <<i, 10 * i>>]         \* distinct points
Init == /\ size \in Sizes
        /\ \E n \in 1..(IF size <= 2 THEN MaxRows + 1 ELSE MaxRows) : T \in [1..n -> [1..size -> 1..NPts]]
Next == UNCHANGED <<size, T>>
ColumnWiseIsPointWise == ColumnWise(Store, T, size) = FormTuples(Store, T)
OneCallPerColumn == Len(CallsForTuples(T, size)) = size
OrderPreserved == \A i \in 1..Len(T) : \A j \in 1..size : FormTuples(Store, T)[i][j] = Store[T[i][j]]
=============================================================================
