----------------------------- MODULE ObsMetric -----------------------------
(***************************************************************************)
(* Observation clauses for C01 / C02: given the model L (the logged        *)
(* components_) and what the real code returned for a query, decide which  *)
(* clauses fail.  Every operator returns a SET OF FAILED CLAUSE IDS and is *)
(* total (never blocks).  Distances are logged exactly (Dy of the double). *)
(***************************************************************************)
EXTENDS Integers, Sequences, FiniteSets, DyMat

F(c, ok) == IF ok THEN {} ELSE {c}

(* index names for the 9 ordered pairs of a triple (x,y,z) *)
XY == 1  YX == 2  YZ == 3  ZY == 4  XZ == 5  ZX == 6  XX == 7  YY == 8  ZZ == 9

(* abs scale for rounding-error allowances: an upper bound of ||L v|| for |v_i| <= 2 max|coords| *)
ScaleOf(L, pts) ==
  LET mx == MaxAbsSeq([i \in 1..Len(pts) |-> MaxAbsV(pts[i])], 1)
  IN  Mul(Sum1M(L), Add(mx, mx))

(* the triangle inequality on logged distances, with slack 2^-30 relative + 2^-45 * S absolute *)
Tri(a, b, c, S) == Leq(a, Add(Add(b, c), Add(Shift(Add(b, c), -2), Shift(S, -3))))

(* view v (sequence of 9 doubles) is a pseudo-metric on the triple and equals the definition *)
ViewAxioms(pfx, v, L, x, y, z, S) ==
  IF ~AllFinV(v) THEN {pfx \o ".finite"}
  ELSE F(pfx \o ".nonneg", \A i \in 1..9 : ~IsNeg(v[i]))
       \cup F(pfx \o ".sym", v[XY] = v[YX] /\ v[YZ] = v[ZY] /\ v[XZ] = v[ZX])
       \cup F(pfx \o ".zero_self", IsZero(v[XX]) /\ IsZero(v[YY]) /\ IsZero(v[ZZ]))
       \cup F(pfx \o ".triangle", Tri(v[XZ], v[XY], v[YZ], S) /\ Tri(v[XY], v[XZ], v[ZY], S)
                                  /\ Tri(v[YZ], v[YX], v[XZ], S))

(* logged distance r against the definition: r >= 0 and r^2 ~ ||L(x-y)||^2 *)
MatchesDef(r, L, x, y, S) == IsFin(r) /\ IsSqrt(r, DH!SqDist(L, x, y), 2, 3, Sq(S))
MatchesDefSq(r2, L, x, y, S) == IsFin(r2) /\ Approx(r2, DH!SqDist(L, x, y), 2, 3, Sq(S))

TripleFails(L, ev) ==
  LET x == ev.x  y == ev.y  z == ev.z
      S == ScaleOf(L, <<x, y, z>>)
      pd == ev.pd  ps == ev.ps  gm == ev.gm
  IN  ViewAxioms("C01.pair_distance", pd, L, x, y, z, S)
      \cup ViewAxioms("C01.get_metric", gm, L, x, y, z, S)
      \cup F("C01.pair_score_is_negated_distance",
             AllFinV(pd) /\ AllFinV(ps) /\ \A i \in 1..9 : ps[i] = Neg(pd[i]))
      \cup F("C01.pair_distance.defn", MatchesDef(pd[XY], L, x, y, S) /\ MatchesDef(pd[YZ], L, y, z, S)
                                       /\ MatchesDef(pd[XZ], L, x, z, S))
      \cup F("C01.get_metric.defn", MatchesDef(gm[XY], L, x, y, S) /\ MatchesDef(gm[YZ], L, y, z, S)
                                       /\ MatchesDef(gm[XZ], L, x, z, S))
TripleEx == {"C01.pair_distance.finite", "C01.pair_distance.nonneg", "C01.pair_distance.sym",
             "C01.pair_distance.zero_self", "C01.pair_distance.triangle", "C01.get_metric.finite",
             "C01.get_metric.nonneg", "C01.get_metric.sym", "C01.get_metric.zero_self",
             "C01.get_metric.triangle", "C01.pair_score_is_negated_distance",
             "C01.pair_distance.defn", "C01.get_metric.defn"}

(***************************************************************************)
(* C02: all views of the metric denote the same number, transform is X L^T,*)
(* M = L^T L symmetric PSD.  ev.X: query points (n x d); ev.pairs: index   *)
(* pairs into X; per representation r the logged outputs.                  *)
(***************************************************************************)
ViewsFails(L, ev) ==
  LET X   == ev.X
      S   == ScaleOf(L, X)
      n   == Len(X)
      P   == ev.pairs                       \* sequence of <<i, j>>
      np  == Len(P)
      E   == [i \in 1..n |-> DH!Embed(L, X[i])]                   \* spec embedding
      D2  == [p \in 1..np |-> DH!SqDist(L, X[P[p][1]], X[P[p][2]])]
      G   == IF Len(L) = 0 THEN DM!ZeroMat(Len(ev.M), Len(ev.M))          \* SCML may learn no active basis: zero rows
             ELSE DH!MetricMatrix(L)
      MS  == Sq(Sum1M(L))                    \* scale of entries of M
      tol2(a, b) == Approx(a, b, 2, 3, Sq(S))
      \* a distance is a function of the DIFFERENCE x - x' (exact for the dyadic query points): its rounding allowance is
      \* relative to the scale of that difference, not to the magnitude of the points (a large common offset must not matter)
      Sd2(p) == LET m == MaxAbsV(DM!VSub(X[P[p][1]], X[P[p][2]])) IN Sq(Mul(Sum1M(L), Add(m, m)))
      dOK(v)  == Len(v) = np /\ AllFinV(v) /\ \A p \in 1..np : IsSqrt(v[p], D2[p], 2, 3, Sd2(p))
      d2OK(v) == Len(v) = np /\ AllFinV(v) /\ \A p \in 1..np : Approx(v[p], D2[p], 2, 3, Sd2(p))
      T   == ev.transform
      Mg  == ev.M
  IN  F("C02.transform_is_XLt", Len(T) = n /\ AllFinM(T) /\
                                 \A i \in 1..n : ApproxV(T[i], E[i], 2, 3, S))
      \cup F("C02.M_is_LtL", AllFinM(Mg) /\ ApproxM(Mg, G, 2, 3, MS))
      \cup F("C02.M_symmetric", AllFinM(Mg) /\ \A i \in 1..Len(Mg) : \A j \in 1..Len(Mg) :
                                 Approx(Mg[i][j], Mg[j][i], 3, 3, MS))
      \cup F("C02.pair_distance", dOK(ev.pd))
      \cup F("C02.pair_score", Len(ev.ps) = np /\ AllFinV(ev.ps) /\ AllFinV(ev.pd) /\
                                 \A p \in 1..np : ev.ps[p] = Neg(ev.pd[p]))
      \cup F("C02.score_pairs_same_as_pair_distance", ev.sp = ev.pd /\ ev.sp_warned)
      \cup F("C02.get_metric", dOK(ev.gm))
      \cup F("C02.get_metric_squared", d2OK(ev.gq))
      \cup F("C02.euclid_of_transform", AllFinM(T) /\ Len(T) = n /\
               \A p \in 1..np : tol2(DH!SqEuclid(T[P[p][1]], T[P[p][2]]), D2[p]))
      \cup F("C02.quadform_of_M", AllFinM(Mg) /\
               \A p \in 1..np : tol2(DH!SqDistM(Mg, X[P[p][1]], X[P[p][2]]), D2[p]))
      \cup F("C02.M_psd", AllFinM(Mg) /\
               \A i \in 1..n : Geq(DM!QuadForm(Mg, X[i]), Neg(Shift(Mul(MS, Sq(MaxAbsV(X[i]))), -2))))
      \cup UNION {F("C02.repr." \o ev.reprs[r].name,
                    dOK(ev.reprs[r].pd) /\ Len(ev.reprs[r].transform) = n /\
                    \A i \in 1..n : ApproxV(ev.reprs[r].transform[i], E[i], 2, 3, S)) : r \in 1..Len(ev.reprs)}
ViewsEx(ev) == {"C02.transform_is_XLt", "C02.M_is_LtL", "C02.M_symmetric", "C02.pair_distance",
            "C02.pair_score", "C02.score_pairs_same_as_pair_distance", "C02.get_metric",
            "C02.get_metric_squared", "C02.euclid_of_transform", "C02.quadform_of_M", "C02.M_psd"}
            \cup {"C02.repr." \o ev.reprs[r].name : r \in 1..Len(ev.reprs)}

(***************************************************************************)
(* Behaviours recorded from the REPOSITORY'S OWN TEST SUITE (pytest plugin *)
(* harness/verif_trace_plugin.py): every outermost public call on a        *)
(* library estimator with the components_ in force.  The same definitions  *)
(* are applied to them, so the suite's executions are checked at every     *)
(* call, not only where a test happens to assert something.                *)
(***************************************************************************)
CallPairsFails(ev) ==
  LET L == ev.L
      n == Len(ev.pairs)
      pts == [i \in 1..(2 * n) |-> ev.pairs[(i + 1) \div 2][IF i % 2 = 1 THEN 1 ELSE 2]]
      S == ScaleOf(L, pts)
      d2(i) == DH!SqDist(L, ev.pairs[i][1], ev.pairs[i][2])
      signOK(v) == IF ev.method \in {"pair_distance", "score_pairs"} THEN ~IsNeg(v) ELSE ~IsPos(v)
  IN F("C02.suite_call_" \o ev.method,
       Len(ev.out) = n /\ AllFinV(ev.out) /\
       \A i \in 1..n : signOK(ev.out[i]) /\ Approx(Sq(ev.out[i]), d2(i), 2, 3, Sq(S)))
CallTransformFails(ev) ==
  LET S == ScaleOf(ev.L, ev.X) IN
  F("C02.suite_call_transform",
    Len(ev.out) = Len(ev.X) /\ AllFinM(ev.out) /\
    \A i \in 1..Len(ev.X) : ApproxV(ev.out[i], DH!Embed(ev.L, ev.X[i]), 2, 3, S))
CallMatrixFails(ev) ==
  LET MS == Sq(Sum1M(ev.L)) IN
  F("C02.suite_call_get_mahalanobis_matrix",
    AllFinM(ev.M) /\ ApproxM(ev.M, DH!MetricMatrix(ev.L), 2, 3, MS))
(* triplets (a,b,c): decision = d(a,c) - d(a,b); quadruplets (a,b,c,d): decision = d(c,d) - d(a,b); predict = its sign *)
(* (triplets: a tie predicts -1; quadruplets: a tie predicts 0).  Decided on squares, ties within 2^-30 follow the code. *)
CallTuplesFails(ev) ==
  LET n == Len(ev.tuples)
      k == Len(ev.tuples[1])
      pts == [i \in 1..(k * n) |-> ev.tuples[(i + k - 1) \div k][((i - 1) % k) + 1]]
      S2 == Sq(ScaleOf(ev.L, pts))
      p(i) == DH!SqDist(ev.L, ev.tuples[i][1], ev.tuples[i][2])
      q(i) == IF k = 3 THEN DH!SqDist(ev.L, ev.tuples[i][1], ev.tuples[i][3])
                       ELSE DH!SqDist(ev.L, ev.tuples[i][3], ev.tuples[i][4])
      slack(v) == Add(Shift(v, -2), Shift(S2, -3))
      closer(i)  == Lt(Add(p(i), slack(p(i))), q(i))        \* first pair clearly closer: positive
      farther(i) == Lt(Add(q(i), slack(q(i))), p(i))
      gap(i) == Abs(Sub(q(i), p(i)))
  IN IF ev.method = "predict"
     THEN F("C04.suite_call_tuples_predict",
            Len(ev.out) = n /\ \A i \in 1..n :
               /\ ev.out[i] \in (IF k = 3 THEN {-1, 1} ELSE {-1, 0, 1})
               /\ (closer(i) => ev.out[i] = 1) /\ (farther(i) => ev.out[i] = -1))
     ELSE F("C04.suite_call_tuples_decision",
            Len(ev.out) = n /\ AllFinV(ev.out) /\ \A i \in 1..n :
               /\ (closer(i) => IsPos(ev.out[i])) /\ (farther(i) => IsNeg(ev.out[i]))
               \* |sqrt q - sqrt p|^2 <= |q - p|
               /\ Leq(Sq(ev.out[i]), Add(gap(i), slack(gap(i)))))
(* predict = +1 iff distance <= threshold_, decided on squares; a distance within 2^-30 of the threshold follows the code *)
CallPredictFails(ev) ==
  LET n == Len(ev.pairs)
      t2 == Sq(ev.thr)
      d2(i) == DH!SqDist(ev.L, ev.pairs[i][1], ev.pairs[i][2])
      clearlyIn(i)  == ~IsNeg(ev.thr) /\ Leq(Add(d2(i), Shift(d2(i), -2)), t2)
      clearlyOut(i) == IsNeg(ev.thr) \/ Gt(d2(i), Add(t2, Shift(t2, -2)))
  IN F("C04.suite_call_predict",
       Len(ev.out) = n /\ (IsFin(ev.thr) =>
       \A i \in 1..n : (clearlyIn(i) => ev.out[i] = 1) /\ (clearlyOut(i) => ev.out[i] = -1) /\ ev.out[i] \in {-1, 1}))
=============================================================================
