---------------------------- MODULE TR_Supervised ----------------------------
(***************************************************************************)
(* Trace spec for C08.  One event = one case: (a) the supervised estimator *)
(* fitted on (X, y), with the constraints it drew recorded by wrapping the *)
(* Constraints helper; (b) the helper called directly with the same        *)
(* arguments and seed, and the base learner fitted on the resulting        *)
(* tuples; (c) the supervised estimator fitted on X' that differs from X   *)
(* only in the rows whose label is negative.  TLC decides: same            *)
(* constraints, constraints sound w.r.t. the labels (the predicates of     *)
(* Constraints.tla), no unlabeled index, M(a) ~ M(b), M(c) ~ M(a).         *)
(***************************************************************************)
EXTENDS DyMat, TLC, Json, IOUtils
CN == INSTANCE Constraints
SV == INSTANCE Supervised
Batch  == JsonDeserialize(IOEnv.TRACE_FILE)
Traces == Batch.traces
VARIABLES tid, l, fails, ex
vars == <<tid, l, fails, ex>>
R(f, e) == [fails |-> f, ex |-> e]
G(c, ok) == IF ok THEN {} ELSE {c}

SameMatrix(A, C) == /\ Len(A) = Len(C) /\ Len(A) > 0 /\ AllFinM(A) /\ AllFinM(C)
                    /\ ApproxM(A, C, 2, 2, MaxAbsM(A))

Sound(ev) ==
  CASE ev.gen = "pairs" \/ ev.gen = "quadruplets" ->
         /\ Len(ev.cons_a) = 4
         /\ CN!PairsFailures(ev.y, ev.n, ev.gen = "quadruplets", ev.cons_a[1], ev.cons_a[2], ev.cons_a[3], ev.cons_a[4], TRUE) = {}
    [] ev.gen = "chunks" -> CN!ValidChunks(ev.y, ev.cons_a, ev.n, ev.size)
    [] ev.gen = "knn_triplets" -> CN!KnnFailures(ev.Xint, ev.y, ev.kg, ev.ki, ev.cons_a) = {}

NoUnlabeled(ev) ==
  CASE ev.gen = "pairs" \/ ev.gen = "quadruplets" ->
         \A j \in 1..Len(ev.cons_a) : \A i \in 1..Len(ev.cons_a[j]) : ev.y[ev.cons_a[j][i]] >= 0
    [] ev.gen = "chunks" -> \A i \in 1..Len(ev.cons_a) : ev.cons_a[i] >= 0 => ev.y[i] >= 0
    [] ev.gen = "knn_triplets" -> \A t \in 1..Len(ev.cons_a) : \A j \in 1..3 :
                                    ev.cons_a[t][j] \in 1..Len(ev.y) /\ ev.y[ev.cons_a[t][j]] >= 0

Step(ev) ==
  \* SDML may legitimately fail with RuntimeError when its solver cannot produce an SPD matrix (C13): nothing to compare
  IF ev.exc = "RuntimeError" /\ ev.cls = "SDML_Supervised" THEN R({}, {"X08.sdml_solver_failed"})
  ELSE IF ev.exc # "" THEN R({"C08.fit_returns"}, {"C08.fit_returns"})
  ELSE R(G("C08.generator_of_class", SV!Generator[ev.cls] = ev.gen /\ SV!Base[ev.cls] = ev.base)
         \cup G("C08.same_constraints_as_helper_with_same_seed", ev.cons_a = ev.cons_b)
         \cup G("C08.constraints_respect_labels", Sound(ev))
         \cup G("C08.no_unlabeled_point_in_constraints", NoUnlabeled(ev))
         \cup G("C08.metric_equals_base_learner_on_constraints", SameMatrix(ev.Ma, ev.Mb))
         \cup (IF ev.has_c THEN G("C08.unlabeled_points_do_not_influence_metric", SameMatrix(ev.Mc, ev.Ma)) ELSE {}),
         {"C08.same_constraints_as_helper_with_same_seed", "C08.constraints_respect_labels",
          "C08.no_unlabeled_point_in_constraints", "C08.metric_equals_base_learner_on_constraints"}
         \cup (IF ev.has_c THEN {"C08.unlabeled_points_do_not_influence_metric"} ELSE {}))

Init == tid \in 1..Len(Traces) /\ l = 1 /\ fails = {} /\ ex = {}
Next == /\ l <= Len(Traces[tid].events)
        /\ LET r == Step(Traces[tid].events[l])
           IN  fails' = fails \cup {x \o "@" \o ToString(l) : x \in r.fails} /\ ex' = ex \cup r.ex
        /\ l' = l + 1 /\ UNCHANGED tid
Done   == l = Len(Traces[tid].events) + 1
Report == Done => PrintT(<<"VERDICT", Traces[tid].tid, fails, ex>>)
=============================================================================
