CONSTANTS DMax = 3
 TSet <- TSetDefault
 MaxOps = 4
INIT Init
NEXT Next
INVARIANT PredictUsesCurrentThreshold
INVARIANT MonotoneInDistance
INVARIANT TripletRules
INVARIANT QuadRules
INVARIANT PairRules
INVARIANT AucRules
PROPERTY ThresholdOnlyChangedByThreeActions
CHECK_DEADLOCK FALSE
