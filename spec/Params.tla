------------------------------- MODULE Params -------------------------------
(***************************************************************************)
(* C18: constructor parameters round-trip.  An estimator's parameter store *)
(* is a function from parameter names to VALUE TOKENS (a token stands for  *)
(* one Python object, by identity).  The constructor stores each argument  *)
(* under its own name, untouched; set_params replaces exactly the named    *)
(* entries; get_params returns the stored objects themselves.  Deprecated  *)
(* aliases are ordinary stored parameters whose non-default value must     *)
(* produce a FutureWarning when the estimator is fitted and act as the     *)
(* replacement parameter.                                                  *)
(***************************************************************************)
EXTENDS Integers, Sequences, FiniteSets

(* store after constructing with keyword arguments kw (a function on a subset of names) over defaults *)
Construct(defaults, kw) == [k \in DOMAIN defaults |-> IF k \in DOMAIN kw THEN kw[k] ELSE defaults[k]]
SetParams(store, kw)    == [k \in DOMAIN store |-> IF k \in DOMAIN kw THEN kw[k] ELSE store[k]]
GetParams(store)        == store

(* deprecated alias table: alias -> replacement (the only hand-written part) *)
Aliases == [num_constraints |-> "n_constraints", num_chunks |-> "n_chunks",
            convergence_threshold |-> "tol", k |-> "n_neighbors"]
=============================================================================
