-------------------------------- MODULE TR_SDML --------------------------------
(* Trace spec for C13: one event per real SDML / SDML_Supervised fit with the   *)
(* pair difference vectors, labels, balance_param, sparsity_param, the prior,   *)
(* the outcome (components_ or exception class) and the witnesses of SDML.tla.  *)
EXTENDS SDML, TLC, Json, IOUtils
Batch  == JsonDeserialize(IOEnv.TRACE_FILE)
Traces == Batch.traces
VARIABLES tid, l, fails, ex
vars == <<tid, l, fails, ex>>
R(f, e) == [fails |-> f, ex |-> e]
G(c, ok) == IF ok THEN {} ELSE {c}
IdentM(n) == [i \in 1..n |-> [j \in 1..n |-> IF i = j THEN One ELSE Zero]]

Step(ev) ==
  LET d == Len(ev.M0)
      p0OK == AllFinM(ev.P0) /\ ApproxM(DM!MatMul(ev.M0, ev.P0), IdentM(d), 1, 1, Mul(MaxAbsM(ev.M0), MaxAbsM(ev.P0)))
      E == EmpiricalMatrix(ev.P0, ev.balance, ev.v, ev.y)
      inputPD == ev.has_cholE /\ IsCholesky(ev.cholE, E)
  IN
  \* the prior handed to TLC is the DOCUMENTED one (computed by the harness without the library, verified here)
  IF ~p0OK \/ (ev.prior_kind = "identity" /\ ~IsIdentity(ev.M0))
           \/ (ev.prior_kind = "covariance" /\ ~IsCovariancePriorInverse(ev.P0, ev.pts))
  THEN R({}, {"X13.prior_inverse_witness_rejected"})
  ELSE IF ev.exc # ""
  THEN \* the failure clause: the only admissible failure is RuntimeError; inside the PD region a failure is a violation
       \* (the statement lets fit raise RuntimeError whenever THE SOLVER cannot produce a finite SPD matrix - scikit-learn's
       \*  graphical lasso gives up on some positive definite inputs, seen down to a condition number of 64; such cases are counted, not judged)
       \* ... unless the fit of a SUPERVISED wrapper failed where the base learner, given the documented pairs and labels and
       \* the same hyper-parameters, succeeds: then the wrapper handed the solver another problem
       R(G("C13.failure_is_RuntimeError", ev.exc = "RuntimeError")
         \cup G("C13.supervised_fit_fails_only_where_the_base_learner_on_the_documented_pairs_fails", ~ev.base_solves_documented_problem),
         {"C13.failure_is_RuntimeError"}
         \cup (IF ev.supervised THEN {"C13.supervised_fit_fails_only_where_the_base_learner_on_the_documented_pairs_fails"} ELSE {})
         \cup (IF inputPD THEN {"X13.solver_failed_on_a_positive_definite_input"} ELSE {}))
  ELSE
  LET M == DM!Gram(ev.L) IN
  IF ~(AllFinM(ev.L) /\ IsCholesky(ev.cholM, M))
  THEN R({"C13.returned_matrix_is_finite_SPD"}, {"C13.returned_matrix_is_finite_SPD"})
  ELSE IF ~inputPD THEN R({}, {"C13.returned_matrix_is_finite_SPD", "X13.input_matrix_not_positive_definite"})
  ELSE LET gM == Primal(E, M, ev.alpha, ev.logsM)
           tolGap == Mul(Add(One, Abs(gM)), <<1, -1, <<256>>>>)        \* 2^-7 (1 + |g|)
           \* M is shown NOT to be a minimiser by a verified positive definite matrix with a clearly lower objective value
           refuted == ev.has_star /\ IsCholesky(ev.cholStar, ev.Mstar)
                      /\ Gt(Sub(gM, Primal(E, ev.Mstar, ev.alpha, ev.logsStar)), tolGap)
           \* M is shown to be a minimiser (to within the tolerance) by a verified dual-feasible point (weak duality)
           dualOK == ev.has_W /\ IsCholesky(ev.cholW, ev.W) /\ DualFeasible(ev.W, E, ev.alpha)
           gap == Sub(gM, Dual(ev.W, ev.logsW))
       IN IF refuted /\ ev.solver_gave_up
          \* the solver itself told the user (ConvergenceWarning) that it stopped at its iteration limit short of its tolerance
          THEN R({}, {"C13.returned_matrix_is_finite_SPD", "X13.solver_reported_that_it_did_not_converge"})
          ELSE IF refuted
          THEN R({"C13.objective_within_solver_tolerance_of_optimum"},
                 {"C13.returned_matrix_is_finite_SPD", "C13.objective_within_solver_tolerance_of_optimum"})
          ELSE IF ~dualOK THEN R({}, {"C13.returned_matrix_is_finite_SPD", "X13.no_dual_feasible_witness"})
          ELSE IF Lt(gap, Neg(tolGap)) THEN R({}, {"X13.inconsistent_witnesses_negative_gap"})
          ELSE IF Leq(gap, tolGap)
          THEN R({}, {"C13.returned_matrix_is_finite_SPD", "C13.objective_within_solver_tolerance_of_optimum"})
          \* neither proven optimal (the dual witness may be weak) nor refuted
          ELSE R({}, {"C13.returned_matrix_is_finite_SPD", "X13.gap_not_closed_by_the_witnesses"})

Init == tid \in 1..Len(Traces) /\ l = 1 /\ fails = {} /\ ex = {}
Next == /\ l <= Len(Traces[tid].events)
        /\ LET r == Step(Traces[tid].events[l])
           IN  fails' = fails \cup {x \o "@" \o ToString(l) : x \in r.fails} /\ ex' = ex \cup r.ex
        /\ l' = l + 1 /\ UNCHANGED tid
Done   == l = Len(Traces[tid].events) + 1
Report == Done => PrintT(<<"VERDICT", Traces[tid].tid, fails, ex>>)
=============================================================================
