------------------------------ MODULE TR_ObjLife ------------------------------
(***************************************************************************)
(* Trace spec: histories of estimator objects RECORDED FROM THE            *)
(* REPOSITORY'S OWN TEST SUITE (harness/verif_trace_plugin.py: one event   *)
(* per outermost public call with the projected state before and after)    *)
(* against the per-object machine ObjLife.  One trace = one object.        *)
(* The state variable st is the specification's state; an event whose      *)
(* logged `before` differs from st is preceded by one Env step (the test   *)
(* assigned an attribute / called set_params between two library calls) -  *)
(* at most one per event, so the trace spec stays finite.                  *)
(***************************************************************************)
EXTENDS Integers, Sequences, TLC, Json, IOUtils, Dy
INSTANCE ObjLife WITH NoThr <- Zero
Batch  == JsonDeserialize(IOEnv.TRACE_FILE)
Traces == Batch.traces
VARIABLES tid, l, st, fails, ex
vars == <<tid, l, st, fails, ex>>
Tr == Traces[tid]

F(c, ok) == IF ok THEN {} ELSE {c}
(* logged snapshot -> state of the machine (thr is an exact dyadic; absent threshold -> NoThr) *)
St(o) == [fitted |-> o.fitted, dig |-> o.dig, hasthr |-> o.hasthr, thr |-> IF o.hasthr THEN o.thr ELSE Zero,
          nfeat |-> o.nfeat, par |-> o.par]

R(f, e) == [fails |-> f, ex |-> e]
Step(ev) ==
  LET b == St(ev.before)   a == St(ev.after)   raised == ev.exc # ""
      unf == (F("C18.suite_unfitted_use_raises", UnfittedRaises(b, raised))
              \cup F("X18.suite_unfitted_use_raised_something_else", Unfitted(b) /\ raised => ev.exc = "NotFittedError"))
  IN
  CASE ev.act = "fit" ->
         R(F("C17.suite_fit_leaves_hyper_parameters", FitKeepsParams(b, a))
           \cup F("C03.suite_fit_postcondition", ~raised => FitPost(a, ev.d, Tr.pairs_classifier) /\ ev.ret_self),
           {"C17.suite_fit_leaves_hyper_parameters"} \cup (IF raised THEN {} ELSE {"C03.suite_fit_postcondition"}))
    [] ev.act \in Queries ->
         R(F("C17.suite_query_leaves_state", Silent(b, a)) \cup unf,
           {"C17.suite_query_leaves_state"} \cup (IF Unfitted(b) THEN {"C18.suite_unfitted_use_raises"} ELSE {}))
    [] ev.act = "set_threshold" ->
         R(unf \cup F("G17.failed_threshold_action_leaves_state", raised => Silent(b, a))
               \cup F("C04.suite_set_threshold_stores_value", ~raised /\ ev.hasarg => Stores(b, a, ev.arg)),
           (IF ~raised /\ ev.hasarg THEN {"C04.suite_set_threshold_stores_value"} ELSE {})
           \cup (IF Unfitted(b) THEN {"C18.suite_unfitted_use_raises"} ELSE {}))
    [] ev.act = "calibrate_threshold" ->
         R(unf \cup F("G17.failed_threshold_action_leaves_state", raised => Silent(b, a))
               \cup F("C17.suite_calibration_leaves_model_and_parameters", ~raised => OnlyThreshold(b, a)),
           (IF raised THEN {} ELSE {"C17.suite_calibration_leaves_model_and_parameters"})
           \cup (IF Unfitted(b) THEN {"C18.suite_unfitted_use_raises"} ELSE {}))
    [] OTHER -> R({"TRACE.unknown_action"}, {})

Init == tid \in 1..Len(Traces) /\ l = 1 /\ st = St(Traces[tid].events[1].before) /\ fails = {} /\ ex = {}
Next == /\ l <= Len(Tr.events)
        /\ LET ev == Tr.events[l]
               r == Step(ev)
               env == st # St(ev.before)          \* an Env step of the object's owner precedes this call
           IN  /\ st' = St(ev.after)
               /\ ex' = ex \cup r.ex \cup (IF env THEN {"X17.env_step_between_calls"} ELSE {})
               /\ fails' = fails \cup {c \o "@" \o ToString(l) : c \in r.fails}
        /\ l' = l + 1 /\ UNCHANGED tid
Done   == l = Len(Tr.events) + 1
Report == Done => PrintT(<<"VERDICT", Tr.tid, fails, ex>>)
=============================================================================
