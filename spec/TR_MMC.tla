-------------------------------- MODULE TR_MMC --------------------------------
(***************************************************************************)
(* Trace spec for C14.  One event per real MMC / MMC_Supervised fit: the   *)
(* similar / dissimilar difference vectors, the initial matrix, the        *)
(* learned A_ and components_, and one record per cycle with the kept and  *)
(* candidate matrices the dissimilarity objective was evaluated on         *)
(* (observed by wrapping _fD; square roots are witnessed).  TLC recomputes *)
(* the similarity budget from the initial matrix, decides feasibility and  *)
(* improvement of every candidate itself, replays the cycles through       *)
(* MMC!CycleStep and requires the returned matrix to be the machine's kept *)
(* iterate; plus PSD / budget / diagonal-variant clauses.                  *)
(***************************************************************************)
EXTENDS DyMat, TLC, Json, IOUtils
MM == INSTANCE MMC
Batch  == JsonDeserialize(IOEnv.TRACE_FILE)
Traces == Batch.traces
VARIABLES tid, l, fails, ex
vars == <<tid, l, fails, ex>>
R(f, e) == [fails |-> f, ex |-> e]
G(c, ok) == IF ok THEN {} ELSE {c}

SimSum(S, A) == DM!Sum([i \in 1..Len(S) |-> DM!QuadForm(A, S[i])])          \* sum over similar pairs of v^T A v
(* sum of witnessed square roots of v^T A v over the dissimilar pairs; roots is a sequence of doubles *)
RootsOK(Dv, A, roots) == /\ Len(roots) = Len(Dv)
                         /\ \A i \in 1..Len(Dv) : IsSqrt(roots[i], DM!QuadForm(A, Dv[i]), 2, 3, DM!QuadForm(A, Dv[i]))
SumV(v) == DM!Sum(v)
Hundred == FromInt(100)

FullStep(ev) ==
  LET d  == Len(ev.A0)
      M  == DM!Gram(ev.L)
      t100 == SimSum(ev.S, ev.A0)                         \* 100 t
      \* sum_S v^T A v <= 1.01 t  <=>  10000 * sum <= 101 * (100 t)   (+ 2^-15 relative slack for rounding)
      budgetOK(A) == Leq(Mul(SimSum(ev.S, A), FromInt(10000)), Add(Mul(t100, FromInt(101)), Shift(Mul(t100, FromInt(101)), -1)))
      nC == Len(ev.cycles)
      (* feasibility of a candidate as the code decides it: (w.A - t)/t < 0.01 *)
      \* (clear of the boundary by 2^-30 relative; in between, rounding decides and the code is followed)
      sat(A)   == Lt(Add(Mul(SimSum(ev.S, A), FromInt(10000)), Shift(Mul(t100, FromInt(101)), -2)), Mul(t100, FromInt(101)))
      unsat(A) == Gt(Mul(SimSum(ev.S, A), FromInt(10000)), Add(Mul(t100, FromInt(101)), Shift(Mul(t100, FromInt(101)), -2)))
      rootsAllOK == \A c \in 1..nC : RootsOK(ev.D, ev.cycles[c].kept, ev.cycles[c].kept_roots)
                                     /\ RootsOK(ev.D, ev.cycles[c].cand, ev.cycles[c].cand_roots)
      (* improvement, with an ambiguity window of 2^-30 relative *)
      better(c)  == Gt(SumV(ev.cycles[c].cand_roots), Add(SumV(ev.cycles[c].kept_roots), Shift(SumV(ev.cycles[c].kept_roots), -2)))
      notBetter(c) == Lt(Add(SumV(ev.cycles[c].cand_roots), Shift(SumV(ev.cycles[c].kept_roots), -2)), SumV(ev.cycles[c].kept_roots))
                      \/ SumV(ev.cycles[c].cand_roots) = SumV(ev.cycles[c].kept_roots)
      mustAccept(c) == sat(ev.cycles[c].cand) /\ (c = 1 \/ better(c))
      mustReject(c) == unsat(ev.cycles[c].cand) \/ (c > 1 /\ notBetter(c))
      keptAfter(c) == IF c < nC THEN ev.cycles[c + 1].kept ELSE ev.A
      sameM(A, C) == ApproxM(A, C, 3, 3, MaxAbsM(A))
      schemeOK == \A c \in 1..nC :
                     /\ mustAccept(c) => sameM(keptAfter(c), ev.cycles[c].cand)
                     /\ mustReject(c) => sameM(keptAfter(c), ev.cycles[c].kept)
                     /\ sameM(keptAfter(c), ev.cycles[c].cand) \/ sameM(keptAfter(c), ev.cycles[c].kept)
      \* (the documented initial matrix is computed outside the library: equal up to rounding, 2^-30)
      startsFromInit == nC = 0 \/ ApproxM(ev.cycles[1].kept, ev.A0, 2, 2, MaxAbsM(ev.A0))
  IN
  IF ev.exc # "" THEN R({"C14.full_fit_returns_psd_matrix"}, {"C14.full_fit_returns_psd_matrix"})
  ELSE
  R(G("C14.result_is_psd", AllFinM(ev.L) /\ AllFinM(ev.A) /\ ApproxM(M, ev.A, 2, 2, MaxAbsM(ev.A)))
    \cup G("C14.iterations_start_from_init_option", startsFromInit)
    \cup (IF nC > 0 /\ ev.probes_ok /\ rootsAllOK
          THEN G("C14.result_is_last_feasible_improving_iterate", schemeOK)
               \cup (IF sat(ev.cycles[1].cand)      \* one projection converged (the stated quantifier)
                     THEN G("C14.similarity_budget_respected", budgetOK(ev.A)) ELSE {})
          ELSE {}),
    {"C14.result_is_psd", "C14.iterations_start_from_init_option"}
    \cup (IF nC > 0 /\ ev.probes_ok /\ rootsAllOK THEN {"C14.result_is_last_feasible_improving_iterate"} ELSE {"X14.cycle_probe_or_root_witness_unavailable"})
    \cup (IF nC > 0 /\ ev.probes_ok /\ rootsAllOK /\ sat(ev.cycles[1].cand) THEN {"C14.similarity_budget_respected"} ELSE {}))

DiagStep(ev) ==
  IF ev.exc # "" THEN R(G("C14.diagonal_failure_is_ValueError", ev.exc = "ValueError"), {"C14.diagonal_failure_is_ValueError"})
  ELSE R(G("C14.diagonal_result_has_no_nan", AllFinM(ev.A) /\ AllFinM(ev.L))
         \cup (IF AllFinM(ev.A)
               THEN G("C14.diagonal_result_is_diagonal_nonnegative",
                      \A i \in 1..Len(ev.A) : \A j \in 1..Len(ev.A) :
                         IF i = j THEN ~IsNeg(ev.A[i][j]) ELSE IsZero(ev.A[i][j]))
               ELSE {}),
         {"C14.diagonal_result_has_no_nan", "C14.diagonal_result_is_diagonal_nonnegative"})

(* the init option is a MATRIX: a user array in another memory layout (Fortran-ordered, transposed or strided view) *)
(* holds the same numbers as its plain C-ordered copy, and the iterations start from those numbers                  *)
LayoutFails(ev) ==
  IF "A_c" \in DOMAIN ev /\ ev.exc = ""
  THEN G("C14.array_init_is_the_same_matrix_in_any_memory_layout",
         AllFinM(ev.A_given) /\ ApproxM(ev.A_given, ev.A_c, 2, 2, MaxAbsM(ev.A_c)))
  ELSE {}
Step(ev) == LET r == IF ev.diagonal THEN DiagStep(ev) ELSE FullStep(ev)
            IN R(r.fails \cup LayoutFails(ev),
                 r.ex \cup (IF "A_c" \in DOMAIN ev THEN {"C14.array_init_is_the_same_matrix_in_any_memory_layout"} ELSE {}))
Init == tid \in 1..Len(Traces) /\ l = 1 /\ fails = {} /\ ex = {}
Next == /\ l <= Len(Traces[tid].events)
        /\ LET r == Step(Traces[tid].events[l])
           IN  fails' = fails \cup {x \o "@" \o ToString(l) : x \in r.fails} /\ ex' = ex \cup r.ex
        /\ l' = l + 1 /\ UNCHANGED tid
Done   == l = Len(Traces[tid].events) + 1
Report == Done => PrintT(<<"VERDICT", Traces[tid].tid, fails, ex>>)
=============================================================================
