--------------------------- MODULE TR_MetricLearn ---------------------------
(***************************************************************************)
(* Trace specification: behaviours recorded from the real metric-learn     *)
(* code are replayed against the specification.  One JSON batch holds many *)
(* traces; each trace is a sequence of events (one per public call or      *)
(* solver step) with the projected abstract state.  Step is TOTAL: every   *)
(* event is consumed, failed clause ids accumulate, and one VERDICT line   *)
(* per trace is printed by an always-true reporting invariant, so a trace  *)
(* is still checked after a failed clause.                                 *)
(***************************************************************************)
EXTENDS Integers, Sequences, FiniteSets, TLC, Json, IOUtils, ObsMetric, ObsFit, ObsClassify, ObsCalibrate

Batch  == JsonDeserialize(IOEnv.TRACE_FILE)
Traces == Batch.traces

VARIABLES tid, l, st, fails, ex
vars == <<tid, l, st, fails, ex>>

InitSt == [phase |-> "unfitted", L |-> <<>>, thr |-> Zero]

Res(s, f, e) == [st |-> s, fails |-> f, ex |-> e]

Step(s, ev) ==
  CASE ev.ev = "Model"  -> Res([s EXCEPT !.phase = "fitted", !.L = ev.L,
                                          !.thr = IF "thr" \in DOMAIN ev THEN ev.thr ELSE s.thr], {}, {})
    [] ev.ev = "SetThreshold" ->
         Res([s EXCEPT !.thr = ev.thr_after],
             IF ev.thr_after = ev.arg THEN {} ELSE {"C04.set_threshold_stores_value"},
             {"C04.set_threshold_stores_value"})
    [] ev.ev = "Calibrate" -> Res([s EXCEPT !.thr = ev.thr_after], {}, {})
    [] ev.ev = "CalibrateCase" ->
         Res(IF ev.exc = "" THEN [s EXCEPT !.thr = ev.thr] ELSE s, CalFails(ev), CalEx(ev))
    [] ev.ev = "CalibrateInvalid" -> Res(s, InvalidFails(ev), InvalidEx)
    [] ev.ev = "CallPairs"        -> Res(s, CallPairsFails(ev), {"C02.suite_call_" \o ev.method})
    [] ev.ev = "CallTransform"    -> Res(s, CallTransformFails(ev), {"C02.suite_call_transform"})
    [] ev.ev = "CallMatrix"       -> Res(s, CallMatrixFails(ev), {"C02.suite_call_get_mahalanobis_matrix"})
    [] ev.ev = "CallTuples"       -> Res(s, CallTuplesFails(ev), {IF ev.method = "predict" THEN "C04.suite_call_tuples_predict"
                                                                  ELSE "C04.suite_call_tuples_decision"})
    [] ev.ev = "CallPredictPairs" -> Res(s, CallPredictFails(ev), {"C04.suite_call_predict"})
    [] ev.ev = "PredictPairs"    -> Res(s, PairsFails(s.thr, ev) \cup DesignatedFails(s.L, ev),
                                        PairsEx(ev) \cup (IF "pts" \in DOMAIN ev THEN {"C04.pairs_distance_is_of_designated_points"} ELSE {}))
    [] ev.ev = "PredictTriplets" -> Res(s, TripletsFails(ev), TripletsEx)
    [] ev.ev = "PredictQuads"    -> Res(s, QuadsFails(ev), QuadsEx)
    [] ev.ev = "Triple" -> Res(s, TripleFails(s.L, ev), TripleEx)
    [] ev.ev = "Views"  -> Res(s, ViewsFails(s.L, ev), ViewsEx(ev))
    [] ev.ev = "Fit"    -> Res(IF ev.exc = "" THEN [s EXCEPT !.phase = "fitted", !.L = ev.L] ELSE s,
                               FitFails(ev), FitEx)
    \* an operation that the property requires to succeed (named by the driver) raised instead: the history ends here
    [] ev.ev = "Raised" -> Res(s, {ev.clause}, {ev.clause})
    [] OTHER            -> Res(s, {"TRACE.unknown_event"}, {})

Init == /\ tid \in 1..Len(Traces)
        /\ l = 1 /\ st = InitSt /\ fails = {} /\ ex = {}

Next == /\ l <= Len(Traces[tid].events)
        /\ LET r == Step(st, Traces[tid].events[l])
           IN  st' = r.st /\ ex' = ex \cup r.ex
               /\ fails' = fails \cup {c \o "@" \o ToString(l) : c \in r.fails}
        /\ l' = l + 1
        /\ UNCHANGED tid

Done   == l = Len(Traces[tid].events) + 1
Report == Done => PrintT(<<"VERDICT", Traces[tid].tid, fails, ex>>)
=============================================================================
