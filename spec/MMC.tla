--------------------------------- MODULE MMC ---------------------------------
(***************************************************************************)
(* C14: MMC's projected-gradient scheme as a state machine over abstract   *)
(* iterates.  Each cycle produces a candidate (the current matrix after    *)
(* the alternating projections) with two attributes: sat (the projections  *)
(* reached relative violation < 0.01 of the similarity budget) and obj     *)
(* (the dissimilar-pair objective).  The candidate is ACCEPTED iff         *)
(*     sat /\ (obj > obj(kept) \/ it is the first cycle)                   *)
(* and then becomes the kept iterate; otherwise the step is halved and the *)
(* next candidate restarts from the kept iterate.  fit returns the kept     *)
(* iterate at exit.                                                        *)
(***************************************************************************)
EXTENDS Integers, Sequences, FiniteSets

Accept(cycle, sat, objCand, objKept) == sat /\ (objCand > objKept \/ cycle = 0)

(* kept: record [id, sat, obj]; cand likewise; returns the kept iterate after the cycle *)
CycleStep(cycle, kept, cand) == IF Accept(cycle, cand.sat, cand.obj, kept.obj) THEN cand ELSE kept
=============================================================================
