------------------------------ MODULE Geometry ------------------------------
(***************************************************************************)
(* C19: the learned distance depends on the data only through its          *)
(* geometry.  Dataset transformations and the relation they must induce on *)
(* the learned distances / matrix, over a parameterised ordered ring.      *)
(***************************************************************************)
EXTENDS Integers, Sequences, FiniteSets
CONSTANTS Zero, Add(_, _), Mul(_, _), Sub(_, _), Leq(_, _)
GM == INSTANCE Mat

Translate(X, t)  == [i \in 1..Len(X) |-> GM!VAdd(X[i], t)]
Scale(X, c)      == [i \in 1..Len(X) |-> GM!VScale(c, X[i])]
Permute(X, p)    == [i \in 1..Len(X) |-> X[p[i]]]
MapPoints(X, Q)  == [i \in 1..Len(X) |-> GM!MatVec(Q, X[i])]          \* x |-> Q x
(* tuples: sequences of points *)
TranslateTuples(T, t) == [i \in 1..Len(T) |-> Translate(T[i], t)]
SwapPair(p)      == <<p[2], p[1]>>
SwapQuad(q)      == <<q[2], q[1], q[4], q[3]>>

(* what tuple learners may look at: within-tuple differences *)
PairDiff(p)      == GM!VSub(p[1], p[2])
(* the only statistic the pair objectives use: the outer product of the difference (sign-free) *)
PairStat(p)      == GM!Outer(PairDiff(p), PairDiff(p))

(* n * (scatter matrix) = n * sum x x^T - (sum x)(sum x)^T  (= n (n-1) * sample covariance), exact *)
ColSum(X, j)     == GM!Sum([i \in 1..Len(X) |-> X[i][j]])
ScatterN(X) ==
  LET n == Len(X)  d == Len(X[1])
  IN [a \in 1..d |-> [b \in 1..d |->
        Sub(GM!Sum([i \in 1..n |-> Mul(Mul(X[i][a], X[i][b]), n)]), Mul(ColSum(X, a), ColSum(X, b)))]]

(* relation required on the learned matrix under x |-> Q x :  M' = Q M Q^T *)
Conjugate(M, Q)  == GM!MatMul(GM!MatMul(Q, M), GM!Transpose(Q))
IsOrthogonal(Q, one) == GM!MatMul(Q, GM!Transpose(Q)) = GM!Ident(Len(Q), one)
=============================================================================
