--------------------------------- MODULE PSD ---------------------------------
(***************************************************************************)
(* C20: PSD matrices are converted, validated and initialised as           *)
(* documented.  Over a parameterised ordered ring (integers in MC_PSD,     *)
(* exact dyadics on recorded behaviours).                                  *)
(*                                                                         *)
(* A symmetric test matrix comes with an EXACT spectral certificate:       *)
(* an integer matrix Vs with Vs Vs^T = s2 * I (a scaled orthogonal matrix: *)
(* signed permutations and Pythagorean Givens rotations) and a spectrum w; *)
(* the matrix is M = Vs diag(w) Vs^T, whose eigenvalues are s2 * w.        *)
(* From the spectrum and the tolerance the documented outcome of           *)
(* components_from_metric follows: an eigenvalue below -tol => NonPSDError,*)
(* otherwise L with L^T L = M (up to tol); non-symmetric => ValueError.    *)
(***************************************************************************)
EXTENDS Integers, Sequences, FiniteSets
CONSTANTS Zero, Add(_, _), Mul(_, _), Sub(_, _), Leq(_, _)
PM == INSTANCE Mat

Diag(w) == [i \in 1..Len(w) |-> [j \in 1..Len(w) |-> IF i = j THEN w[i] ELSE Zero]]
(* M = Vs diag(w) Vs^T *)
Reconstruct(Vs, w) == PM!MatMul(PM!MatMul(Vs, Diag(w)), PM!Transpose(Vs))
(* Vs Vs^T = s2 I *)
IsScaledOrthogonal(Vs, s2) ==
  LET G == PM!MatMul(Vs, PM!Transpose(Vs)) IN
  \A i \in 1..Len(Vs) : \A j \in 1..Len(Vs) : G[i][j] = (IF i = j THEN s2 ELSE Zero)

Lt(a, b) == Leq(a, b) /\ a # b
RECURSIVE MinSeq(_, _)
MinSeq(w, i) == IF i = Len(w) THEN w[i] ELSE LET m == MinSeq(w, i + 1) IN IF Leq(w[i], m) THEN w[i] ELSE m
MinOf(w) == MinSeq(w, 1)

(* the documented outcome, given the exact eigenvalues ev (a sequence) and the tolerance tol >= 0.   *)
(* "reject" when some eigenvalue is clearly below -tol, "accept" when all are clearly above it; the  *)
(* band within a factor 4 of the tolerance is "unspecified" (rounding decides) and is not generated.  *)
Four(x) == Add(Add(x, x), Add(x, x))
SpectrumVerdict(ev, tol) ==
  LET m == MinOf(ev) IN
  IF Lt(Four(m), Sub(Zero, tol)) /\ Lt(m, Sub(Zero, Four(tol))) THEN "reject"      \* m < -4 tol
  ELSE IF Leq(Sub(Zero, tol), Four(m)) THEN "accept"                                \* m >= -tol/4
  ELSE "unspecified"
=============================================================================
