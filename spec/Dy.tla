------------------------------- MODULE Dy -------------------------------
(***************************************************************************)
(* Exact dyadic rationals for TLC.                                         *)
(*                                                                         *)
(* A value is <<s, e, m>> and denotes  s * (SUM_i m[i] * B^(i-1)) * B^e    *)
(* with B = 2^15, s \in {-1,0,1}, e \in Int, m a little-endian sequence of *)
(* limbs in 0..B-1.  TLC integers are 32-bit Java ints and TLC raises on   *)
(* overflow; a product of two limbs plus a carry stays below 2^31, so all  *)
(* arithmetic below is exact.  Every IEEE-754 double is exactly            *)
(* representable (the exporter harness/num.py does the conversion and does *)
(* no judging).  Values are kept NORMALISED (no zero limb at either end,   *)
(* zero = <<0,0,<<>>>>), so structural equality is numeric equality.       *)
(* There is no division: quotients, roots, inverses enter a trace as       *)
(* untrusted witnesses that TLC checks by multiplication.                  *)
(***************************************************************************)
EXTENDS Integers, Sequences

B == 32768

Zero == <<0, 0, <<>>>>
One  == <<1, 0, <<1>>>>

Sgn(a) == a[1]
Ex(a)  == a[2]
Mag(a) == a[3]

IsDy(a) == /\ a[1] \in {-1, 0, 1}
           /\ a[2] \in Int
           /\ \A i \in 1..Len(a[3]) : a[3][i] \in 0..(B-1)
           /\ (a[1] = 0) <=> (a[3] = <<>>)
           /\ a[3] # <<>> => (a[3][1] # 0 /\ a[3][Len(a[3])] # 0)
           /\ a[1] = 0 => a[2] = 0

--------------------------------------------------------------------------
(* magnitudes: little-endian limb sequences, possibly with high zeros *)

RECURSIVE StripHi(_)
StripHi(m) == IF m = <<>> THEN m
              ELSE IF m[Len(m)] = 0 THEN StripHi(SubSeq(m, 1, Len(m) - 1))
              ELSE m

RECURSIVE LowZeros(_, _)
LowZeros(m, i) == IF i > Len(m) THEN 0
                  ELSE IF m[i] = 0 THEN 1 + LowZeros(m, i + 1) ELSE 0

Zeros(n) == [i \in 1..n |-> 0]

Limb(m, i) == IF i >= 1 /\ i <= Len(m) THEN m[i] ELSE 0

RECURSIVE MagAddC(_, _, _, _)
MagAddC(a, b, i, c) ==
  IF i > Len(a) /\ i > Len(b)
  THEN (IF c = 0 THEN <<>> ELSE <<c>>)
  ELSE LET s == Limb(a, i) + Limb(b, i) + c
       IN  <<s % B>> \o MagAddC(a, b, i + 1, s \div B)

MagAdd(a, b) == MagAddC(a, b, 1, 0)

(* a - b for magnitudes with a >= b *)
RECURSIVE MagSubC(_, _, _, _)
MagSubC(a, b, i, br) ==
  IF i > Len(a) THEN <<>>
  ELSE LET s == a[i] - Limb(b, i) - br
       IN  IF s < 0 THEN <<s + B>> \o MagSubC(a, b, i + 1, 1)
                    ELSE <<s>> \o MagSubC(a, b, i + 1, 0)

MagSub(a, b) == MagSubC(a, b, 1, 0)

(* compare stripped magnitudes: -1, 0, 1 *)
RECURSIVE MagCmpFrom(_, _, _)
MagCmpFrom(a, b, i) ==
  IF i = 0 THEN 0
  ELSE IF a[i] < b[i] THEN -1
  ELSE IF a[i] > b[i] THEN 1
  ELSE MagCmpFrom(a, b, i - 1)

MagCmp(a0, b0) ==
  LET a == StripHi(a0)  b == StripHi(b0)
  IN  IF Len(a) < Len(b) THEN -1
      ELSE IF Len(a) > Len(b) THEN 1
      ELSE MagCmpFrom(a, b, Len(a))

RECURSIVE MulLimbC(_, _, _, _)
MulLimbC(b, x, i, c) ==
  IF i > Len(b) THEN (IF c = 0 THEN <<>> ELSE <<c>>)
  ELSE LET s == b[i] * x + c
       IN  <<s % B>> \o MulLimbC(b, x, i + 1, s \div B)

RECURSIVE MagMulFrom(_, _, _)
MagMulFrom(a, b, i) ==
  IF i > Len(a) THEN <<>>
  ELSE IF a[i] = 0 THEN MagMulFrom(a, b, i + 1)
  ELSE MagAdd(Zeros(i - 1) \o MulLimbC(b, a[i], 1, 0), MagMulFrom(a, b, i + 1))

MagMul(a, b) == IF Len(a) <= Len(b) THEN MagMulFrom(a, b, 1) ELSE MagMulFrom(b, a, 1)

--------------------------------------------------------------------------
Norm(s, e, m0) ==
  LET m == StripHi(m0)
  IN  IF m = <<>> \/ s = 0 THEN Zero
      ELSE LET z == LowZeros(m, 1)
           IN  <<s, e + z, SubSeq(m, z + 1, Len(m))>>

Neg(a) == <<-a[1], a[2], a[3]>>
Abs(a) == <<(IF a[1] = 0 THEN 0 ELSE 1), a[2], a[3]>>

(* magnitude of a re-expressed at exponent e <= a[2] *)
MagAt(a, e) == Zeros(a[2] - e) \o a[3]

Add(a, b) ==
  IF a[1] = 0 THEN b
  ELSE IF b[1] = 0 THEN a
  ELSE LET e  == IF a[2] < b[2] THEN a[2] ELSE b[2]
           ma == MagAt(a, e)
           mb == MagAt(b, e)
       IN  IF a[1] = b[1] THEN Norm(a[1], e, MagAdd(ma, mb))
           ELSE LET c == MagCmp(ma, mb)
                IN  IF c = 0 THEN Zero
                    ELSE IF c > 0 THEN Norm(a[1], e, MagSub(ma, mb))
                    ELSE Norm(b[1], e, MagSub(mb, ma))

Sub(a, b) == Add(a, Neg(b))

Mul(a, b) ==
  IF a[1] = 0 \/ b[1] = 0 THEN Zero
  ELSE Norm(a[1] * b[1], a[2] + b[2], MagMul(a[3], b[3]))

Sq(a) == Mul(a, a)

(* comparisons; the fast paths avoid a subtraction when signs or sizes decide *)
Top(a) == a[2] + Len(a[3])          \* B^(Top-1) <= |a| < B^Top for a # 0

Cmp(a, b) ==
  IF a[1] # b[1] THEN (IF a[1] < b[1] THEN -1 ELSE 1)
  ELSE IF a[1] = 0 THEN 0
  ELSE IF Top(a) # Top(b) THEN (IF Top(a) < Top(b) THEN -a[1] ELSE a[1])
  ELSE Sub(a, b)[1]

Lt(a, b)  == Cmp(a, b) < 0
Leq(a, b) == Cmp(a, b) <= 0
Gt(a, b)  == Cmp(a, b) > 0
Geq(a, b) == Cmp(a, b) >= 0
Eq(a, b)  == a = b
IsZero(a) == a[1] = 0
IsNeg(a)  == a[1] < 0
IsPos(a)  == a[1] > 0
Max(a, b) == IF Lt(a, b) THEN b ELSE a
Min(a, b) == IF Lt(a, b) THEN a ELSE b

(* a * B^k : exact exponent shift (k may be negative) *)
Shift(a, k) == IF a[1] = 0 THEN Zero ELSE <<a[1], a[2] + k, a[3]>>

(* small integers, |n| < 2^31 *)
RECURSIVE NatLimbs(_)
NatLimbs(n) == IF n = 0 THEN <<>> ELSE <<n % B>> \o NatLimbs(n \div B)

FromInt(n) == IF n = 0 THEN Zero
              ELSE IF n > 0 THEN Norm(1, 0, NatLimbs(n))
              ELSE Norm(-1, 0, NatLimbs(-n))

(* Truncate towards zero to the k most significant limbs (k >= 1):         *)
(* |a - Trunc(a,k)| < B^(Top(a)-k) <= |a| * B^(1-k).                      *)
Trunc(a, k) ==
  IF Len(a[3]) <= k THEN a
  ELSE LET d == Len(a[3]) - k
       IN  Norm(a[1], a[2] + d, SubSeq(a[3], d + 1, Len(a[3])))

(* |a - b| <= tol *)
Within(a, b, tol) == Leq(Abs(Sub(a, b)), tol)

(* |a - b| <= B^(-k) * scale   (scale >= 0) *)
Close(a, b, k, scale) == Leq(Abs(Sub(a, b)), Shift(scale, -k))

(* relative closeness: |a-b| <= B^(-k) * max(|a|,|b|) *)
RelClose(a, b, k) == Close(a, b, k, Max(Abs(a), Abs(b)))

(* A fraction num/den equal to n/d (d > 0).  The reference definition returns the pair unchanged; the Java *)
(* accelerator returns the fraction reduced by gcd (the same rational, a smaller representation) - users  *)
(* must compare fractions by cross-multiplication only.                                                    *)
RatNorm(n, d) == <<n, d>>

(* value of a small Dy as an Int (only for tests; requires it to fit) *)
RECURSIVE MagToInt(_, _)
MagToInt(m, i) == IF i > Len(m) THEN 0 ELSE m[i] + B * MagToInt(m, i + 1)
ToInt(a) == IF a[1] = 0 THEN 0 ELSE a[1] * MagToInt(MagAt(a, 0), 1)
=============================================================================
