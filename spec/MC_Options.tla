------------------------------ MODULE MC_Options ------------------------------
(* Enumerates the documented option product as STATES (one initial state   *)
(* per configuration); `tlc -dump` writes them out and each becomes real   *)
(* fits of /repo (spec -> code).  Invariants are sanity of the option      *)
(* table itself.                                                           *)
EXTENDS Options, TLC
CONSTANTS DMin, DMax
VARIABLE cfg
Init == cfg \in AllConfigs(DMin..DMax, {2, 3})
Next == UNCHANGED cfg
KInRange    == ExpectedK(cfg) \in 1..cfg.d
LdaRule     == (cfg.cls \in TransformInit /\ cfg.opt = "lda") => ExpectedK(cfg) < cfg.ncls
TypeOK      == cfg.cls \in Estimators /\ cfg.opt \in OptDomain(cfg.cls)
AutoTotal   == AutoSelect(TRUE, cfg.d, 4 * cfg.d, ExpectedK(cfg), cfg.ncls) \in {"lda", "pca", "identity"}
(* the auto rule picks lda exactly when lda is a documented choice for that configuration *)
AutoLdaOK   == (AutoSelect(TRUE, cfg.d, 4 * cfg.d, ExpectedK(cfg), cfg.ncls) = "lda") <=> (ExpectedK(cfg) <= cfg.ncls - 1)
=============================================================================
