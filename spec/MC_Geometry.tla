----------------------------- MODULE MC_Geometry -----------------------------
(***************************************************************************)
(* The DEFINITIONS are geometric, exhaustively on integer grids (d = 2):   *)
(* the scatter matrix (hence Covariance's and RCA's metric) is invariant   *)
(* under translation and sample permutation, conjugated by orthogonal maps *)
(* and scaled by c^2 under scaling; the statistic of a pair that the tuple *)
(* objectives use is invariant under translation and within-pair swap.     *)
(***************************************************************************)
EXTENDS Integers, Sequences, FiniteSets, TLC
CONSTANTS P, N
IAdd(a, b) == a + b
IMul(a, b) == a * b
ISub(a, b) == a - b
ILeq(a, b) == a <= b
GE == INSTANCE Geometry WITH Zero <- 0, Add <- IAdd, Mul <- IMul, Sub <- ISub, Leq <- ILeq
MI == INSTANCE Mat WITH Zero <- 0, Add <- IAdd, Mul <- IMul, Sub <- ISub, Leq <- ILeq
Pts == [1..2 -> -P..P]
VARIABLES X, t, step
Qs == { <<<<0, -1>>, <<1, 0>>>>, <<<<0, 1>>, <<1, 0>>>>, <<<<-1, 0>>, <<0, 1>>>>, <<<<1, 0>>, <<0, 1>>>> }
Init == X \in [1..N -> Pts] /\ t = <<0, 0>> /\ step = 0
Next == step = 0 /\ step' = 1 /\ t' \in Pts /\ UNCHANGED X
(* ScatterN with n as a ring element: here n is the integer N *)
Sc(Y) == [a \in 1..2 |-> [b \in 1..2 |->
           N * MI!Sum([i \in 1..N |-> Y[i][a] * Y[i][b]]) - GE!ColSum(Y, a) * GE!ColSum(Y, b)]]
TranslationInvariant == Sc(GE!Translate(X, t)) = Sc(X)
PermutationInvariant == Sc(GE!Permute(X, [i \in 1..N |-> N + 1 - i])) = Sc(X)
ScalingRule          == \A c \in 1..3 : Sc(GE!Scale(X, c)) = MI!MScale(c * c, Sc(X))
OrthogonalRule       == \A Q \in Qs : GE!IsOrthogonal(Q, 1) /\ Sc(GE!MapPoints(X, Q)) = GE!Conjugate(Sc(X), Q)
PairStatInvariant    == LET p == <<X[1], X[2]>> IN
                          /\ GE!PairStat(GE!Translate(p, t)) = GE!PairStat(p)
                          /\ GE!PairStat(GE!SwapPair(p)) = GE!PairStat(p)
=============================================================================
