------------------------------- MODULE ObjLife -------------------------------
(***************************************************************************)
(* The abstract state of ONE estimator object as the library's public      *)
(* methods may change it - the projection logged by the pytest tracing     *)
(* plugin for every outermost public call of the repository's own tests:   *)
(*   fitted  components_ present                                           *)
(*   dig     digest of components_ (0 when absent)                         *)
(*   hasthr  threshold_ present;  thr  its value (NoThr when absent)       *)
(*   nfeat   n_features_in_ (-1 when absent)                               *)
(*   par     digest of get_params() (object identities + array contents)   *)
(* Each public method is one action, written as a relation between the     *)
(* state before (s) and after (t) the call; whoever owns the object (a     *)
(* test, a user) may also change it between calls - the Env action.        *)
(* MetricLearn.tla is the same machine with INTERPRETED terms (the model   *)
(* is a function of parameters and data); here the terms are opaque        *)
(* digests, so that executions on data the specification never saw - the   *)
(* repository's test suite - can be validated against it.                  *)
(***************************************************************************)
EXTENDS Integers
(* Apalache type annotations ($thr is the type of a threshold value: Int in MC/Apalache models, a Dy tuple in traces) *)
\* @typeAlias: thr = Int;
\* @typeAlias: state = { fitted: Bool, dig: Int, hasthr: Bool, thr: $thr, nfeat: Int, par: Int };
ObjLife_aliases == TRUE
CONSTANT
  \* @type: $thr;
  NoThr        \* placeholder value of thr while no threshold_ exists (strings and numbers do not compare in TLC)

Queries == {"predict", "decision_function", "score", "transform", "pair_distance", "pair_score",
            "score_pairs", "get_metric", "get_mahalanobis_matrix"}

\* @type: ($state) => Bool;
Unfitted(s) == ~s.fitted

(* ---- the conjuncts of the actions, named so that a trace verdict can say which one an observed step broke ---- *)
\* @type: ($state, $state) => Bool;
FitKeepsParams(s, t)   == t.par = s.par
\* @type: ($state, Int, Bool) => Bool;
FitPost(t, d, isPairs) == /\ t.fitted /\ t.dig # 0
                          /\ (d # -1 => t.nfeat = d)
                          /\ (isPairs => t.hasthr)
\* @type: ($state, $state) => Bool;
Silent(s, t)           == t = s
\* @type: ($state, Bool) => Bool;
UnfittedRaises(s, raised) == Unfitted(s) => raised
\* @type: ($state, $state, $thr) => Bool;
Stores(s, t, v)        == t = [s EXCEPT !.hasthr = TRUE, !.thr = v]
\* @type: ($state, $state) => Bool;
OnlyThreshold(s, t)    == t.hasthr /\ [t EXCEPT !.thr = s.thr, !.hasthr = s.hasthr] = s

(* fit(data with d features): on success the object is fitted, n_features_in_ is d, a pairs classifier has a       *)
(* threshold; the hyper-parameters are those it had before (success or not).  A failing fit promises nothing else. *)
\* @type: ($state, $state, Int, Bool, Bool) => Bool;
Fit(s, t, d, ok, isPairs) == FitKeepsParams(s, t) /\ (ok => FitPost(t, d, isPairs))

(* a query never changes anything; on an unfitted object it raises *)
\* @type: ($state, $state, Bool) => Bool;
Query(s, t, raised) == Silent(s, t) /\ UnfittedRaises(s, raised)

(* set_threshold(v) stores v and nothing else; on an unfitted object it raises and stores nothing *)
\* @type: ($state, $state, $thr, Bool) => Bool;
SetThreshold(s, t, v, raised) == UnfittedRaises(s, raised) /\ (raised => Silent(s, t)) /\ (~raised => Stores(s, t, v))

(* calibrate_threshold picks a threshold; model, parameters and n_features_in_ are untouched; invalid arguments or an *)
(* unfitted object raise with nothing stored                                                                          *)
\* @type: ($state, $state, Bool) => Bool;
Calibrate(s, t, raised) == UnfittedRaises(s, raised) /\ (raised => Silent(s, t)) /\ (~raised => OnlyThreshold(s, t))

(* the owner of the object assigns attributes / calls set_params: anything *)
\* @type: ($state, $state) => Bool;
Env(s, t) == TRUE

\* @type: (Int) => $state;
Fresh(p) == [fitted |-> FALSE, dig |-> 0, hasthr |-> FALSE, thr |-> NoThr, nfeat |-> -1, par |-> p]

(* what the library's actions preserve (checked by TLC on MC_ObjLife, Env excluded) *)
\* @type: ($state) => Bool;
WellFormed(s) == /\ (s.hasthr => s.fitted) /\ (~s.hasthr => s.thr = NoThr) /\ (s.nfeat # -1 => s.fitted) /\ (s.fitted <=> s.dig # 0)
=============================================================================
