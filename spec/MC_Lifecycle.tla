----------------------------- MODULE MC_Lifecycle -----------------------------
EXTENDS MetricLearn
CONSTANTS Depth
DimOf(d) == d + 1        \* data set 1 has 2 features, data set 2 has 3 features
CanonOf(p) == IF p = 3 THEN 1 ELSE p      \* setting 3 = setting 1 with verbose=True
BoundedDepth == TLCGet("level") <= Depth
View == <<objs, handles>>
=============================================================================
