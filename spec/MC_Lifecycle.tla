----------------------------- MODULE MC_Lifecycle -----------------------------
EXTENDS MetricLearn
CONSTANTS Depth
DimOf(d) == d + 1        \* data set 1 has 2 features, data set 2 has 3 features
CanonOf(p) == IF p = 3 THEN 1 ELSE p      \* setting 3 = setting 1 with verbose=True
BoundedDepth == TLCGet("level") <= Depth

(***************************************************************************)
(* REFINEMENT: projected on any one object, every step of this machine is  *)
(* a step of the per-object machine ObjLife (the abstraction with opaque   *)
(* terms that the repository's own test-suite executions are validated     *)
(* against).  Terms are mapped to integers (digests are opaque there).     *)
(***************************************************************************)
OL == INSTANCE ObjLife WITH NoThr <- 0
DigOf(m) == IF m = NoModel THEN 0 ELSE 1 + 10 * m[1] + m[2]
ThrCode(t) == CASE t = NoThr -> 0
                [] t[1] = "fit" -> 1000 + 10 * t[2] + t[3]
                [] t[1] = "set" -> 2000 + t[2]
                [] OTHER -> 3000 + 1000 * t[2] + 100 * t[3] + 10 * t[4] + t[5] + 10000 * t[6]
Proj(x) == [fitted |-> x.model # NoModel, dig |-> DigOf(x.model), hasthr |-> x.thr # NoThr, thr |-> ThrCode(x.thr),
            nfeat |-> IF x.nfeat = 0 THEN -1 ELSE x.nfeat, par |-> x.params]
ObjStep(o) ==
  LET a == Proj(objs[o])  b == Proj(objs'[o])  k == last'[1] IN
  IF Len(last') >= 2 /\ k \in {"Fit", "FitTransform"} /\ last'[2] = o
  THEN OL!Fit(a, b, Dim(last'[3]), TRUE, HasThreshold)
  ELSE IF k = "SetThreshold" /\ last'[2] = o THEN OL!SetThreshold(a, b, b.thr, FALSE)
  ELSE IF k = "Calibrate" /\ last'[2] = o THEN OL!Calibrate(a, b, FALSE)
  ELSE IF k = "SetParams" /\ last'[2] = o THEN OL!Env(a, b)          \* the owner of the object changes its parameters
  ELSE IF k = "NotFitted" /\ last'[2] = o THEN OL!Query(a, b, TRUE) /\ OL!Unfitted(a)
  ELSE OL!Silent(a, b)                                                  \* queries, model selection, other objects' steps
RefinesObjLife == [][\A o \in Live : ObjStep(o)]_vars
View == <<objs, handles>>
=============================================================================
