------------------------------- MODULE GradObj -------------------------------
(***************************************************************************)
(* C10: the documented objectives of NCA, MLKR and LMNN and their analytic *)
(* derivatives, over exact dyadics.                                        *)
(*                                                                         *)
(* Soft-max neighbour probabilities P_ij (i # j) proportional to           *)
(* exp(-||L(x_i - x_j)||^2), P_ii = 0, enter as a WITNESS matrix that TLC  *)
(* verifies: for every row i the harness gives the shifted arguments       *)
(* a_ik = s_ik - min_k s_ik (TLC recomputes s exactly and checks a), the    *)
(* tabulated e_ik = exp(-a_ik) (libm; TLC checks range, e = 1 at a = 0 and *)
(* monotonicity) and the normaliser Z_i with Z_i = SUM_k e_ik and           *)
(* P_ik Z_i = e_ik.                                                         *)
(*   NCA :  f(L) = SUM_i SUM_{j # i, y_j = y_i} P_ij           (maximised) *)
(*   MLKR:  c(L) = SUM_i (yhat_i - y_i)^2,  yhat_i = SUM_j P_ij y_j        *)
(*   LMNN:  o(L) = reg * SUM_i SUM_{j in T(i)} d_ij                        *)
(*               + (1 - reg) * SUM_i SUM_{j in T(i)} SUM_{l: y_l # y_i}    *)
(*                     [1 + d_ij - d_il]_+ ,   d_ab = ||L(x_a - x_b)||^2,  *)
(*          T(i) = the k nearest same-class points of i in the INPUT space *)
(***************************************************************************)
EXTENDS DyMat, FiniteSets

SqD(L, X, i, j) == DH!SqDist(L, X[i], X[j])
Diff(X, i, j)   == DM!VSub(X[i], X[j])
COuter(X, i, j) == LET v == Diff(X, i, j) IN DM!Outer(v, v)

SumMatSeq(f, i, d) == DM!SumMats(f, i, d)           \* (Mat.tla: evaluated eagerly)
RECURSIVE MinSeqDy(_, _)
MinSeqDy(v, i) == IF i = Len(v) THEN v[i] ELSE Min(v[i], MinSeqDy(v, i + 1))

(* ---- soft-max witness ---- *)
SoftmaxWitnessOK(L, X, P, a, e, Z) ==
  LET n == Len(X) IN
  \A i \in 1..n :
     LET others == [k \in 1..(n - 1) |-> IF k < i THEN k ELSE k + 1]
         s  == [k \in 1..n |-> IF k = i THEN Zero ELSE SqD(L, X, i, k)]
         m  == MinSeqDy([t \in 1..(n - 1) |-> s[others[t]]], 1)
     IN /\ IsZero(P[i][i])
        /\ \A k \in 1..n : k # i =>
              /\ Approx(a[i][k], Sub(s[k], m), 2, 2, Add(s[k], One))
              \* (exp underflows to 0 in double precision beyond ~745: a tabulated 0 is accepted for arguments >= 700)
              /\ (IsPos(e[i][k]) \/ (IsZero(e[i][k]) /\ Geq(a[i][k], FromInt(700)))) /\ Leq(e[i][k], One) /\ (IsZero(a[i][k]) => e[i][k] = One)
              /\ \A k2 \in 1..n : (k2 # i /\ Lt(a[i][k], a[i][k2])) => Leq(e[i][k2], e[i][k])
              /\ Approx(Mul(P[i][k], Z[i]), e[i][k], 2, 3, One)
        /\ Approx(Z[i], DM!Sum([t \in 1..(n - 1) |-> e[i][others[t]]]), 2, 2, Z[i])

(* ---- NCA ---- *)
SameClass(y, i) == {j \in 1..Len(y) : j # i /\ y[j] = y[i]}
RowMass(P, y, i) == DM!Sum([j \in 1..Len(y) |-> IF j # i /\ y[j] = y[i] THEN P[i][j] ELSE Zero])
NCAValue(P, y) == DM!Sum([i \in 1..Len(y) |-> RowMass(P, y, i)])
(* d f / d L = 2 L SUM_i ( p_i SUM_k P_ik C_ik - SUM_{j in C_i} P_ij C_ij ) *)
NCAGrad(L, X, P, y) ==
  LET n == Len(X)  d == Len(X[1])
      inner(i) == SumMatSeq([k \in 1..n |->
                    IF k = i THEN DM!ZeroMat(d, d)
                    ELSE DM!MScale(Sub(Mul(RowMass(P, y, i), P[i][k]), IF y[k] = y[i] THEN P[i][k] ELSE Zero), COuter(X, i, k))], 1, d)
      S == SumMatSeq([i \in 1..n |-> inner(i)], 1, d)
  IN DM!MScale(FromInt(2), DM!MatMul(L, S))

(* ---- MLKR ---- *)
YHat(P, y, i) == DM!Sum([j \in 1..Len(y) |-> Mul(P[i][j], y[j])])
MLKRValue(P, y) == DM!Sum([i \in 1..Len(y) |-> Sq(Sub(YHat(P, y, i), y[i]))])
(* d c / d L = 4 L SUM_ij (yhat_i - y_i)(yhat_i - y_j) P_ij C_ij *)
MLKRGrad(L, X, P, y) ==
  LET n == Len(X)  d == Len(X[1])
      S == SumMatSeq([i \in 1..n |-> SumMatSeq([j \in 1..n |->
             IF j = i THEN DM!ZeroMat(d, d)
             ELSE DM!MScale(Mul(Mul(Sub(YHat(P, y, i), y[i]), Sub(YHat(P, y, i), y[j])), P[i][j]), COuter(X, i, j))], 1, d)], 1, d)
  IN DM!MScale(FromInt(4), DM!MatMul(L, S))

(* ---- conditioning of the two soft-max gradients --------------------------------------------------------------- *)
(* The logged soft-max matrix P is only known to 2^-45 absolute per entry (double rounding, verified to that by the   *)
(* witness check), and near saturation the gradient is a sum of O(1) coefficients times huge outer products that      *)
(* almost cancels.  The bounds below are the first-order effect of a unit perturbation of every P entry on any entry  *)
(* of the gradient; 2^-45 times them is added to the comparison tolerance (negligible on well-scaled data).           *)
PairNorms(X) == DM!Sum([i \in 1..Len(X) |-> DM!Sum([j \in 1..Len(X) |-> IF i = j THEN Zero ELSE DM!Norm2(Diff(X, i, j))])])
NCAGradCond(L, X) == Mul(Mul(FromInt(2 * (Len(X) + 2)), Sum1M(L)), PairNorms(X))
MLKRGradCond(L, X, P, y) ==
  LET n == Len(X)
      Y == MaxAbsV(y)
      a(i) == Abs(Sub(YHat(P, y, i), y[i]))
      b(i, j) == Abs(Sub(YHat(P, y, i), y[j]))
      t(i, j) == Mul(DM!Norm2(Diff(X, i, j)), Add(Mul(a(i), b(i, j)), Mul(Mul(Add(a(i), b(i, j)), FromInt(n)), Y)))
  IN Mul(Mul(FromInt(4), Sum1M(L)),
         DM!Sum([i \in 1..n |-> DM!Sum([j \in 1..n |-> IF i = j THEN Zero ELSE t(i, j)])]))

(* ---- LMNN ---- *)
InputSqD(X, i, j) == DM!Norm2(Diff(X, i, j))
(* T is a valid set of k target neighbours of i: k nearest same-class points in the input space (ties: any) *)
IsTargetSet(X, y, i, T, k) ==
  /\ T \subseteq SameClass(y, i) /\ Cardinality(T) = k
  /\ \A p \in T : \A q \in SameClass(y, i) \ T : Leq(InputSqD(X, i, p), InputSqD(X, i, q))
Hinge(L, X, i, j, l) == LET h == Sub(Add(One, SqD(L, X, i, j)), SqD(L, X, i, l)) IN IF IsPos(h) THEN h ELSE Zero
IsActive(L, X, i, j, l) == IsPos(Sub(Add(One, SqD(L, X, i, j)), SqD(L, X, i, l)))
LMNNPull(L, X, targets) == DM!Sum([i \in 1..Len(X) |-> DM!Sum([t \in 1..Len(targets[i]) |-> SqD(L, X, i, targets[i][t])])])
LMNNPush(L, X, y, targets) ==
  DM!Sum([i \in 1..Len(X) |-> DM!Sum([t \in 1..Len(targets[i]) |->
     DM!Sum([l \in 1..Len(X) |-> IF y[l] # y[i] THEN Hinge(L, X, i, targets[i][t], l) ELSE Zero])])])
LMNNActive(L, X, y, targets) ==
  Cardinality({<<i, t, l>> \in (1..Len(X)) \X (1..Len(targets[1])) \X (1..Len(X)) :
                 y[l] # y[i] /\ IsActive(L, X, i, targets[i][t], l)})
(* a hinge within 2^-30 (relative to its terms) of zero: the documented objective is not differentiable there and the sign the *)
(* code sees is decided by rounding (integer-grid data under a rotation gives EXACT ties 1 + d_ij = d_il)                       *)
HingeNearTie(L, X, i, j, l) ==
  LET a == Add(One, SqD(L, X, i, j))  b == SqD(L, X, i, l) IN Leq(Abs(Sub(a, b)), Shift(Add(a, b), -2))
LMNNNearTies(L, X, y, targets) ==
  Cardinality({<<i, t, l>> \in (1..Len(X)) \X (1..Len(targets[1])) \X (1..Len(X)) :
                 y[l] # y[i] /\ HingeNearTie(L, X, i, targets[i][t], l)})
LMNNActiveClear(L, X, y, targets) ==
  Cardinality({<<i, t, l>> \in (1..Len(X)) \X (1..Len(targets[1])) \X (1..Len(X)) :
                 y[l] # y[i] /\ IsActive(L, X, i, targets[i][t], l) /\ ~HingeNearTie(L, X, i, targets[i][t], l)})
LMNNValue(L, X, y, targets, reg) == Add(Mul(reg, LMNNPull(L, X, targets)), Mul(Sub(One, reg), LMNNPush(L, X, y, targets)))
(* d o / d L = 2 L [ reg SUM_{i, j in T(i)} C_ij + (1 - reg) SUM_{active (i,j,l)} (C_ij - C_il) ] *)
LMNNGrad(L, X, y, targets, reg) ==
  LET n == Len(X)  d == Len(X[1])  k == Len(targets[1])
      pull == SumMatSeq([i \in 1..n |-> SumMatSeq([t \in 1..k |-> COuter(X, i, targets[i][t])], 1, d)], 1, d)
      push == SumMatSeq([i \in 1..n |-> SumMatSeq([t \in 1..k |-> SumMatSeq([l \in 1..n |->
                 IF y[l] # y[i] /\ IsActive(L, X, i, targets[i][t], l)
                 THEN DM!MSub(COuter(X, i, targets[i][t]), COuter(X, i, l)) ELSE DM!ZeroMat(d, d)], 1, d)], 1, d)], 1, d)
  IN DM!MScale(FromInt(2), DM!MatMul(L, DM!MAdd(DM!MScale(reg, pull), DM!MScale(Sub(One, reg), push))))
=============================================================================
