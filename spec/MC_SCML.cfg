CONSTANTS OMax = 3
 MaxCheckpoints = 5
INIT Init
NEXT Next
INVARIANT FirstLowestWins
CHECK_DEADLOCK FALSE
