------------------------------- MODULE MC_ITML -------------------------------
(***************************************************************************)
(* The cyclic-projection machine of ITML in dimension 1, in exact rational *)
(* arithmetic: constraints (v, y) with v in {1,2,3}, bounds in {1,2,4},    *)
(* gamma in {1/2, 1, 2, inf}, up to MaxSteps projections in cyclic order.  *)
(* Invariants: duals stay >= 0, A stays > 0, (K2) and the slack relation   *)
(* hold after every projection, and every fixed point satisfies (K3) -     *)
(* i.e. the certificate checked on real runs characterises the algorithm.  *)
(***************************************************************************)
EXTENDS ITML, TLC
CONSTANTS MaxSteps
VARIABLES cs, g, xi0, s, k
vars == <<cs, g, xi0, s, k>>
Vs == {1, 2, 3}
Bs == {1, 2, 4}
Gs == {RFrac(1, 2), ROne, RInt(2), GammaInf}
ConsSets == { <<[v |-> RInt(a), y |-> 1], [v |-> RInt(b), y |-> -1]>> : a \in Vs, b \in Vs }
            \cup { <<[v |-> RInt(a), y |-> 1], [v |-> RInt(b), y |-> -1], [v |-> RInt(c), y |-> 1]>> : a \in {1, 2}, b \in {1, 3}, c \in {3} }
Init == /\ cs \in ConsSets /\ g \in Gs
        /\ \E lo \in Bs : \E hi \in Bs : lo <= hi /\
             xi0 = [i \in 1..Len(cs) |-> IF cs[i].y = 1 THEN RInt(lo) ELSE RInt(hi)]
        /\ s = [A |-> ROne, lam |-> [i \in 1..Len(cs) |-> RZero], xi |-> xi0]
        /\ k = 0
Next == /\ k < MaxSteps
        /\ s' = Project(s, (k % Len(cs)) + 1, cs[(k % Len(cs)) + 1], g)
        /\ k' = k + 1 /\ UNCHANGED <<cs, g, xi0>>
DualsNonNegative == DualFeasible(s)
StaysPositive    == RIsPos(s.A) /\ \A i \in 1..Len(cs) : RIsPos(s.xi[i])
K2Holds          == K2Scalar(s, ROne, cs)
SlackHolds       == SlackRelation(s, xi0, cs, g)
FixedPointIsKKT  == IsFixedPoint(s, cs, g) => K3Scalar(s, cs)
PriorFeasibleKept == (k > 0 /\ \A i \in 1..Len(cs) : LET p == RMul(cs[i].v, cs[i].v) IN
                        IF cs[i].y = 1 THEN RLeq(p, xi0[i]) ELSE RLeq(xi0[i], p)) => REq(s.A, ROne)
=============================================================================
