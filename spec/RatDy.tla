------------------------------- MODULE RatDy -------------------------------
(* Exact rationals <<num, den>> over the dyadic bignums of Dy.tla (den > 0, *)
(* not normalised; comparisons by cross-multiplication).  Used by the small *)
(* exact models of the iterative solvers, where divisions occur.            *)
EXTENDS Dy
RZero == <<Zero, One>>
ROne  == <<One, One>>
RInt(n) == <<FromInt(n), One>>
RFrac(n, d) == <<FromInt(n), FromInt(d)>>          \* d > 0
RAdd(a, b) == RatNorm(Add(Mul(a[1], b[2]), Mul(b[1], a[2])), Mul(a[2], b[2]))
RNeg(a)    == <<Neg(a[1]), a[2]>>
RSub(a, b) == RAdd(a, RNeg(b))
RMul(a, b) == RatNorm(Mul(a[1], b[1]), Mul(a[2], b[2]))
(* a / b, b # 0 *)
RDiv(a, b) == IF IsPos(b[1]) THEN RatNorm(Mul(a[1], b[2]), Mul(a[2], b[1]))
              ELSE RatNorm(Neg(Mul(a[1], b[2])), Neg(Mul(a[2], b[1])))
RInv(a)    == RDiv(ROne, a)
REq(a, b)  == Mul(a[1], b[2]) = Mul(b[1], a[2])
RLeq(a, b) == Leq(Mul(a[1], b[2]), Mul(b[1], a[2]))
RLt(a, b)  == Lt(Mul(a[1], b[2]), Mul(b[1], a[2]))
RMin(a, b) == IF RLeq(a, b) THEN a ELSE b
RIsZero(a) == IsZero(a[1])
RIsPos(a)  == IsPos(a[1])
=============================================================================
